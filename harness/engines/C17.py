"""C17 — RDM transforms mean what they say; measures are invariant as theory dictates.

Engine interface (see harness/run_check.py):
  THEOREMS, LEVEL, RULE, BRANCHES, generate, run_impl, model_requests, model_result,
  compare, oracle, features, nontrivial_key, search, shrink

Case kinds
  tf  : one transform of `rsatoolbox.rdm.transform` applied to a stack of RDMs built with a
        measure name and the three descriptor dicts.  Numbers are ints or "p/q" dyadics
        (exact doubles), `None` = NaN (only for the transforms that support NaN: rank, sqrt,
        positive).  The real function is run on a real `RDMs` object; the Lean model
        (`Rsa.Core.Transform`, op `c17.apply`) gets the same record as JSON and returns the
        new vectors (exact rationals; doubles for sqrt), the new measure name and the
        descriptors it carried through.
  inv : invariance of the comparison measures: `compare(T(x), T'(y), method)` on the real code
        (T, T' library transforms or numeric maps applied through `transform(rdms, fun)`)
        against the model's measure of the *untransformed* vectors (op `c03.compare`), and the
        model's measure of the transformed vectors (sanity check of the theorem instance).
  sess: a *reuse session*: two RDMs objects (float64 and NaN-free as a rule; sometimes integer
        dtype or with shared NaN positions) are built once and go through a sequence of steps mixing
        transforms of the same object (`tf`) and comparisons (`cmp`) of the objects or of earlier
        transform results, with several methods, routes and argument forms (the object itself or its
        `get_vectors()` array).  Every step's result is compared with the model's answer for that
        single step on the PRISTINE values (op `c17.session` runs the model's store semantics
        `sessRun`: transforms append, comparisons read; `c03.compare` for the measures, of the
        untransformed vectors where the invariance theorems apply); after every step both source
        objects must be bit-identical to their pristine snapshot, and at the end every earlier result too.
"""
import importlib
import math
import warnings
from fractions import Fraction as F

import numpy as np

from lean import rat, unrat, fbits, unfbits, close
from engines import C17_oracle as orc

PROPERTY = 'C17'
LEVEL = 'proof'
P = 'Rsa.Props.C17.'
THEOREMS = [P + n for n in (
    'rankT_missing_stay_missing', 'rankT_ranks_among_present', 'rank_average_spec',
    'rank_min_max_spec', 'rank_dense_spec', 'ordinal_getElem', 'rank_ordinal_spec',
    'rank_order_preserving', 'rank_strictMono',
    'spearman_strictMono_invariant', 'rhoA_strictMono_invariant', 'tauA_strictMono_invariant',
    'tauB_strictMono_invariant', 'cosine_scale_invariant', 'corr_affine_invariant',
    'whitened_scale_invariant', 'whitened_corr_affine_reduces_to_scale',
    'sqrt_on_nonneg_keeps_rank_measures', 'rank_transform_keeps_rank_measures',
    'sqrt_pointwise', 'positive_pointwise', 'minmax_affine_increasing_onto_unit',
    'minmax_undefined_iff_constant', 'minmax_keeps_corr_and_rank_measures',
    'geotop_clipped_linear', 'geotop_uses_stack_quantiles', 'quantile_endpoints', 'transform_applies_f', 'descriptors_and_measure_propagate',
    'measure_names', 'geoWeights_spec', 'geoWeights_mem', 'geodesic_shortest_path',
    'geodesicT_spec',
    # round 3
    'quantile_index_spec', 'quantile_numpy_linear', 'quantile_between_neighbours', 'quantile_monotone',
    'quantile_grid', 'geotop_thresholds_ordered', 'geotop_undefined_iff', 'geotop_coinciding_thresholds',
    'minmax_nan_as_coded', 'geotop_nan_as_coded', 'geodesic_raises_iff', 'geodesic_stack_rows',
    'kendall_strictMono_invariant_both', 'whitened_corr_affine_invariant', 'cosine_not_shift_invariant',
    'corr_not_monotone_invariant', 'rankT_as_coded', 'descriptors_as_coded', 'measure_names_sqrt_rank',
    # round 4: reuse sessions
    'session_store_prefix', 'session_sources_unchanged', 'session_step_on_pristine',
    'session_outputs_pristine', 'session_corr_sqrt_rank',
    # round 7: correlation on a large common offset (second-order effect of a common error in the means;
    # raw-moment form = centred form over a field)
    'centred_moment_common_error', 'centred_moment_eq_raw',
)] + ['Rsa.Transform.' + n for n in (
    # bridges between the generated leaves (Rsa.Gen.C17) and the forms the theorems speak about
    'posClip_eq', 'sqrtArg_eq', 'minmaxEntry_eq', 'geotopEntry_eq', 'gtQa_eq', 'gtQb_eq',
    'geoKeep_eq_one_iff',
)]
RULE = ('cases come from one PRNG. kind tf: one of the seven transforms on a stack of 1..4 RDMs over '
        'n = 2..6 conditions (small integers / quarter- and eighth-valued dyadics with many ties, '
        'negatives, values inside [0,1], constant RDMs; NaN entries for rank/sqrt/positive; integer '
        'dtype stacks), all five rank methods, quantile pairs, a menu of custom functions, a measure '
        'name (None, plain, already ranked, "squared ...", padded) and list- or array-typed '
        'descriptors; 12 % of the minmax / geotop / geodesic stacks carry NaN entries (not supported there: '
        'the modelled propagation / ValueError is compared), geotop also with low == up and heavily tied '
        'stacks (coinciding thresholds: NaN on the threshold), geodesic also with n = 2; compared: every vector entry, NaN/inf positions, the measure name, the three '
        'descriptor dicts, n_rdm/n_cond. kind inv: compare(T(x), T\'(y)) on the real code for every '
        'measure with the maps theory allows (strictly increasing maps incl. sqrt/rank/minmax '
        'transforms for the rank-based measures, positive scalings for cosine-type, positive affine '
        'maps for correlation-type) against the model measure of the untransformed RDMs. A case is '
        'non-trivial when some RDM is non-constant; distinct = distinct case contents. Scale and offset '
        'of the values are drawn broadly (tiny 1e-12..1e-6, huge 1e6..1e12, O(1) spread on offsets '
        '2^20/2^30/2^40, clusters of exact ties next to distinct values with relative gaps 2^-20..2^-39), '
        'always exactly representable doubles sent unchanged to the exact model; the increasing maps '
        'include rescaling by 2^e ~ 10^k (k = -12..12), x + c, cube, sqrt, exp, log and are accepted '
        'only if they keep every order relation among the entries in double precision. kind sess (reuse '
        'sessions): two RDMs objects (float64 without NaN in ~80 %, else integer dtype or shared NaN '
        'positions; 1..3 RDMs, n = 3..5) built once go through 3..9 steps drawn from templates '
        '(compare corr/corr_cov -> transform -> rank measure of the result; transform -> compare -> the '
        'same transform again; the same comparison twice around other steps) plus random steps: a '
        'transform of a source object (all seven kinds) or a comparison (all eight measures, '
        'compare(method) or compare_<measure>, the object or its get_vectors() array) of source objects '
        'or of earlier transform results whose map the measure is invariant under. Compared per step: '
        'the full transform result / the similarity matrix against the model of that single step on '
        'the pristine values; after every step both source objects (vectors bitwise, dtype, measure, '
        'descriptors) against their snapshot; at the end every earlier result against its snapshot.')
KINDS = ['rank', 'sqrt', 'positive', 'custom', 'minmax', 'geotop', 'geodesic']
RANK_METHODS = ['average', 'min', 'max', 'dense', 'ordinal']
NAN_OK = ('rank', 'sqrt', 'positive')
NAN_UNSUPPORTED = ('minmax', 'geotop', 'geodesic')   # modelled as coded: propagate / raise
INV_METHODS = ['spearman', 'rho-a', 'tau-a', 'kendall', 'cosine', 'corr', 'cosine_cov', 'corr_cov']
RANK_BASED = ('spearman', 'rho-a', 'tau-a', 'kendall', 'tau-b')
EXACT = ('tau-a', 'rho-a')
DIRECT = {'spearman': 'compare_spearman', 'rho-a': 'compare_rho_a', 'tau-a': 'compare_kendall_tau_a',
          'kendall': 'compare_kendall_tau', 'cosine': 'compare_cosine', 'corr': 'compare_correlation',
          'cosine_cov': 'compare_cosine_cov_weighted', 'corr_cov': 'compare_correlation_cov_weighted'}
CUSTOM_FNS = ['affine', 'cube', 'cumsum', 'revrows']
BRANCHES = (['t:' + k for k in KINDS] + ['rank:' + m for m in RANK_METHODS] +
            ['custom:' + f for f in CUSTOM_FNS] +
            ['nan', 'ties', 'negative', 'int_dtype', 'unit_range', 'stack>1', 'constant_rdm',
             'geodesic_inf', 'measure:none', 'measure:ranked', 'measure:squared', 'measure:plain',
             'desc:list', 'desc:array', 'kind:inv', 'inv:both_args', 'inv:nan_shared'] +
            ['inv:' + m for m in INV_METHODS] +
            ['map:' + m for m in ('sqrt_transform', 'rank_transform', 'minmax_transform',
                                  'positive_transform', 'affine', 'cube', 'exp', 'scale', 'pow2', 'shift',
                                  'sqrt', 'log')] +
            ['nan:minmax', 'nan:geotop', 'nan:geodesic', 'nan:partial_stack', 'geodesic:raise',
             'geotop:same_q', 'geotop:coincide_nan', 'inv:arg:array', 'inv:arg:array1d',
             'inv:route:direct', 'inv:alias:tau-b', 'desc:scalar_rdm'] +
            ['scale:tiny', 'scale:huge', 'offset:huge', 'near_tie',
             'inv:scale:tiny', 'inv:scale:huge', 'inv:offset:huge', 'inv:near_tie',
             'inv:tau-a:scale:tiny', 'inv:tau-a:offset:huge', 'inv:tau-a:near_tie'] +
            # round 7: correlation-type measures on exactly representable large offsets
            ['offset:' + t for t in ('2^20', '2^24', '2^27', '1e6', '1e8')] +
            ['offset:tol1e-9', 'offset:nan_shared', 'inv:corr:offset', 'inv:corr_cov:offset',
             'inv:corr:shift', 'inv:corr_cov:shift', 'sess:corr_on_offset_result'] +
            # round 4: reuse sessions
            ['kind:sess', 'sess:float_nan_free', 'sess:int_dtype', 'sess:nan', 'sess:stack>1',
             'sess:cmp_then_tf', 'sess:centring_then_tf', 'sess:tf_cmp_tf', 'sess:cmp_on_result',
             'sess:rank_on_result_after_centring', 'sess:cosine_after_centring', 'sess:repeat_cmp',
             'sess:arg:array', 'sess:arg:array1d', 'sess:route:direct', 'sess:sigma', 'sess:len>=6',
             'sess:same_side'] +
            ['sess:t:' + k for k in KINDS] + ['sess:m:' + m for m in INV_METHODS])
ASSUMPTIONS = [
    'IEEE evaluation of either side is within the stated tolerance of the real value (inputs are '
    'integers / dyadics times powers of two over ~24 decades of scale, offsets up to 2^40, n <= 6; '
    'cosine-type cases avoid huge common offsets, cosine- and correlation-type cases near-tie clusters (mean '
    'removal would be rounding-dominated), and their tolerance grows as 64*eps*kappa^2 with the a-priori '
    'conditioning kappa = max|x|/spread(x) of the exact inputs -- except for correlation-type rows of the '
    'benign-offset class (entries on one dyadic grid with exact sums, one sign, min|x| >= max|x|/2, '
    'kappa <= 2^30; offsets 2^20..1e8 in practice): there mean removal in doubles is exact up to one '
    'common rounding d of the mean, which perturbs the correlation by <= 2 n (2^-53 kappa)^2 <= 4e-13, so '
    'the tolerance stays 1e-9; geotop avoids thresholds inside a near-tie cluster)',
    'np.quantile (linear interpolation) is modelled by `quantileLin` on exact rationals and agrees '
    'within 1e-9 on every geotop case; the clipped linear map is continuous in the thresholds',
    'networkx.floyd_warshall_numpy returns shortest-path lengths (inf when unreachable); the model '
    'computes them by relaxation rounds and the two are compared on every geodesic case',
]
TRUSTED_EXTRA = [
    'contract: scipy.stats.rankdata(method, nan_policy=omit) = count-form ranks among the non-NaN '
    'entries (checked exactly on every rank case, all five methods)',
    'contract: networkx.floyd_warshall_numpy = shortest-path lengths (checked on every geodesic case)',
    'contract: np.quantile default method "linear" = a[floor(v)] + (v - floor(v)) * (a[min(floor(v)+1, n-1)] - a[floor(v)]) '
    'with v = q*(n-1) on the sorted data (theorem quantile_numpy_linear states the model computes exactly '
    'this; checked within 1e-9 on every geotop case); np.quantile of data with a NaN is NaN',
    'contract: scipy squareform(checks=True) raises ValueError on a NaN matrix (geodesic of a constant / '
    'NaN RDM; compared on every such case)',
    'measure comparison functions: the model of property C03 (Rsa.Core.Compare, op c03.compare)',
]

_tf = importlib.import_module('rsatoolbox.rdm.transform')
_cmp = importlib.import_module('rsatoolbox.rdm.compare')


# ------------------------------------------------------------------ helpers

def _fl(v):
    return float('nan') if v is None else float(unrat(v))


def _arr(stack, dtype='float'):
    if dtype == 'int':
        return np.array([[int(unrat(v)) for v in row] for row in stack], dtype=int)
    return np.array([[_fl(v) for v in row] for row in stack], dtype=float)


def _canon(v):
    """descriptor values -> plain python"""
    if isinstance(v, dict):
        return {str(k): _canon(x) for k, x in sorted(v.items())}
    if isinstance(v, np.ndarray):
        return [_canon(x) for x in v.tolist()]
    if isinstance(v, (list, tuple)):
        return [_canon(x) for x in v]
    if isinstance(v, np.generic):
        return v.item()
    return v


def _desc(d, style):
    """the descriptor dict handed to the RDMs constructor"""
    out = {}
    for k, v in d.items():
        out[k] = np.array(v) if (style == 'array' and isinstance(v, list)) else \
            (list(v) if isinstance(v, list) else v)
    return out


def _build(case, stack=None, dtype=None):
    from rsatoolbox.rdm import RDMs
    return RDMs(_arr(case['x'] if stack is None else stack, dtype or case.get('dtype', 'float')),
                dissimilarity_measure=case.get('measure'),
                descriptors=_desc(case.get('descr', {}), case.get('desc_style', 'list')),
                rdm_descriptors=_desc(case.get('rdm_descr', {}), case.get('desc_style', 'list')),
                pattern_descriptors=_desc(case.get('pat_descr', {}), case.get('desc_style', 'list')))


def custom_fun(fn):
    name = fn['name']
    if name == 'affine':
        a, b = _fl(fn['a']), _fl(fn['b'])
        return lambda d: a * d + b
    if name == 'scale':
        c = _fl(fn['c'])
        return lambda d: c * d
    if name == 'cube':
        return lambda d: d ** 3
    if name == 'exp':
        return lambda d: np.exp(d / 4.0)
    if name == 'pow2':                      # rescaling by 2**e (e ~ k*log2(10), k = -12..12): exact
        c = 2.0 ** int(fn['e'])
        return lambda d: d * c
    if name == 'shift':                     # x -> x + c
        c = _fl(fn['c'])
        return lambda d: d + c
    if name == 'sqrt':
        return lambda d: np.sqrt(d)
    if name == 'log':
        return lambda d: np.log(d)
    if name == 'cumsum':
        return lambda d: np.cumsum(d, axis=1)
    if name == 'revrows':
        return lambda d: d[::-1].copy()
    raise ValueError(name)


def apply_real(case, rdms):
    t = case['t']
    if t == 'rank':
        return _tf.rank_transform(rdms, method=case['method'])
    if t == 'sqrt':
        return _tf.sqrt_transform(rdms)
    if t == 'positive':
        return _tf.positive_transform(rdms)
    if t == 'custom':
        return _tf.transform(rdms, custom_fun(case['fn']))
    if t == 'minmax':
        return _tf.minmax_transform(rdms)
    if t == 'geotop':
        return _tf.geotopological_transform(rdms, case['low'], case['up'])
    if t == 'geodesic':
        return _tf.geodesic_transform(rdms)
    raise ValueError(t)


def _num_out(v):
    v = float(v)
    if math.isnan(v):
        return None
    if math.isinf(v):
        return 'inf' if v > 0 else '-inf'
    return v


EXC = (ValueError, TypeError, AssertionError, IndexError, ZeroDivisionError, AttributeError,
       KeyError, np.linalg.LinAlgError)


def quiet(f, *a, **k):
    with np.errstate(all='ignore'):
        with warnings.catch_warnings():
            warnings.simplefilter('ignore')
            return f(*a, **k)


# ------------------------------------------------------------------ generation

def _q(rng, lo, hi, den):
    return rat(F(rng.randint(lo, hi), den))


def _vector(rng, m, style):
    if style == 'ties':
        return [rng.randint(0, 3) for _ in range(m)]
    if style == 'neg':
        return [rng.randint(-3, 6) for _ in range(m)]
    if style == 'quarters':
        return [_q(rng, -4, 24, 4) for _ in range(m)]
    if style == 'unit':
        return [_q(rng, 0, 8, 8) for _ in range(m)]
    if style == 'distinct':
        return rng.sample(range(-5, 4 * m + 2), m)
    if style == 'nonneg_distinct':
        return rng.sample(range(0, 4 * m + 2), m)
    if style == 'const':
        return [rng.choice([0, 1, 2])] * m
    raise ValueError(style)


STYLES = ['ties', 'ties', 'neg', 'neg', 'quarters', 'unit', 'unit', 'distinct', 'distinct']
WIDE_STYLES = ['tiny', 'huge', 'offset', 'near_tie']
# round 7: exactly representable large offsets under an O(1) dyadic spread -- the class on which a
# correlation computed from raw moments (sum x^2 - (sum x)^2 / n) cancels catastrophically while the
# centred (two-pass) computation stays exact to second order (see `benign_offset`)
BIG_OFFSETS = {'2^20': 2 ** 20, '2^24': 2 ** 24, '2^27': 2 ** 27, '1e6': 10 ** 6, '1e8': 10 ** 8}
CORR_TYPE = ('corr', 'corr_cov')


def pow10_exp(k):
    """the power of two closest to 10**k (keeps every value an integer times a power of two)"""
    return int(round(k * math.log2(10)))


def _wide_vector(rng, m, style, par):
    """values whose *scale and offset* vary over ~24 decades but which stay exactly representable
    doubles (small integers / dyadics times powers of two), so 'distinct' and 'tied' are unambiguous

      tiny     small integers (with ties) times 2**e, 10**-12 <= 2**e <= 10**-6
      huge     the same times 2**e, 10**6 <= 2**e <= 10**12
      offset   an O(1) spread of quarters on top of a large common offset (~1e6 / ~1e9 / ~1e12)
      near_tie clusters c*(1 + j*2**-g): exact ties (equal j) next to distinct values whose relative
               gap is 2**-g, 1e-12 < 2**-g < 1e-6, optionally at a tiny or huge overall scale
    """
    if style in ('tiny', 'huge'):
        sc = F(2) ** par['e']
        base = [rng.randint(0, 6) for _ in range(m)] if par['ties'] else \
            rng.sample(range(par['lo'], par['lo'] + 3 * m + 2), m)
        return [rat(b * sc) for b in base]
    if style == 'offset':
        return [rat(par['off'] + F(rng.randint(-8, 24), 4)) for _ in range(m)]
    if style == 'bigoff':
        # spread O(1) (multiples of 1/den in [0, 4], ties possible) on an exactly representable offset
        while True:
            ks = [rng.randint(0, 4 * par['den']) for _ in range(m)]
            if (max(ks) - min(ks)) * 8 >= par['den']:
                return [rat(par['off'] + F(k, par['den'])) for k in ks]
    if style == 'near_tie':
        sc = F(2) ** par['e']
        out = []
        for _ in range(m):
            c = rng.choice(par['centres'])
            j = rng.choice([0, 0, 1, 2, 3])
            out.append(rat(sc * c * (1 + j * F(1, 2 ** par['g']))))
        return out
    raise ValueError(style)


def _wide_params(rng, style):
    if style == 'tiny':
        return {'e': pow10_exp(rng.randint(-12, -6)), 'ties': rng.random() < 0.6, 'lo': rng.choice([-4, 0, 1])}
    if style == 'huge':
        return {'e': pow10_exp(rng.randint(6, 12)), 'ties': rng.random() < 0.6, 'lo': rng.choice([-4, 0, 1])}
    if style == 'offset':
        return {'off': rng.choice([1, 1, 1, -1]) * 2 ** rng.choice([20, 30, 30, 40])}
    if style == 'bigoff':
        return {'off': rng.choice([1, 1, 1, -1]) * BIG_OFFSETS[rng.choice(sorted(BIG_OFFSETS))],
                'den': rng.choice([4, 8, 64])}
    return {'e': rng.choice([0, 0, pow10_exp(-10), pow10_exp(-7), pow10_exp(9)]),
            'g': rng.randint(20, 39), 'centres': rng.sample(range(1, 9), rng.randint(1, 3))}


def _stack(rng, m, n_rdm, style):
    """`n_rdm` vectors of one style (wide styles share scale / offset over the stack)"""
    if style in WIDE_STYLES or style == 'bigoff':
        par = _wide_params(rng, style)
        return [_wide_vector(rng, m, style, par) for _ in range(n_rdm)]
    return [_vector(rng, m, style) for _ in range(n_rdm)]


def scale_tags(stack):
    """coverage tags for the magnitude / offset / near-tie structure of the values"""
    vals = [unrat(v) for row in stack for v in row if v is not None]
    nz = [abs(v) for v in vals if v != 0]
    tags = []
    if not nz:
        return tags
    hi, lo = max(nz), min(nz)
    spread = max(vals) - min(vals)
    if hi < F(1, 10 ** 5):
        tags.append('scale:tiny')
    if spread > 10 ** 5 and hi > 10 ** 5:
        tags.append('scale:huge')
    if lo > 10 ** 5 and spread * 1000 < lo:
        tags.append('offset:huge')
    for row in stack:
        d = sorted({unrat(v) for v in row if v is not None})
        if any(0 < b - a <= max(abs(a), abs(b)) / 10 ** 6 for a, b in zip(d, d[1:])):
            tags.append('near_tie')
            break
    return tags


def offset_tags(case):
    """which of the exactly representable large offsets (BIG_OFFSETS) the centred rows of an `inv` case sit
    on -- original rows and exactly mapped rows -- judged from the data: every |entry| within 64 of the
    offset, spread <= 64"""
    tags = set()
    for mp, stack in ((case['fx'], case['x']), (case['fy'], case['y'])):
        stack = _drop(stack, case.get('nanpos'))
        stacks = [stack]
        if mp is not None and mapped_exact(mp, stack) is not None:
            stacks.append(mapped_exact(mp, stack))
        for st in stacks:
            for row in st:
                vals = [abs(unrat(v)) for v in row]
                for tag, off in BIG_OFFSETS.items():
                    if all(abs(v - off) <= 64 for v in vals) and max(vals) > min(vals):
                        tags.add(tag)
    return sorted(tags)


def _measure(rng):
    return rng.choice([None, None, 'euclidean', 'squared euclidean', 'squared mahalanobis',
                       'correlation', 'corr (ranks)', ' padded ', 'crossnobis', '',
                       'sqrt of x (ranks) pooled'])


def _descriptors(rng, n_rdm, n):
    descr = {'subj': rng.randint(0, 9), 'roi': rng.choice(['V1', 'IT', 'ü-ß'])}
    if rng.random() < 0.6:
        descr['tags'] = [rng.choice(['a', 'b', 'c']) for _ in range(rng.randint(1, 3))]
    rdm_descr, pat_descr = {}, {}
    if rng.random() < 0.8:
        rdm_descr['session'] = [rng.randint(0, 3) for _ in range(n_rdm)]
    if rng.random() < 0.5:
        rdm_descr['name'] = [rng.choice(['s', 't', 'u']) + str(i) for i in range(n_rdm)]
    if rng.random() < 0.8:
        pat_descr['cond'] = ['c' + str(rng.randint(0, 9)) for _ in range(n)]
    if rng.random() < 0.5:
        pat_descr['type'] = [rng.randint(0, 2) for _ in range(n)]
    if n_rdm == 1 and rng.random() < 0.2:
        # a scalar rdm descriptor (accepted for a single RDM: the constructor wraps it in a list)
        rdm_descr['run'] = rng.choice([7, 'r1'])
    return descr, rdm_descr, pat_descr


def _tf_case(rng, t, nmax):
    n = rng.randint(2, nmax)
    if t == 'geodesic' and n == 2 and rng.random() < 0.8:
        n = rng.randint(3, nmax)        # a single pair is always constant (the call raises): keep a few
    m = n * (n - 1) // 2
    n_rdm = rng.choice([1, 1, 2, 3, 4])
    # wide scales / offsets / near ties: everywhere the comparison is exact or well-conditioned
    # (geotop thresholds inside a cluster or on top of a huge offset are rounding-dominated; the
    # custom functions are compared exactly and a*x+b is not exact at such scales)
    wide = {'rank': WIDE_STYLES, 'sqrt': WIDE_STYLES, 'positive': WIDE_STYLES,
            'minmax': WIDE_STYLES, 'geodesic': WIDE_STYLES, 'geotop': ['tiny', 'huge']}.get(t, [])
    if wide and rng.random() < 0.35:
        x = _stack(rng, m, n_rdm, rng.choice(wide))
    else:
        x = [_vector(rng, m, rng.choice(STYLES)) for _ in range(n_rdm)]
    if rng.random() < 0.08:
        x[rng.randrange(n_rdm)] = _vector(rng, m, 'const')
    if t in NAN_OK and rng.random() < 0.4:
        for row in x:
            for k in range(m):
                if rng.random() < 0.25:
                    row[k] = None
    if t in NAN_UNSUPPORTED and rng.random() < 0.12:
        # NaN is not supported there; what the code does with it (an RDM / the whole stack turns
        # NaN, geodesic raises) is modelled and compared: one NaN in one RDM, sometimes more
        rows = [rng.randrange(n_rdm)] if rng.random() < 0.7 else list(range(n_rdm))
        for i in rows:
            x[i] = list(x[i])
            for k in rng.sample(range(m), rng.randint(1, max(1, m // 2))):
                x[i][k] = None
    dtype = 'float'
    if all(isinstance(v, int) for row in x for v in row) and rng.random() < 0.3:
        dtype = 'int'
    descr, rdm_descr, pat_descr = _descriptors(rng, n_rdm, n)
    case = {'kind': 'tf', 't': t, 'n': n, 'x': x, 'dtype': dtype, 'measure': _measure(rng),
            'descr': descr, 'rdm_descr': rdm_descr, 'pat_descr': pat_descr,
            'desc_style': rng.choice(['list', 'array'])}
    if t == 'rank':
        case['method'] = rng.choice(RANK_METHODS)
    if t == 'geotop':
        low = rng.choice([0.0, 0.1, 0.2, 0.25, 0.3, 0.05, round(rng.uniform(0, 0.45), 2)])
        up = rng.choice([1.0, 0.9, 0.8, 0.75, 0.7, 0.95, round(rng.uniform(0.55, 1), 2)])
        if rng.random() < 0.06:
            low = up = rng.choice([0.0, 0.25, 0.5, 0.5, 0.75, 1.0])   # one threshold: a step (0/0 on it)
        case['low'], case['up'] = low, up
    if t == 'custom':
        name = rng.choice(CUSTOM_FNS)
        fn = {'name': name}
        if name == 'affine':
            fn['a'], fn['b'] = _q(rng, -8, 12, 4), _q(rng, -8, 8, 4)
        case['fn'] = fn
    return case


def float_map(mp):
    """the map as a function on a float array (library transforms simulated in plain numpy), used
    only by the generator to make sure the map is strictly increasing *in doubles* on the entries"""
    name = mp['name']
    if name == 'sqrt_transform':
        return lambda d: np.sqrt(np.maximum(d, 0))
    if name == 'positive_transform':
        return lambda d: np.maximum(d, 0)
    if name == 'minmax_transform':
        return lambda d: (d - d.min(axis=1, keepdims=True)) / \
            (d.max(axis=1, keepdims=True) - d.min(axis=1, keepdims=True))
    if name == 'rank_transform':
        return None
    return custom_fun(mp)


def order_embedding(mp, stack):
    """does the double-precision map keep every strict order and every tie among the entries of each
    RDM?  (x + 1e9 absorbs tiny values, exp collapses near ties, ... -- such draws are rejected so
    that 'strictly increasing map' is unambiguous on the doubles the library sees)"""
    f = float_map(mp)
    if f is None:
        return True
    for row in stack:
        ex = [unrat(v) for v in row]
        with np.errstate(all='ignore'):
            out = np.asarray(f(np.array([[float(v) for v in ex]], dtype=float)), dtype=float)[0]
        if not np.all(np.isfinite(out)):
            return False
        for a in range(len(ex)):
            for b in range(a + 1, len(ex)):
                se = (ex[a] > ex[b]) - (ex[a] < ex[b])
                so = int(out[a] > out[b]) - int(out[a] < out[b])
                if se != so:
                    return False
    return True


def _draw_map(rng, name, stack):
    mp = {'name': name}
    if name == 'rank_transform':
        ties = any(len({unrat(v) for v in row}) < len(row) for row in stack)
        mp['method'] = rng.choice(['average', 'min', 'max', 'dense'] + ([] if ties else ['ordinal']))
    if name == 'affine':
        mp['a'], mp['b'] = _q(rng, 1, 12, 4), _q(rng, -8, 8, 4)
    if name == 'scale':
        mp['c'] = _q(rng, 1, 20, 4)
    if name == 'pow2':
        mp['e'] = pow10_exp(rng.choice([k for k in range(-12, 13) if k != 0]))
    if name == 'shift':
        vals = [unrat(v) for row in stack for v in row]
        big = BIG_OFFSETS[rng.choice(sorted(BIG_OFFSETS))]
        c = rng.choice([2 ** 20, -2 ** 20, 2 ** 30, -2 ** 30, 1, F(-1, 4), -min(vals), -min(vals),
                        -(min(vals) + max(vals)) / 2, big, big, -big])
        mp['c'] = rat(F(c))
    if name in ('shift_off', 'affine_off'):
        # round 7: y = a*x + b with an exactly representable large offset b (correlation-type measures)
        vals = [unrat(v) for row in stack for v in row]
        big = rng.choice([1, 1, 1, -1]) * BIG_OFFSETS[rng.choice(sorted(BIG_OFFSETS))]
        if name == 'shift_off':
            cands = [big, big, big]
            if min(abs(v) for v in vals) > 1000:        # a stack that sits on an offset: remove it
                cands += [-min(vals), -F(int(min(vals)))]
            mp = {'name': 'shift', 'c': rat(F(rng.choice(cands)))}
        else:
            mp = {'name': 'affine', 'a': rat(F(rng.choice([1, 2, 4, 8, 3, 5, 6]), rng.choice([1, 2, 4]))),
                  'b': rat(F(big))}
    return mp


def exact_in_doubles(mp, stack):
    """is the map, as the library evaluates it in doubles, exactly the rational map on these entries?
    (a*x + b on dyadics with an exactly representable b: no rounding in the *data*, so whatever changes
    in a comparison afterwards is produced by the library)"""
    ex = mapped_exact(mp, stack)
    if ex is None:
        return False
    f = float_map(mp)
    with np.errstate(all='ignore'):
        out = np.asarray(f(np.array([[float(unrat(v)) for v in row] for row in stack], dtype=float)),
                         dtype=float)
    if not np.all(np.isfinite(out)):
        return False
    return all(F(float(o)) == unrat(e) for ro, re_ in zip(out.tolist(), ex) for o, e in zip(ro, re_))


def _inv_map(rng, method, vec_style, has_nan, stack):
    """a map under which `method` is invariant and which is strictly increasing on the entries in
    double precision (rank-based measures) / exactly a positive scaling or well-conditioned positive
    affine map (cosine- / correlation-type measures)"""
    vals = [unrat(v) for row in stack for v in row]
    nonneg = all(v >= 0 for v in vals)
    pos = all(v > 0 for v in vals)
    wide = vec_style in WIDE_STYLES
    if method in RANK_BASED:
        opts = ['rank_transform', 'pow2', 'pow2', 'shift', 'shift', 'cube', 'scale', 'affine', 'exp']
        if nonneg:
            opts += ['sqrt_transform', 'sqrt_transform', 'positive_transform', 'sqrt']
        if pos:
            opts += ['log', 'log']
        if not has_nan:
            opts += ['minmax_transform']
    elif method in ('cosine', 'cosine_cov'):
        opts = ['scale', 'pow2']
    elif vec_style == 'bigoff':
        opts = ['scale', 'pow2', 'shift_off', 'shift_off']
    else:
        opts = ['scale', 'pow2'] + ([] if wide else ['affine', 'shift_off', 'shift_off', 'affine_off']) + \
            ([] if has_nan else ['minmax_transform'])
    for _ in range(12):
        drawn = rng.choice(opts)
        mp = _draw_map(rng, drawn, stack)
        if drawn in ('shift_off', 'affine_off') and not (
                exact_in_doubles(mp, stack) and all(
                    _is_const(r) or benign_offset([unrat(v) for v in r]) or row_kappa([unrat(v) for v in r]) <= 1000
                    for r in mapped_exact(mp, stack))):
            continue
        if mp['name'] == 'pow2':
            # stay far from overflow / underflow of the doubles (and of their squares and cubes)
            top = max([abs(v) for v in vals if v != 0] or [F(1)])
            if not F(1, 2 ** 90) < top * F(2) ** mp['e'] < 2 ** 90:
                continue
        if method not in RANK_BASED or order_embedding(mp, stack):
            return mp
    return {'name': 'scale', 'c': 2}        # exact in doubles, always admissible


def _inv_case(rng, method, nmax):
    n = rng.randint(3, nmax)
    m = n * (n - 1) // 2
    nx, ny = rng.choice([1, 1, 2, 3]), rng.choice([1, 2, 2, 3])
    plain_x = ['ties', 'unit', 'nonneg_distinct', 'nonneg_distinct', 'neg', 'distinct', 'quarters']
    plain_y = ['ties', 'unit', 'nonneg_distinct', 'neg', 'distinct', 'quarters']
    if method in RANK_BASED:
        wide = WIDE_STYLES                      # order is all that matters: any scale, any offset
    else:
        # centring / normalising is rounding-dominated when max|x| / spread(x) is large: no common
        # offsets and no near-tie clusters for the cosine- and correlation-type measures
        wide = ['tiny', 'huge'] + (['bigoff', 'bigoff'] if method in CORR_TYPE else [])
    sx = rng.choice(wide) if rng.random() < 0.5 else rng.choice(plain_x)
    sy = rng.choice(wide) if rng.random() < 0.3 else rng.choice(plain_y)
    x = _stack(rng, m, nx, sx)
    y = _stack(rng, m, ny, sy)
    nanpos = None
    if method in ('spearman', 'rho-a', 'tau-a', 'kendall', 'cosine', 'corr') and m >= 6 \
            and rng.random() < 0.2:
        nanpos = sorted(rng.sample(range(m), rng.randint(1, m - 4)))
    fx = _inv_map(rng, method, sx, nanpos is not None, x)
    fy = _inv_map(rng, method, sy, nanpos is not None, y) if rng.random() < 0.5 else None
    # min-max of a constant RDM is 0/0: not a map the property speaks about
    if fx['name'] == 'minmax_transform':
        x = [r if not _is_const(r) else _vector(rng, m, 'nonneg_distinct') for r in x]
    if fy is not None and fy['name'] == 'minmax_transform':
        y = [r if not _is_const(r) else _vector(rng, m, 'nonneg_distinct') for r in y]
    sigma = None
    if method in ('cosine_cov', 'corr_cov') and rng.random() < 0.4:
        sigma = {'vec': [rng.choice(['1/2', 1, '3/2', 2, 3]) for _ in range(n)]}
    # glue around the measures: how the (transformed) RDMs reach the comparison -- as RDMs objects or
    # as plain arrays (2-D, or 1-D for a single RDM), through compare(method=...) or through the
    # public compare_<measure> function itself
    form_x = rng.choice(['rdms', 'rdms', 'rdms', 'array'] + (['array1d'] if nx == 1 else []))
    form_y = rng.choice(['rdms', 'rdms', 'rdms', 'array'] + (['array1d'] if ny == 1 else []))
    route = rng.choice(['compare', 'compare', 'direct'])
    if method == 'kendall' and rng.random() < 0.3:
        method_name = 'tau-b'           # alias of the same measure
    else:
        method_name = method
    return {'kind': 'inv', 'method': method, 'n': n, 'x': x, 'y': y, 'sx': sx, 'sy': sy,
            'fx': fx, 'fy': fy, 'sigma': sigma, 'nanpos': nanpos,
            'form_x': form_x, 'form_y': form_y, 'route': route, 'method_name': method_name}


def generate(rng, tier):
    per_kind = 300 if tier == 'quick' else 4000
    nmax = 5 if tier == 'quick' else 6
    for _ in range(per_kind):
        for t in KINDS:
            yield _tf_case(rng, t, nmax)
    for _ in range(50 if tier == 'quick' else 2000):
        yield dict(_tf_case(rng, 'rank', nmax), method=RANK_METHODS[_ % 5])
    for _ in range(160 if tier == 'quick' else 2500):
        for method in INV_METHODS:
            yield _inv_case(rng, method, nmax)
    for k in range(400 if tier == 'quick' else 6000):
        yield _sess_case(rng, min(nmax, 5), k % 4)
    if tier == 'thorough':
        yield from exhaustive()


def exhaustive():
    """small spaces the property invites to enumerate (thorough tier)"""
    import itertools
    base = {'kind': 'tf', 'dtype': 'float', 'measure': None, 'descr': {}, 'rdm_descr': {},
            'pat_descr': {}, 'desc_style': 'list'}
    for v in itertools.product([0, 1, 2, None], repeat=3):
        for method in RANK_METHODS:
            yield dict(base, t='rank', n=3, x=[list(v)], method=method)
    for v in itertools.product([0, 1, 2, 3], repeat=3):
        for t in ('geodesic', 'minmax'):
            yield dict(base, t=t, n=3, x=[list(v)])
    for v in itertools.product([0, 1, 2], repeat=6):
        yield dict(base, t='geodesic', n=4, x=[list(v)])
    # NaN where it is not supported, coinciding thresholds: every {0, 1, 2, NaN}^3 next to a regular RDM
    for v in itertools.product([0, 1, 2, None], repeat=3):
        for t in ('minmax', 'geodesic'):
            yield dict(base, t=t, n=3, x=[list(v), [0, 1, 3]])
        for low, up in ((0.25, 0.75), (0.5, 0.5), (0.0, 1.0)):
            yield dict(base, t='geotop', n=3, x=[list(v)], low=low, up=up)
            yield dict(base, t='geotop', n=3, x=[list(v), [1, 1, 2]], low=low, up=up)


def search(rng, tier):
    for k in range(100000):
        if k % 5 == 4:
            yield _sess_case(rng, 4 if k < 300 else 5, (k // 5) % 4)
        elif k % 3 == 2:
            yield _inv_case(rng, INV_METHODS[(k // 3) % len(INV_METHODS)], 4 if k < 300 else 5)
        else:
            yield _tf_case(rng, KINDS[(k - k // 3) % len(KINDS)], 4 if k < 300 else 5)


# ------------------------------------------------------------------ implementation side

def _apply_map(mp, rdms):
    name = mp['name']
    if name == 'sqrt_transform':
        return _tf.sqrt_transform(rdms)
    if name == 'positive_transform':
        return _tf.positive_transform(rdms)
    if name == 'minmax_transform':
        return _tf.minmax_transform(rdms)
    if name == 'rank_transform':
        return _tf.rank_transform(rdms, method=mp['method'])
    return _tf.transform(rdms, custom_fun(mp))


def _with_nan(stack, nanpos):
    if not nanpos:
        return stack
    return [[None if k in nanpos else v for k, v in enumerate(row)] for row in stack]


def _sigma_np(sig):
    return None if sig is None else np.array([_fl(v) for v in sig['vec']], dtype=float)


def _mat_out(mat):
    return [[_num_out(v) for v in row] for row in np.asarray(mat, dtype=float).tolist()]


def inv_call(case, transformed=True):
    """compare(T(x), T'(y)) (or compare(x, y)) on the real code"""
    from rsatoolbox.rdm import RDMs
    try:
        rx = RDMs(_arr(_with_nan(case['x'], case['nanpos'])))
        ry = RDMs(_arr(_with_nan(case['y'], case['nanpos'])))
        if transformed:
            rx = quiet(_apply_map, case['fx'], rx)
            if case['fy'] is not None:
                ry = quiet(_apply_map, case['fy'], ry)

        def as_form(r, form):
            if form == 'array':
                return np.array(r.get_vectors())
            if form == 'array1d':
                return np.array(r.get_vectors())[0]
            return r
        rx, ry = as_form(rx, case.get('form_x', 'rdms')), as_form(ry, case.get('form_y', 'rdms'))
        if case.get('route') == 'direct':
            fun = getattr(_cmp, DIRECT[case['method']])
            if case['method'] in ('cosine_cov', 'corr_cov'):
                return _mat_out(quiet(fun, rx, ry, sigma_k=_sigma_np(case['sigma'])))
            return _mat_out(quiet(fun, rx, ry))
        return _mat_out(quiet(_cmp.compare, rx, ry, method=case.get('method_name', case['method']),
                              sigma_k=_sigma_np(case['sigma'])))
    except EXC as exc:
        return {'exc': type(exc).__name__}


def tf_call(case):
    try:
        src = _build(case)
        out = quiet(apply_real, case, src)
        return _tf_record(out)
    except EXC as exc:
        return {'exc': type(exc).__name__}


def run_impl(case):
    if case['kind'] == 'sess':
        return sess_call(case)
    if case['kind'] == 'inv':
        return {'sim': inv_call(case)}
    return tf_call(case)


# ------------------------------------------------------------------ model side

def source_descriptors(case):
    """what the source RDMs object carries: the given dicts plus the library's `index`"""
    n_rdm = len(case['x'])
    rd = {k: (v if isinstance(v, list) else [v]) for k, v in case.get('rdm_descr', {}).items()}
    rd.setdefault('index', list(range(n_rdm)))
    pd = dict(case.get('pat_descr', {}))
    pd.setdefault('index', list(range(case['n'])))
    return _canon(case.get('descr', {})), _canon(rd), _canon(pd)


def mapped_exact(mp, stack):
    """the transformed stack as exact rationals, for the maps that are exact (else None)"""
    name = mp['name']
    if name == 'affine':
        a, b = unrat(mp['a']), unrat(mp['b'])
        return [[rat(a * unrat(v) + b) for v in row] for row in stack]
    if name == 'scale':
        c = unrat(mp['c'])
        return [[rat(c * unrat(v)) for v in row] for row in stack]
    if name == 'cube':
        return [[rat(unrat(v) ** 3) for v in row] for row in stack]
    if name == 'pow2':
        c = F(2) ** int(mp['e'])
        return [[rat(c * unrat(v)) for v in row] for row in stack]
    if name == 'shift':
        c = unrat(mp['c'])
        return [[rat(unrat(v) + c) for v in row] for row in stack]
    if name == 'positive_transform':
        return [[rat(max(unrat(v), 0)) for v in row] for row in stack]
    return None


def _drop(stack, nanpos):
    if not nanpos:
        return stack
    return [[v for k, v in enumerate(row) if k not in nanpos] for row in stack]


def _cmp_req(method, n, x, y, sigma):
    if method in EXACT:
        return {'op': 'c03.compare', 'method': method, 'n': n, 'exact': True,
                'x': [[rat(unrat(v)) for v in r] for r in x], 'y': [[rat(unrat(v)) for v in r] for r in y]}
    enc = lambda v: fbits(_fl(v))   # noqa: E731
    return {'op': 'c03.compare', 'method': method, 'n': n,
            'x': [[enc(v) for v in r] for r in x], 'y': [[enc(v) for v in r] for r in y],
            'sigma': None if sigma is None else [enc(v) for v in sigma['vec']]}


def model_requests(case):
    if case['kind'] == 'sess':
        return sess_requests(case)
    if case['kind'] == 'inv':
        x, y = _drop(case['x'], case['nanpos']), _drop(case['y'], case['nanpos'])
        reqs = [_cmp_req(case['method'], case['n'], x, y, case['sigma'])]
        mx = mapped_exact(case['fx'], x)
        my = y if case['fy'] is None else mapped_exact(case['fy'], y)
        if mx is not None and my is not None:
            reqs.append(_cmp_req(case['method'], case['n'], mx, my, case['sigma']))
        return reqs
    t = case['t']
    descr, rd, pd = source_descriptors(case)
    req = {'op': 'c17.apply', 'kind': t, 'measure': case.get('measure'),
           'descr': descr, 'rdm_descr': rd, 'pat_descr': pd, 'n': case['n']}
    if t == 'sqrt':
        req['x'] = [[fbits(_fl(v)) if v is not None else None for v in row] for row in case['x']]
    else:
        req['x'] = [[rat(unrat(v)) if v is not None else None for v in row] for row in case['x']]
    req.update(_tf_params(case))
    return [req]


def _dec(v, is_float):
    if v is None:
        return None
    if v == 'inf':
        return 'inf'
    return unfbits(v) if is_float else float(unrat(v))


def _decode_sim(case, ans):
    if isinstance(ans, dict):
        return ans
    if case['method'] in EXACT:
        return [[None if v is None else float(unrat(v)) for v in row] for row in ans]
    return [[None if v is None else unfbits(v) for v in row] for row in ans]


def model_result(case, answers):
    if case['kind'] == 'sess':
        return sess_model(case, answers)
    if case['kind'] == 'inv':
        out = {'sim': _decode_sim(case, answers[0])}
        if len(answers) > 1:
            out['sim_mapped'] = _decode_sim(case, answers[1])
        return out
    return _tf_model(case, answers[0])


def _tf_model(case, a):
    if isinstance(a, dict) and 'model_error' in a:
        return a
    if a.get('raise'):
        return {'raise': a['raise']}
    out = {'vecs': [[_dec(v, case['t'] == 'sqrt') for v in row] for row in a['vecs']],
           'measure': a['measure'], 'descr': a['descr'], 'rdm_descr': a['rdm_descr'],
           'pat_descr': a['pat_descr']}
    if 'lo' in a:
        out['lo'], out['hi'] = float(unrat(a['lo'])), float(unrat(a['hi']))
        out['lo_exact'], out['hi_exact'] = rat(unrat(a['lo'])), rat(unrat(a['hi']))
    return out


# ------------------------------------------------------------------ comparison

def row_kappa(vals):
    """max|v| / spread of one exact row (1 for a constant row)"""
    spread = max(vals) - min(vals)
    return float(max(abs(v) for v in vals) / spread) if spread > 0 else 1.0


def benign_offset(vals):
    """an exact row on a large common offset whose mean removal in doubles is nevertheless harmless:

      * the entries are integers times one power of two 2^-g and len * max|v| * 2^g < 2^53, so every
        partial sum (any summation order) is exact and the mean carries ONE rounding,
        |d| <= 2^-53 |mean|;
      * all entries have one sign and min|v| >= max|v| / 2, so x_i - mean^ is exact (Sterbenz);
      * kappa = max|v| / spread <= 2^30.

    The centred row computed by the two-pass code is then exactly xc - d*1 (xc the true centred row,
    sum xc = 0), hence sum (xc - d)(yc - d') = Sxy + n d d' and sum (xc - d)^2 = Sxx + n d^2: the
    correlation is perturbed only to SECOND order, by <= n d^2 / Sxx <= 2 n (2^-53 kappa)^2
    <= 4e-13 (n <= 15; Sxx >= spread^2 / 2).  The raw-moment form sum x^2 - (sum x)^2 / n rounds
    sum x^2 ~ n b^2 to its ulp ~ n b^2 2^-52, i.e. a FIRST-order error ~ kappa^2 2^-52 (1e-4 at 2^20)."""
    spread = max(vals) - min(vals)
    if spread == 0:
        return False
    lo, hi = min(abs(v) for v in vals), max(abs(v) for v in vals)
    if not (all(v > 0 for v in vals) or all(v < 0 for v in vals)) or 2 * lo < hi:
        return False
    g = max(v.denominator for v in vals)
    if g & (g - 1) or any(g % v.denominator for v in vals):
        return False
    ints = [int(v * g) for v in vals]
    while all(k % 2 == 0 for k in ints):        # the common grid may be coarser than 1 (x * 2^e)
        ints, g = [k // 2 for k in ints], F(g, 2)
    return len(vals) * hi * g < 2 ** 53 and hi <= 2 ** 30 * spread


def conditioning(case):
    """a-priori condition number of mean removal, from the exact inputs: the largest
    max|v| / (max v - min v) over the non-constant RDMs that are centred (original and, where the map is
    exact, mapped); 1 for the measures that do not centre.  Rows of the `benign_offset` class (round 7:
    exactly representable offset, exact sums, exact differences; the mapped row only if the map is
    exact in doubles) count as 1: their centring error enters the correlation to second order only."""
    if case['method'] not in ('corr', 'corr_cov', 'cosine_cov'):
        return 1.0
    kappa = 1.0
    for mp, stack in ((case['fx'], case['x']), (case['fy'], case['y'])):
        base = _drop(stack, case['nanpos'])
        stacks = [(base, True)]
        if mp is not None:
            ex = mapped_exact(mp, base)
            if ex is not None:
                stacks.append((ex, exact_in_doubles(mp, base)))
        for st, exact in stacks:
            for row in st:
                vals = [unrat(v) for v in row]
                if case['method'] in CORR_TYPE and exact and benign_offset(vals):
                    continue
                kappa = max(kappa, row_kappa(vals))
    return kappa


def inv_tolerance(case):
    """1e-9 (5e-4 behind scipy's CG) unless the centred computation is ill-conditioned: the rounding
    of x - mean(x) is amplified by kappa, twice near |r| = 1 -> 64 * eps * kappa**2, capped"""
    rtol, atol = (5e-4, 5e-4) if case['method'] in ('cosine_cov', 'corr_cov') and \
        case['sigma'] is not None else (1e-9, 1e-10)
    bound = min(1e-3, 64 * 2.220446049250313e-16 * conditioning(case) ** 2)
    return max(rtol, bound), max(atol, bound)


def _diff_sim(a, b, rtol, atol, undefined_ok=False):
    if isinstance(a, dict) or isinstance(b, dict):
        return None if a == b else f'{a} != {b}'
    if len(a) != len(b) or any(len(r) != len(s) for r, s in zip(a, b)):
        return f'shape {len(a)}x{len(a[0]) if a else 0} != {len(b)}x{len(b[0]) if b else 0}'
    for i, (r, s) in enumerate(zip(a, b)):
        for j, (u, v) in enumerate(zip(r, s)):
            if v is None:
                if u is None or (undefined_ok and u == 0.0):
                    continue
                return f'[{i}][{j}]: impl {u!r}, model undefined'
            if u is None:
                return f'[{i}][{j}]: impl nan, model {v!r}'
            if not close(u, v, rtol, atol):
                return f'[{i}][{j}]: impl {u!r} != model {v!r}'
    return None


def geotop_degenerate(case, model):
    """None | 'robust' | 'numeric' (see `_vec_diff`)"""
    if case['t'] != 'geotop' or 'lo_exact' not in model:
        return None
    lo, hi = unrat(model['lo_exact']), unrat(model['hi_exact'])
    fv = [_fl(v) for row in case['x'] for v in row]
    spread = max(fv) - min(fv)
    if lo == hi:
        arr = np.array([[_fl(v) for v in row] for row in case['x']], dtype=float)
        flo, fhi = float(np.quantile(arr, case['low'])), float(np.quantile(arr, case['up']))
        if flo == fhi and F(flo) == lo:
            return 'robust'
        return 'numeric'
    return 'numeric' if abs(model['hi'] - model['lo']) <= 1e-9 * spread else None


def _vec_diff(case, impl, model):
    rtol, atol = (0.0, 0.0) if case['t'] in ('rank', 'positive', 'custom') else (1e-9, 1e-12)
    a, b = impl['vecs'], model['vecs']
    if len(a) != len(b) or any(len(r) != len(s) for r, s in zip(a, b)):
        return f'shape of vectors {len(a)}x{len(a[0]) if a else 0} != {len(b)}x{len(b[0]) if b else 0}'
    # geotop with coinciding thresholds: the map is 0/0 at the threshold itself.  `robust`: the
    # exact thresholds coincide, are doubles, and np.quantile returns exactly them -> every
    # comparison of the code is the exact one and the entries *on* the threshold are compared too
    # (NaN).  Otherwise (thresholds only numerically coinciding) np.quantile's rounding decides on
    # which side an entry equal to it falls -> those entries are not compared.
    skip = None
    if case['t'] == 'geotop' and 'lo' in model:
        fv = [_fl(v) for row in case['x'] for v in row]
        spread = max(fv) - min(fv)
        if abs(model['hi'] - model['lo']) <= 1e-9 * spread and geotop_degenerate(case, model) != 'robust':
            skip = model['lo']
    for i, (r, s) in enumerate(zip(a, b)):
        for j, (u, v) in enumerate(zip(r, s)):
            if skip is not None and abs(_fl(case['x'][i][j]) - skip) <= 1e-9 * spread:
                continue
            if isinstance(u, str) or isinstance(v, str) or u is None or v is None:
                if u != v:
                    return f'vecs[{i}][{j}]: impl {u!r} != model {v!r}'
            elif not close(u, v, rtol, atol):
                return f'vecs[{i}][{j}]: impl {u!r} != model {v!r}'
    return None


def compare(case, impl, model):
    if isinstance(model, dict) and 'model_error' in model:
        return f'model error {model}'
    if case['kind'] == 'sess':
        return sess_compare(case, impl, model)
    if case['kind'] == 'inv':
        rtol, atol = inv_tolerance(case)
        und = case['method'] in ('cosine_cov', 'corr_cov')
        d = _diff_sim(impl['sim'], model['sim'], rtol, atol, und)
        if d:
            return f"{case['method']} after {case['fx']['name']}" \
                   f"{'/' + case['fy']['name'] if case['fy'] else ''}: {d}"
        if 'sim_mapped' in model:
            d = _diff_sim(model['sim_mapped'], model['sim'], max(rtol, 1e-9), max(atol, 1e-9), True)
            if d:
                return f'model measure not invariant: {d}'
        # round 7: correlation-type measures also against the exact-rational reference of the
        # untransformed RDMs (what the property fixes), the implementation and the float model alike
        for who, sim in (('impl', impl['sim']), ('model', model['sim'])):
            bad = orc.against_exact(case, sim, (rtol, atol))
            if bad is not None:
                return f"{case['method']} after {case['fx']['name']}" \
                       f"{'/' + case['fy']['name'] if case['fy'] else ''}: [{bad[0]}][{bad[1]}]: {who} " \
                       f"{bad[2]!r} != exact correlation of the untransformed RDMs {bad[3]!r}"
        return None
    if 'raise' in model:
        # geodesic of a stack with a constant RDM or a NaN: the min-max row is NaN, the NaN
        # shortest-path matrix is refused by scipy's squareform -> the whole call raises
        if impl.get('exc') == model['raise']:
            return None
        return f"{case['t']}: model says the call raises {model['raise']}, implementation " \
               f"{'raised ' + impl['exc'] if 'exc' in impl else 'returned a result'}"
    if 'exc' in impl:
        return f"{case['t']}: implementation raised {impl['exc']}"
    if impl['type'] != 'RDMs':
        return f"result type {impl['type']}"
    if impl['n_rdm'] != len(model['vecs']) or impl['n_cond'] != case['n']:
        return f"n_rdm/n_cond {impl['n_rdm']}/{impl['n_cond']} != {len(model['vecs'])}/{case['n']}"
    d = _vec_diff(case, impl, model)
    if d:
        return f"{case['t']}: {d}"
    if impl['measure'] != model['measure']:
        return f"{case['t']}: measure {impl['measure']!r} != model {model['measure']!r}"
    for k in ('descr', 'rdm_descr', 'pat_descr'):
        if impl[k] != model[k]:
            return f"{case['t']}: {k} {impl[k]!r} != source's {model[k]!r}"
    return None


# ------------------------------------------------------------------ reuse sessions (kind sess)

SESS_TF = ['sqrt', 'sqrt', 'sqrt', 'positive', 'positive', 'rank', 'rank', 'minmax', 'custom',
           'geotop', 'geodesic']
CENTRING = ('corr', 'corr_cov')
NO_COV = ('spearman', 'rho-a', 'tau-a', 'kendall', 'cosine', 'corr')


def step_map(step):
    """a transform step as a map dict of the `inv` kind (None: not a map of the single values)"""
    t = step['t']
    if t in ('sqrt', 'positive', 'minmax'):
        return {'name': t + '_transform'}
    if t == 'rank':
        return {'name': 'rank_transform', 'method': step['method']}
    if t == 'custom' and step['fn']['name'] in ('affine', 'cube'):
        return dict(step['fn'])
    return None


def sess_slots(steps):
    """store index -> (source object, producing step or None): the two sources, then one slot per
    transform step in order (`sessRun` appends)"""
    slots = [(0, None), (1, None)]
    for k, st in enumerate(steps):
        if st['op'] == 'tf':
            slots.append((st['src'], k))
    return slots


def sess_stack(case, src):
    """the pristine values of a source object, NaN positions dropped"""
    return _drop(case['objs'][src]['x'], case['nanpos'])


def admissible(method, mp, stack, has_nan):
    """is `method` invariant under the map by theory, and is the map order-exact (rank measures) on
    these entries in doubles?"""
    if mp is None:
        return False
    name = mp['name']
    if name == 'affine' and unrat(mp['a']) <= 0:
        return False
    if name == 'minmax_transform' and (has_nan or any(_is_const(r) for r in stack)):
        return False
    if method in RANK_BASED:
        if name == 'rank_transform' and mp['method'] == 'ordinal' and \
                any(len({unrat(v) for v in row}) < len(row) for row in stack):
            return False
        return order_embedding(mp, stack)
    if name == 'affine':
        return method in CENTRING or unrat(mp['b']) == 0
    if name == 'minmax_transform':
        return method in CENTRING
    return False


def sess_judged(case, step):
    """a comparison step is judged when each argument is a source object or the result of a transform
    the measure is invariant under"""
    slots = sess_slots(case['steps'])
    for ref in (step['a'], step['b']):
        if not 0 <= ref < len(slots):
            return False
        src, k = slots[ref]
        if k is not None and not admissible(step['method'], step_map(case['steps'][k]),
                                            sess_stack(case, src), bool(case['nanpos'])):
            return False
    return True


def _sess_tf_case(case, step):
    """the transform step as a case of kind tf on the pristine source"""
    pc = dict(case['objs'][step['src']], kind='tf', t=step['t'])
    for key in ('method', 'fn', 'low', 'up'):
        if key in step:
            pc[key] = step[key]
    return pc


def _sess_inv_case(case, step):
    """the comparison step as a case of kind inv on the pristine sources"""
    slots = sess_slots(case['steps'])
    (sa, ka), (sb, kb) = slots[step['a']], slots[step['b']]
    return {'kind': 'inv', 'method': step['method'], 'n': case['n'],
            'x': case['objs'][sa]['x'], 'y': case['objs'][sb]['x'],
            'fx': None if ka is None else step_map(case['steps'][ka]),
            'fy': None if kb is None else step_map(case['steps'][kb]),
            'sigma': step.get('sigma'), 'nanpos': case['nanpos'],
            'form_x': step.get('form_a', 'rdms'), 'form_y': step.get('form_b', 'rdms'),
            'route': step.get('route', 'compare'), 'method_name': step.get('method_name', step['method'])}


def _sess_tf_step(rng, src, wide, has_nan, t=None, big=False):
    t = t or rng.choice([k for k in SESS_TF if not has_nan or k in NAN_OK])
    st = {'op': 'tf', 'src': src, 't': t}
    if t == 'rank':
        st['method'] = rng.choice(RANK_METHODS)
    if t == 'geotop':
        st['low'], st['up'] = rng.choice([0.0, 0.1, 0.25, 0.3]), rng.choice([1.0, 0.9, 0.75, 0.7])
    if t == 'custom':
        if wide:    # only exact rescalings at extreme scales (the custom result is compared exactly)
            fn = {'name': 'affine', 'a': rat(F(2) ** pow10_exp(rng.choice([-3, -2, 2, 3]))), 'b': 0}
        else:
            name = rng.choice(['affine', 'affine', 'scale', 'cube', 'cumsum'])
            if big or (name == 'affine' and rng.random() < 0.4):
                # round 7: an exactly representable large offset (the result is compared exactly, and a
                # later correlation-type comparison of the result must not notice the offset)
                fn = {'name': 'affine', 'a': rat(F(rng.choice([1, 1, 2, 4]), rng.choice([1, 2]))),
                      'b': rng.choice([1, 1, 1, -1]) * BIG_OFFSETS[rng.choice(sorted(BIG_OFFSETS))]}
            elif name == 'affine':
                fn = {'name': 'affine', 'a': _q(rng, 1, 12, 4), 'b': _q(rng, -8, 8, 4)}
            elif name == 'scale':
                fn = {'name': 'affine', 'a': _q(rng, 1, 12, 4), 'b': 0}
            else:
                fn = {'name': name}
        st['fn'] = fn
    return st


def _sess_cmp_step(rng, case, method=None, sides=None, prefer_result=False, plain=False):
    has_nan = bool(case['nanpos'])
    method = method or rng.choice(NO_COV if has_nan else INV_METHODS)
    slots = sess_slots(case['steps'])
    if sides is None:
        u = rng.random()
        sides = (0, 1) if u < 0.75 else (1, 0) if u < 0.87 else rng.choice([(0, 0), (1, 1)])

    def pick(side):
        cand = [i for i, (src, k) in enumerate(slots) if src == side and
                (k is None or admissible(method, step_map(case['steps'][k]), sess_stack(case, src), has_nan))]
        res = [i for i in cand if i >= 2]
        if res and (prefer_result or rng.random() < 0.5):
            return rng.choice(res)
        return side
    a, b = pick(sides[0]), pick(sides[1])
    st = {'op': 'cmp', 'a': a, 'b': b, 'method': method}

    def form(ref):
        if plain:
            return 'rdms'
        n_rdm = len(case['objs'][slots[ref][0]]['x'])
        return rng.choice(['rdms', 'rdms', 'rdms', 'array'] + (['array1d'] if n_rdm == 1 else []))
    st['form_a'], st['form_b'] = form(a), form(b)
    st['route'] = 'compare' if plain else rng.choice(['compare', 'compare', 'direct'])
    st['sigma'] = None
    if method in ('cosine_cov', 'corr_cov') and rng.random() < 0.4:
        st['sigma'] = {'vec': [rng.choice(['1/2', 1, '3/2', 2, 3]) for _ in range(case['n'])]}
    st['method_name'] = 'tau-b' if method == 'kendall' and rng.random() < 0.3 else method
    return st


def _sess_case(rng, nmax, template):
    n = rng.randint(3, nmax)
    m = n * (n - 1) // 2
    flavour = rng.choice(['float'] * 8 + ['int', 'nan'])
    if flavour == 'nan' and m < 6:
        flavour = 'float'
    wide = flavour == 'float' and rng.random() < 0.2
    nonneg = template == 0 or rng.random() < 0.5
    sizes = (rng.choice([1, 2, 2, 3]), rng.choice([1, 1, 2]))
    stacks = []
    for n_rdm in sizes:
        if wide:
            par = _wide_params(rng, rng.choice(['tiny', 'huge']))
            if nonneg:
                par['lo'] = rng.choice([0, 1])
            style = 'tiny' if par['e'] < 0 else 'huge'
            draw = lambda: _wide_vector(rng, m, style, par)   # noqa: E731
        else:
            if flavour == 'int':
                style = rng.choice(['ties', 'nonneg_distinct'] if nonneg else ['ties', 'neg', 'distinct'])
            else:
                style = rng.choice(['ties', 'unit', 'nonneg_distinct', 'nonneg_distinct'] if nonneg else
                                   ['neg', 'distinct', 'quarters', 'nonneg_distinct'])
            draw = lambda: _vector(rng, m, style)             # noqa: E731
        rows = []
        for _ in range(n_rdm):
            row = draw()
            for _t in range(20):
                if len({unrat(v) for v in row}) >= 3:
                    break
                row = draw()
            else:
                row = _vector(rng, m, 'nonneg_distinct')
            rows.append(row)
        stacks.append(rows)
    nanpos = None
    if flavour == 'nan':
        nanpos = sorted(rng.sample(range(m), rng.randint(1, m - 4)))
        stacks = [_with_nan(st, nanpos) for st in stacks]
        # the remaining entries must not be constant
        for st in stacks:
            for i, row in enumerate(st):
                if _is_const(row):
                    st[i] = _with_nan([_vector(rng, m, 'nonneg_distinct')], nanpos)[0]
    objs = []
    for n_rdm, stack in zip(sizes, stacks):
        descr, rdm_descr, pat_descr = _descriptors(rng, n_rdm, n)
        objs.append({'x': stack, 'n': n, 'dtype': 'int' if flavour == 'int' else 'float',
                     'measure': _measure(rng), 'descr': descr, 'rdm_descr': rdm_descr,
                     'pat_descr': pat_descr, 'desc_style': rng.choice(['list', 'array'])})
    case = {'kind': 'sess', 'n': n, 'objs': objs, 'nanpos': nanpos, 'steps': [], 'template': template}
    steps = case['steps']
    has_nan = nanpos is not None
    add_tf = lambda src, t=None: steps.append(_sess_tf_step(rng, src, wide, has_nan, t))     # noqa: E731
    add_cmp = lambda **kw: steps.append(_sess_cmp_step(rng, case, **kw))                    # noqa: E731
    rank_m = lambda: rng.choice(['spearman', 'rho-a', 'tau-a', 'kendall'])                  # noqa: E731
    if template == 0:
        # a centring comparison, then a transform of the same object, then a rank measure of the result
        add_cmp(method='corr' if has_nan else rng.choice(CENTRING), sides=(0, 1), plain=rng.random() < 0.7)
        add_tf(0, rng.choice(['sqrt', 'sqrt', 'positive', 'rank']))
        if rng.random() < 0.5:
            add_tf(1, rng.choice(['sqrt', 'positive']))
        add_cmp(method=rank_m(), sides=(0, 1), prefer_result=True)
        add_cmp(method='cosine', sides=(0, 1), plain=True)
    elif template == 1:
        # transform -> compare -> the same transform again -> the same comparison again
        add_tf(0)
        add_cmp(sides=(0, 1))
        steps.append(dict(steps[0]))
        steps.append(dict(steps[1]))
    elif template == 2:
        # a comparison, a centring comparison, a transform of the partner, the first comparison again
        add_cmp(sides=(0, 1))
        add_cmp(method='corr' if has_nan else rng.choice(CENTRING), sides=rng.choice([(0, 1), (1, 0)]))
        add_tf(1)
        steps.append(dict(steps[0]))
    for _ in range(rng.randint(3, 7) if template == 3 else rng.randint(0, 3)):
        if rng.random() < 0.5:
            add_tf(rng.choice([0, 0, 1]))
        else:
            add_cmp()
    if not wide and not has_nan and rng.random() < 0.2:
        # round 7: a*x + b with an exactly representable large offset, then a correlation-type comparison
        # of the RESULT (must equal the comparison of the sources), then the sources again
        side = rng.choice([0, 1])
        steps.append(_sess_tf_step(rng, side, wide, has_nan, 'custom', big=True))
        add_cmp(method='corr' if has_nan else rng.choice(CENTRING), sides=(side, 1 - side), prefer_result=True)
        if rng.random() < 0.5:
            add_cmp(method='corr', sides=(side, 1 - side), plain=True)
    return case


def _tf_record(out):
    vec = out.get_vectors()
    return {'type': type(out).__name__,
            'vecs': [[_num_out(v) for v in row] for row in np.asarray(vec, dtype=float).tolist()],
            'n_rdm': int(out.n_rdm), 'n_cond': int(out.n_cond),
            'measure': out.dissimilarity_measure,
            'descr': _canon(out.descriptors), 'rdm_descr': _canon(out.rdm_descriptors),
            'pat_descr': _canon(out.pattern_descriptors)}


def _snapshot(r):
    v = r.dissimilarities
    return {'vec': np.array(v, copy=True), 'dtype': str(v.dtype), 'measure': r.dissimilarity_measure,
            'descr': _canon(r.descriptors), 'rdm_descr': _canon(r.rdm_descriptors),
            'pat_descr': _canon(r.pattern_descriptors)}


def _snap_diff(r, snap):
    """None, or what of the object differs from its snapshot"""
    v = np.asarray(r.dissimilarities)
    if str(v.dtype) != snap['dtype'] or v.shape != snap['vec'].shape:
        return {'what': 'dtype/shape', 'was': [snap['dtype'], list(snap['vec'].shape)],
                'now': [str(v.dtype), list(v.shape)]}
    if not np.array_equal(v, snap['vec'], equal_nan=True):
        for i in range(v.shape[0]):
            for j in range(v.shape[1]):
                a, b = float(snap['vec'][i, j]), float(v[i, j])
                if not (a == b or (math.isnan(a) and math.isnan(b))):
                    return {'what': 'dissimilarities', 'entry': [i, j], 'was': _num_out(a), 'now': _num_out(b)}
    if r.dissimilarity_measure != snap['measure']:
        return {'what': 'measure', 'was': snap['measure'], 'now': r.dissimilarity_measure}
    for key, cur in (('descr', r.descriptors), ('rdm_descr', r.rdm_descriptors),
                     ('pat_descr', r.pattern_descriptors)):
        if _canon(cur) != snap[key]:
            return {'what': key, 'was': snap[key], 'now': _canon(cur)}
    return None


def sess_call(case):
    """the session on the real code: the two objects are built ONCE; every step works on them (or on
    earlier results); after each step the sources are compared with their pristine snapshot"""
    try:
        store = [_build(o) for o in case['objs']]
    except EXC as exc:
        return {'exc': type(exc).__name__}
    pristine = [_snapshot(r) for r in store]
    made = {}
    out_steps = []
    for k, st in enumerate(case['steps']):
        try:
            if st['op'] == 'tf':
                out = quiet(apply_real, st, store[st['src']])
                store.append(out)
                made[len(store) - 1] = _snapshot(out)
                res = _tf_record(out)
            else:
                def arg(ref, form):
                    r = store[ref]
                    if form == 'array':
                        return r.get_vectors()          # the object's own array, as a caller has it
                    if form == 'array1d':
                        return r.get_vectors()[0]
                    return r
                ra, rb = arg(st['a'], st.get('form_a', 'rdms')), arg(st['b'], st.get('form_b', 'rdms'))
                if st.get('route') == 'direct':
                    fun = getattr(_cmp, DIRECT[st['method']])
                    if st['method'] in ('cosine_cov', 'corr_cov'):
                        sim = quiet(fun, ra, rb, sigma_k=_sigma_np(st.get('sigma')))
                    else:
                        sim = quiet(fun, ra, rb)
                else:
                    sim = quiet(_cmp.compare, ra, rb, method=st.get('method_name', st['method']),
                                sigma_k=_sigma_np(st.get('sigma')))
                res = {'sim': _mat_out(sim)}
        except EXC as exc:
            if st['op'] == 'tf':
                store.append(None)
                res = {'exc': type(exc).__name__}
            else:
                res = {'sim': {'exc': type(exc).__name__}}
        changed = None
        for i in (0, 1):
            d = _snap_diff(store[i], pristine[i])
            if d:
                changed = dict(d, obj=i)
                break
        res['src_changed'] = changed
        out_steps.append(res)
    later = []
    for idx, snap in made.items():
        d = _snap_diff(store[idx], snap)
        if d:
            later.append(dict(d, result=idx))
    return {'steps': out_steps, 'results_changed': later}


def _tf_params(pc):
    """the parameters of a transform as the driver reads them"""
    out = {}
    t = pc['t']
    if t == 'rank':
        out['method'] = pc['method']
    if t == 'geotop':
        out['low'], out['up'] = rat(F(pc['low'])), rat(F(pc['up']))
    if t == 'custom':
        fn = dict(pc['fn'])
        for k in ('a', 'b'):
            if k in fn:
                fn[k] = rat(unrat(fn[k]))
        out['fn'] = fn
    return out


def sess_requests(case):
    objs = []
    for o in case['objs']:
        descr, rd, pd = source_descriptors(o)
        objs.append({'x': [[rat(unrat(v)) if v is not None else None for v in row] for row in o['x']],
                     'xf': [[fbits(_fl(v)) if v is not None else None for v in row] for row in o['x']],
                     'measure': o.get('measure'), 'descr': descr, 'rdm_descr': rd, 'pat_descr': pd,
                     'n': case['n']})
    steps = []
    reqs = []
    for st in case['steps']:
        if st['op'] == 'tf':
            steps.append(dict({'op': 'tf', 'src': st['src'], 'kind': st['t']}, **_tf_params(st)))
        else:
            steps.append({'op': 'cmp', 'a': st['a'], 'b': st['b']})
            pc = _sess_inv_case(case, st)
            reqs.append(_cmp_req(st['method'], case['n'], _drop(pc['x'], case['nanpos']),
                                 _drop(pc['y'], case['nanpos']), st.get('sigma')))
    return [{'op': 'c17.session', 'objs': objs, 'steps': steps}] + reqs


def sess_model(case, answers):
    sess = answers[0]
    if isinstance(sess, dict) and 'model_error' in sess:
        return sess
    reqs = sess_requests(case)
    objs = reqs[0]['objs']
    if sess['store'] != [o['x'] for o in objs]:
        return {'model_error': 'the model session changed a source object'}
    slots = sess_slots(case['steps'])
    out, ci = [], 0
    for k, st in enumerate(case['steps']):
        a = sess['outs'][k]
        if st['op'] == 'tf':
            if isinstance(a, dict) and 'model_error' in a:
                return a
            out.append(_tf_model(_sess_tf_case(case, st), a))
        else:
            # the vectors the model session hands to this comparison: those of the pristine sources /
            # of the stored transform results
            want = []
            for ref in (st['a'], st['b']):
                src, kk = slots[ref]
                want.append(objs[src]['x'] if kk is None else sess['outs'][kk].get('vecs'))
            if not isinstance(a, dict) or [a.get('a'), a.get('b')] != want:
                return {'model_error': f'session step {k}: comparison was not handed the stored vectors'}
            pc = _sess_inv_case(case, st)
            ci += 1
            out.append({'sim': _decode_sim(pc, answers[ci])})
    return {'steps': out}


def _step_label(st):
    if st['op'] == 'tf':
        return f"{st['t']}_transform of object {st['src']}"
    return f"compare {st['method']} of objects {st['a']}, {st['b']}"


def sess_compare(case, impl, model):
    if 'exc' in impl:
        return f"building the RDMs raised {impl['exc']}"
    for k, st in enumerate(case['steps']):
        ir, mr = impl['steps'][k], model['steps'][k]
        if st['op'] == 'tf':
            d = compare(_sess_tf_case(case, st), ir, mr)
        elif not sess_judged(case, st):
            d = None
        else:
            pc = _sess_inv_case(case, st)
            rtol, atol = inv_tolerance(pc)
            d = _diff_sim(ir['sim'], mr['sim'], rtol, atol, st['method'] in ('cosine_cov', 'corr_cov'))
        if d:
            return f'session step {k} ({_step_label(st)}), judged on the pristine values: {d}'
        if ir.get('src_changed'):
            return f"session step {k} ({_step_label(st)}) changed source object: {ir['src_changed']}"
    if impl['results_changed']:
        return f"an earlier transform result was changed by a later step: {impl['results_changed'][0]}"
    return None


def sess_features(case, impl):
    steps = case['steps']
    slots = sess_slots(steps)
    flav = 'nan' if case['nanpos'] else ('int_dtype' if case['objs'][0]['dtype'] == 'int' else 'float_nan_free')
    br = ['kind:sess', 'sess:' + flav]
    if any(len(o['x']) > 1 for o in case['objs']):
        br.append('sess:stack>1')
    if len(steps) >= 6:
        br.append('sess:len>=6')
    touched = {0: [], 1: []}      # per source: the history of steps that saw it
    seen_cmp = []
    for k, st in enumerate(steps):
        if st['op'] == 'tf':
            br.append('sess:t:' + st['t'])
            hist = touched[st['src']]
            if any(h[0] == 'cmp' for h in hist):
                br.append('sess:cmp_then_tf')
            if any(h[0] == 'cmp' and h[1] in CENTRING for h in hist):
                br.append('sess:centring_then_tf')
            for i, h in enumerate(hist):
                if h[0] == 'tf' and any(g[0] == 'cmp' for g in hist[i + 1:]):
                    br.append('sess:tf_cmp_tf')
            hist.append(('tf', st['t']))
        else:
            br.append('sess:m:' + st['method'])
            srcs = [slots[r][0] for r in (st['a'], st['b'])]
            judged = sess_judged(case, st)
            if judged and (st['a'] >= 2 or st['b'] >= 2):
                br.append('sess:cmp_on_result')
                # a rank measure of a transform result made after a centring comparison saw its source
                for r in (st['a'], st['b']):
                    src, kk = slots[r]
                    if kk is not None and st['method'] in RANK_BASED and \
                            any(s2['op'] == 'cmp' and s2['method'] in CENTRING and
                                src in [slots[q][0] for q in (s2['a'], s2['b']) if q < 2]
                                for s2 in steps[:kk]):
                        br.append('sess:rank_on_result_after_centring')
            if judged and st['method'] in CORR_TYPE and offset_tags(_sess_inv_case(case, st)):
                br.append('sess:corr_on_offset_result')
            if st['method'] in ('cosine', 'cosine_cov') and st['a'] < 2 and st['b'] < 2 and \
                    any(h[0] == 'cmp' and h[1] in CENTRING for s_ in set(srcs) for h in touched[s_]):
                br.append('sess:cosine_after_centring')
            if srcs[0] == srcs[1]:
                br.append('sess:same_side')
            for f in (st.get('form_a', 'rdms'), st.get('form_b', 'rdms')):
                if f != 'rdms':
                    br.append('sess:arg:' + f)
            if st.get('route') == 'direct':
                br.append('sess:route:direct')
            if st.get('sigma') is not None:
                br.append('sess:sigma')
            sig = json_key(st)
            if sig in seen_cmp:
                br.append('sess:repeat_cmp')
            seen_cmp.append(sig)
            for s_ in set(srcs):
                # only a comparison that was handed the source object itself "saw" it
                if any(r < 2 and slots[r][0] == s_ for r in (st['a'], st['b'])):
                    touched[s_].append(('cmp', st['method']))
    return {'kind': 'sess', 'n': case['n'], 'flavour': flav, 'n_steps': len(steps),
            'template': case.get('template'), 'branches': sorted(set(br))}


def json_key(obj):
    import json
    return json.dumps(obj, sort_keys=True, default=str)


_FRESH_BUDGET = [8]      # fresh-interpreter confirmations per run (each costs an import of the library)


def _fresh_fails(case, claim):
    """does the oracle fail with this claim on the case in a fresh interpreter (no library state left
    behind by earlier cases)?  None when the budget of the run is used up (no confirmation)"""
    import json
    if _FRESH_BUDGET[0] <= 0:
        return None
    _FRESH_BUDGET[0] -= 1
    import os
    import subprocess
    import sys
    code = ('import sys, json\nfrom engines import C17 as e\nc = json.load(sys.stdin)\no = e.oracle(c)\n'
            'print("CLAIM=" + json.dumps(o["features"].get("claim") if o else None))')
    env = dict(os.environ, PYTHONPATH=os.pathsep.join(p_ for p_ in sys.path if p_))
    try:
        p_ = subprocess.run([sys.executable, '-c', code], input=json.dumps(case, default=str).encode(),
                            stdout=subprocess.PIPE, stderr=subprocess.DEVNULL, env=env, timeout=120)
        for line in p_.stdout.decode(errors='replace').splitlines():
            if line.startswith('CLAIM='):
                return json.loads(line[6:]) == claim
    except Exception:      # noqa: BLE001
        pass
    return False


def sess_shrink(case, still_fails):  # noqa: C901
    """fewer steps (dropping a transform step renumbers the later references), then fewer RDMs; the
    reduced session must fail with the same claim (a wrong transform value stays a wrong transform
    value and is not reduced to the bare 'source object changed')"""
    best = case
    first = oracle(case)
    claim = first['features'].get('claim') if isinstance(first, dict) and 'features' in first else None
    any_fail = still_fails

    def still_fails(c):     # noqa: F811
        if claim is None:
            return any_fail(c)
        o = oracle(c)
        return bool(o) and isinstance(o, dict) and o.get('features', {}).get('claim') == claim

    def without(c, k):
        steps = c['steps']
        st = steps[k]
        new = [dict(s_) for i, s_ in enumerate(steps) if i != k]
        if st['op'] == 'tf':
            idx = 2 + sum(1 for s_ in steps[:k] if s_['op'] == 'tf')
            for s_ in new:
                if s_['op'] == 'cmp':
                    if idx in (s_['a'], s_['b']):
                        return None
                    s_['a'] -= s_['a'] > idx
                    s_['b'] -= s_['b'] > idx
        return dict(c, steps=new)
    def drop_steps(c0, fails, budget=10 ** 6):
        cur, progress = c0, True
        while progress and budget > 0:
            progress = False
            for k in reversed(range(len(cur['steps']))):
                c = without(cur, k)
                if c is None or not c['steps']:
                    continue
                budget -= 1
                if fails(c):
                    cur, progress = c, True
                    break
                if budget <= 0:
                    break
        return cur
    best = drop_steps(best, still_fails)
    if claim is not None and len(best['steps']) < len(case['steps']) and _fresh_fails(best, claim) is False:
        # the reduced session fails only with what earlier cases left behind in the library (state
        # that outlives a call): reduce again, judging every candidate in a fresh interpreter
        if _fresh_fails(case, claim) is True:
            return drop_steps(case, lambda c: _fresh_fails(c, claim) is True, budget=10)
        return dict(best, needs_process_history=True)
    for i in (0, 1):
        o = best['objs'][i]
        if len(o['x']) > 1 and not any(s_['op'] == 'cmp' and 'array1d' in (s_.get('form_a'), s_.get('form_b'))
                                       for s_ in best['steps']):
            for r, row in enumerate(o['x']):
                o2 = dict(o, x=[row], rdm_descr={kk: ([vv[r]] if isinstance(vv, list) else vv)
                                                 for kk, vv in o.get('rdm_descr', {}).items()})
                objs = list(best['objs'])
                objs[i] = o2
                c = dict(best, objs=objs)
                if still_fails(c):
                    best = c
                    break
    for i in (0, 1):
        for key, val in (('descr', {}), ('rdm_descr', {}), ('pat_descr', {}), ('measure', None),
                         ('desc_style', 'list')):
            if best['objs'][i].get(key) != val:
                objs = list(best['objs'])
                objs[i] = dict(objs[i], **{key: val})
                c = dict(best, objs=objs)
                if still_fails(c):
                    best = c
    return best


# ------------------------------------------------------------------ features

def _vals(stack):
    return [unrat(v) for row in stack for v in row if v is not None]


def _is_const(row):
    return len({unrat(v) for v in row if v is not None}) <= 1


def _measure_tag(m):
    if m is None:
        return 'none'
    if '(ranks)' in m:
        return 'ranked'
    if m.startswith('squared'):
        return 'squared'
    return 'plain'


def features(case, impl):
    if case['kind'] == 'sess':
        return sess_features(case, impl)
    if case['kind'] == 'inv':
        br = ['kind:inv', 'inv:' + case['method'], 'map:' + case['fx']['name']]
        if case['fy'] is not None:
            br += ['inv:both_args', 'map:' + case['fy']['name']]
        if case['nanpos']:
            br.append('inv:nan_shared')
        for form in {case.get('form_x', 'rdms'), case.get('form_y', 'rdms')} - {'rdms'}:
            br.append('inv:arg:' + form)
        if case.get('route') == 'direct':
            br.append('inv:route:direct')
        if case.get('method_name', case['method']) != case['method']:
            br.append('inv:alias:' + case['method_name'])
        tags = sorted(set(scale_tags(case['x']) + scale_tags(case['y'])))
        br += ['inv:' + t for t in tags]
        if case['method'] == 'tau-a':
            br += ['inv:tau-a:' + t for t in tags]
        if case['method'] in CORR_TYPE:
            offs = offset_tags(case)
            br += ['offset:' + t for t in offs]
            if offs:
                br.append('inv:' + case['method'] + ':offset')
                if inv_tolerance(case)[0] <= 1e-9:
                    br.append('offset:tol1e-9')
                if case['nanpos']:
                    br.append('offset:nan_shared')
            if case['fx']['name'] == 'shift' or (case['fy'] or {}).get('name') == 'shift':
                br.append('inv:' + case['method'] + ':shift')
        return {'kind': 'inv', 'method': case['method'], 'map': case['fx']['name'],
                'map_y': case['fy']['name'] if case['fy'] else None, 'n': case['n'],
                'sigma': 'none' if case['sigma'] is None else 'vec', 'branches': br}
    t = case['t']
    vals = _vals(case['x'])
    br = ['t:' + t, 'desc:' + case.get('desc_style', 'list'), 'measure:' + _measure_tag(case.get('measure'))]
    if t == 'rank':
        br.append('rank:' + case['method'])
    if t == 'custom':
        br.append('custom:' + case['fn']['name'])
    if any(not isinstance(v, list) for v in case.get('rdm_descr', {}).values()):
        br.append('desc:scalar_rdm')
    has_nan = any(v is None for row in case['x'] for v in row)
    if has_nan:
        br.append('nan')
        if t in NAN_UNSUPPORTED:
            br.append('nan:' + t)
            if len(case['x']) > 1 and any(all(v is not None for v in row) for row in case['x']):
                br.append('nan:partial_stack')
    if t == 'geodesic' and isinstance(impl, dict) and impl.get('exc') == 'ValueError':
        br.append('geodesic:raise')
    if t == 'geotop' and case['low'] == case['up']:
        br.append('geotop:same_q')
    if t == 'geotop' and isinstance(impl, dict) and 'vecs' in impl and not has_nan and \
            any(v is None for row in impl['vecs'] for v in row):
        br.append('geotop:coincide_nan')
    if any(len({unrat(v) for v in row if v is not None}) < sum(v is not None for v in row)
           for row in case['x']):
        br.append('ties')
    negative = any(v < 0 for v in vals)
    if negative:
        br.append('negative')
    if case.get('dtype') == 'int':
        br.append('int_dtype')
    unit = bool(vals) and all(0 <= v <= 1 for v in vals)
    if unit:
        br.append('unit_range')
    if len(case['x']) > 1:
        br.append('stack>1')
    br += scale_tags(case['x'])
    const = any(_is_const(row) for row in case['x'])
    if const:
        br.append('constant_rdm')
    if impl is not None and isinstance(impl, dict) and 'vecs' in impl and \
            any(v == 'inf' for row in impl['vecs'] for v in row):
        br.append('geodesic_inf')
    return {'kind': 'tf', 't': t, 'method': case.get('method'), 'n': case['n'],
            'n_rdm': len(case['x']), 'dtype': case.get('dtype', 'float'), 'has_nan': has_nan,
            'negative': negative, 'unit_range': unit, 'constant_rdm': const,
            'measure_tag': _measure_tag(case.get('measure')),
            'fn': case['fn']['name'] if t == 'custom' else None, 'branches': br}


def nontrivial_key(case, impl):
    if case['kind'] == 'sess':
        rows = [r for o in case['objs'] for r in o['x']]
        return case if case['steps'] and not all(_is_const(r) for r in rows) else None
    rows = case['x'] + (case['y'] if case['kind'] == 'inv' else [])
    if all(_is_const(r) for r in rows):
        return None
    return case


# ------------------------------------------------------------------ oracle, shrink

def oracle(case):
    if case['kind'] == 'sess':
        import sys
        return orc.check_sess(case, sys.modules[__name__])
    if case['kind'] == 'inv':
        return orc.check_inv(case, inv_call, inv_tolerance(case))
    return orc.check_tf(case, tf_call, source_descriptors(case), custom_fun)


def shrink(case, still_fails):
    best = case
    if case['kind'] == 'sess':
        return sess_shrink(case, still_fails)
    if case['kind'] == 'inv':
        if len(best['x']) > 1 or len(best['y']) > 1:
            done = False
            for xi in best['x']:
                for yi in best['y']:
                    c = dict(best, x=[xi], y=[yi])
                    if still_fails(c):
                        best, done = c, True
                        break
                if done:
                    break
        for key in ('fy', 'nanpos', 'sigma'):
            if best[key] is not None:
                c = dict(best, **{key: None})
                if still_fails(c):
                    best = c
        return best
    # one RDM, no descriptors, plain measure, float dtype
    if len(best['x']) > 1:
        for k, row in enumerate(best['x']):
            c = dict(best, x=[row],
                     rdm_descr={kk: [vv[k]] for kk, vv in best.get('rdm_descr', {}).items()})
            if still_fails(c):
                best = c
                break
    for key, val in (('descr', {}), ('rdm_descr', {}), ('pat_descr', {}), ('measure', None),
                     ('dtype', 'float'), ('desc_style', 'list')):
        if best.get(key) != val:
            c = dict(best, **{key: val})
            if still_fails(c):
                best = c
    if any(v is None for row in best['x'] for v in row):
        c = dict(best, x=[[0 if v is None else v for v in row] for row in best['x']])
        if still_fails(c):
            best = c
    return best
