"""Independent transcription of property C07 (noise ceilings) — plain loops over python floats.

Nothing here imports rsatoolbox.  An RDM is a list of floats / None (None = missing), in the
order of np.triu_indices(n, 1).  Used by the oracle of harness/engines/C07.py and, at
generation time, to build candidates and to reject numerically degenerate stacks.
"""
import math


def pairs(n):
    return [(i, j) for i in range(n) for j in range(i + 1, n)]


def mask_of(row):
    return [v is not None for v in row]


def common_mask(rows):
    m = mask_of(rows[0])
    return all(mask_of(r) == m for r in rows)


def dense(row):
    return [float(v) for v in row if v is not None]


def dot(x, y):
    return math.fsum(a * b for a, b in zip(x, y))


def mean(x):
    return math.fsum(x) / len(x)


def center(x):
    m = mean(x)
    return [a - m for a in x]


def ranks(x):
    """tie-averaged ranks, by sorting"""
    order = sorted(range(len(x)), key=lambda i: x[i])
    r = [0.0] * len(x)
    k = 0
    while k < len(order):
        e = k
        while e + 1 < len(order) and x[order[e + 1]] == x[order[k]]:
            e += 1
        for t in range(k, e + 1):
            r[order[t]] = (k + e) / 2 + 1
        k = e + 1
    return r


def v_matrix(n, keep):
    """V for sigma_k = identity on the kept pairs: V[(i,j),(k,l)] = (d_ik - d_il - d_jk + d_jl)^2"""
    ps = [p for p, kp in zip(pairs(n), keep) if kp]

    def d(a, b):
        return 1.0 if a == b else 0.0
    return [[(d(i, k) - d(i, l) - d(j, k) + d(j, l)) ** 2 for (k, l) in ps] for (i, j) in ps]


def solve(a, b):
    """Gaussian elimination with partial pivoting (a small SPD system)"""
    n = len(a)
    m = [list(a[i]) + [b[i]] for i in range(n)]
    for c in range(n):
        p = max(range(c, n), key=lambda r: abs(m[r][c]))
        m[c], m[p] = m[p], m[c]
        for r in range(n):
            if r != c and m[r][c] != 0.0:
                f = m[r][c] / m[c][c]
                for k in range(c, n + 1):
                    m[r][k] -= f * m[c][k]
    return [m[i][n] / m[i][i] for i in range(n)]


def cos_form(x, y, ip):
    nx, ny = ip(x, x), ip(y, y)
    if nx <= 0 or ny <= 0:
        return 0.0
    return ip(x, y) / math.sqrt(nx) / math.sqrt(ny)


def sim(method, x, y, n=None, keep=None):
    """similarity of two vectors without missing values; n / keep describe which pairs of an
    n-condition RDM the entries are (needed for the whitened measures only)"""
    if method == 'cosine':
        return cos_form(x, y, dot)
    if method == 'corr':
        return cos_form(center(x), center(y), dot)
    if method == 'spearman':
        return cos_form(center(ranks(x)), center(ranks(y)), dot)
    if method == 'rho-a':
        p = len(x)
        return dot(center(ranks(x)), center(ranks(y))) / (p ** 3 - p) * 12
    if method in ('cosine_cov', 'corr_cov'):
        v = v_matrix(n, keep if keep is not None else [True] * len(pairs(n)))
        if method == 'corr_cov':
            x, y = center(x), center(y)
        sx, sy = solve(v, x), solve(v, y)
        nx, ny = dot(x, sx), dot(y, sy)
        if nx <= 1e-300 or ny <= 1e-300:
            return 0.0
        return dot(x, sy) / math.sqrt(nx) / math.sqrt(ny)
    raise ValueError(method)


def normalise(method, x):
    """per-RDM normalisation before pooling; an all-zero (cosine) / constant (correlation) RDM has
    similarity 0 to everything and stays the zero vector (it cannot help any candidate)"""
    if method in ('cosine', 'cosine_cov'):
        s = math.sqrt(mean([a * a for a in x]))
        return [a / s for a in x] if s > 0 else [0.0] * len(x)
    if method in ('corr', 'corr_cov'):
        c = center(x)
        s = math.sqrt(mean([a * a for a in c]))
        return [a / s for a in c] if s > 0 else [0.0] * len(x)
    return ranks(x)


def pool(method, rows):
    """equal-weight pooled RDM of dense rows (the code's rule; for cosine, corr and rho-a it is
    a maximiser of the mean similarity)"""
    z = [normalise(method, r) for r in rows]
    m = [mean([zz[k] for zz in z]) for k in range(len(rows[0]))]
    if method in ('corr', 'corr_cov'):
        lo = min(m)
        m = [a - lo for a in m]
    return m


def sup_mean_sim(method, rows):
    """the largest mean similarity any single RDM can have with the dense rows (closed form):
    cosine: |sum r/|r|| / n;  corr: the same on centred rows;  rho-a: rearrangement bound"""
    n = len(rows)
    if method in ('cosine', 'corr'):
        rs = [center(r) for r in rows] if method == 'corr' else rows
        u = []
        for r in rs:
            s = math.sqrt(dot(r, r))
            if s > 0:       # a zero / constant RDM has similarity 0 to every candidate
                u.append([a / s for a in r])
        tot = [math.fsum(uu[k] for uu in u) for k in range(len(rows[0]))]
        return math.sqrt(dot(tot, tot)) / n
    if method == 'rho-a':
        p = len(rows[0])
        m = [mean([rk[k] for rk in (ranks(r) for r in rows)]) for k in range(p)]
        # max over permutations rho of <rho, m> pairs the largest rank with the largest m
        best = dot([float(k + 1) for k in range(p)], sorted(m))
        c = (p + 1) / 2
        return (best - p * c * c) / (p ** 3 - p) * 12
    raise ValueError(method)


def groups_of(rdesc):
    vals = sorted(set(rdesc))
    return [[j for j, v in enumerate(rdesc) if v == g] for g in vals]


def group_weights(rdesc):
    """weight of every RDM in both bounds of the grouped loop: 1 / (#groups * size of its group)"""
    groups = groups_of(rdesc)
    w = [0.0] * len(rdesc)
    for g in groups:
        for j in g:
            w[j] = 1.0 / (len(groups) * len(g))
    return w


def unit(method, x):
    """the RDM as the measure sees it: direction (cosine) / centred direction (corr); zero if degenerate"""
    c = center(x) if method == 'corr' else list(x)
    s = math.sqrt(dot(c, c))
    return [a / s for a in c] if s > 0 else [0.0] * len(c)


def wpool(method, rows, rdesc):
    """the group-weighted pool sum_j w_j unit(r_j): maximiser of the grouped score (cosine, corr)"""
    w = group_weights(rdesc)
    u = [unit(method, r) for r in rows]
    return [math.fsum(w[j] * u[j][k] for j in range(len(rows))) for k in range(len(rows[0]))]


def wsup(method, rows, rdesc):
    """the highest grouped score any single RDM can reach: |sum_j w_j unit(r_j)|"""
    p = wpool(method, rows, rdesc)
    return math.sqrt(dot(p, p))


def grouped_score(method, cand, rows, rdesc, n=None, keep=None):
    groups = groups_of(rdesc)
    return mean([mean([sim(method, cand, rows[j], n, keep) for j in g]) for g in groups])


def boot_expected(method, rows, rdesc, n):
    """(lower, upper) by the definition: leave one group out / pool of everything"""
    keep = mask_of(rows[0])
    d = [dense(r) for r in rows]
    groups = groups_of(rdesc)
    full = pool(method, d)
    lo, up = [], []
    for g in groups:
        rest = [j for j in range(len(rows)) if j not in g] if len(groups) > 1 else list(range(len(rows)))
        pred = pool(method, [d[j] for j in rest])
        lo.append(mean([sim(method, pred, d[j], n, keep) for j in g]))
        up.append(mean([sim(method, full, d[j], n, keep) for j in g]))
    return mean(lo), mean(up)


def to_matrix(n, row):
    m = [[None] * n for _ in range(n)]
    for (i, j), v in zip(pairs(n), row):
        m[i][j] = v
        m[j][i] = v
    return m


def sub_rdm(n, row, conds):
    """the RDM of the listed conditions (square form, then the upper triangle again)"""
    m = to_matrix(n, row)
    return [m[a][b] for ia, a in enumerate(conds) for b in conds[ia + 1:]]


def cv_expected(method, rows, n, folds):
    """folds: list of dict(ceil_rows, test_rows, test_conds) with positions; both bounds"""
    lo, up = [], []
    for f in folds:
        conds = sorted(f['test_conds'])
        k = len(conds)
        test = [sub_rdm(n, rows[j], conds) for j in f['test_rows']]
        keep = mask_of(test[0])
        train = [sub_rdm(n, rows[j], conds) for j in f['ceil_rows']]
        pred_train = pool(method, [dense(r) for r in train])
        full = pool(method, [dense(r) for r in rows])
        # scatter the pooled full RDM back to its positions, then take the test conditions
        it = iter(full)
        full_o = [next(it) if kp else None for kp in mask_of(rows[0])]
        pred_test = dense(sub_rdm(n, full_o, conds))
        td = [dense(r) for r in test]
        lo.append(mean([sim(method, pred_train, t, k, keep) for t in td]))
        up.append(mean([sim(method, pred_test, t, k, keep) for t in td]))
    return mean(lo), mean(up)


def is_degenerate(method, x):
    if method in ('cosine', 'cosine_cov'):
        return all(a == 0 for a in x)
    return len(set(x)) < 2


def conditioning(method, rows, rdesc):
    """smallest relative size of a (centred, for corr) pooled prediction used by the ceiling:
    near 0 means the similarity of that prediction is numerically meaningless (a pool made of
    degenerate RDMs only is exactly zero and is handled by the zero-norm guard: not counted)"""
    d = [dense(r) for r in rows]
    groups = groups_of(rdesc)
    worst = 1.0
    sets = [list(range(len(rows)))]
    if len(groups) > 1:
        sets += [[j for j in range(len(rows)) if j not in g] for g in groups]
    for s in sets:
        if all(is_degenerate(method, d[j]) for j in s):
            continue
        z = [normalise(method, d[j]) for j in s if not is_degenerate(method, d[j])] \
            + [normalise(method, d[j]) for j in s if is_degenerate(method, d[j])]
        m = [mean([zz[k] for zz in z]) for k in range(len(d[0]))]
        if method not in ('cosine', 'cosine_cov'):
            m = center(m)
        ref = math.sqrt(mean([a * a for a in z[0]])) or 1.0
        worst = min(worst, math.sqrt(mean([a * a for a in m])) / ref)
    return worst


# ------------------------------------------------------------------ round 4: sessions

def pool_whitened(method, rows, n, keep):
    """util/pooling.pool_rdm for the whitened measures: every (mean-removed, for corr_cov) RDM divided by its
    whitened norm sqrt(r' V^-1 r), then the entry-wise mean (the final shift is immaterial to the measure)"""
    v = v_matrix(n, keep)
    z = []
    for r in rows:
        c = center(r) if method == 'corr_cov' else list(r)
        s = dot(c, solve(v, c))
        s = math.sqrt(s) if s > 0 else 1.0
        z.append([a / s for a in c])
    return [mean([zz[k] for zz in z]) for k in range(len(rows[0]))]


def plain_mean(rows):
    return [mean([r[k] for r in rows]) for k in range(len(rows[0]))]


# which later analysis is NOT invariant to the per-RDM normalisation an earlier one applies
FAMILY = {'euclid': 0, 'neg_riem_dist': 0, 'cosine': 1, 'cosine_cov': 1, 'corr': 2, 'corr_cov': 2,
          'rho-a': 3, 'spearman': 3, 'kendall': 3, 'tau-b': 3, 'tau-a': 3}


def order_sensitive(methods):
    """some call comes after a call of a coarser family (plain < scale-free < shift-free < rank): had the
    earlier call normalised the caller's data in place, the later result would change"""
    return any(FAMILY[a] > FAMILY[b] for i, a in enumerate(methods) for b in methods[i + 1:])
