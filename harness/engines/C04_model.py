"""C04 engine library, part 2: the driver request of a case (data, recorded draws, recorded fitter
and noise-ceiling calls), the canonical form of the driver's answer and the comparison."""
import math

import lean
import engines.C04_lib as L


# ------------------------------------------------------------------ effective options (defaults)

def _default_k_pattern(x):
    return 2 if x < 12 else 3 if x < 24 else 4 if x < 40 else 5


def _default_k_rdm(x):
    return 2 if x < 6 else 3 if x < 12 else 4 if x < 20 else 5


def eff(case):
    """the options a routine works with after its documented defaults (`None`): the defaults of
    inference_util at the expected number (1 - 1/e) n of distinct groups in a bootstrap sample;
    bootstrap_crossval never splits a single RDM group; random test sets hold floor(n / k) groups.
    (independent plain transcription; the model computes the same through the regenerated leaves
    and returns its values, which are compared)"""
    ctx = L.Ctx(case)
    gr, gp = len(set(ctx.rdesc)), len(set(ctx.pdesc))
    f = 1 - 1 / math.e
    r = case['routine']
    out = {}
    if r in ('bcv', 'dual'):
        kr, kp = case.get('kr'), case.get('kp')
        if kp is None:
            kp = _default_k_pattern(f * gp)
        if kr is None:
            kr = 1 if (r == 'bcv' and gr == 1) else _default_k_rdm(f * gr)
        out.update(kr=kr, kp=kp)
    if r == 'random':
        nr, npat = case.get('nr'), case.get('np')
        if npat is None:
            npat = gp // _default_k_pattern(f * gp)
        if nr is None:
            nr = gr // _default_k_rdm(f * gr)
        out.update(nr=nr, np=npat)
    return out


# ------------------------------------------------------------------ recorded draws -> structure

def split_log(case, log):
    """the flat randint/shuffle log as (shuffles before the first draw, list of samples)"""
    nri = 2 if case.get('bt', 'both') == 'both' or case['routine'] == 'dual' else 1
    pre, samples, cur = [], [], None
    for rec in log:
        if rec[0] == 'randint':
            if cur is None or len(cur['ri']) >= nri:
                cur = {'ri': [], 'sh': []}
                samples.append(cur)
            cur['ri'].append(rec[1])
        elif cur is None:
            pre.append(rec[1])
        else:
            cur['sh'].append(rec[1])
    return pre, samples


def draw_of(case, s):
    bt = 'both' if case['routine'] == 'dual' else case.get('bt', 'both')
    ri = s['ri']
    if bt == 'both':
        return {'r': ri[0] if ri else [], 'p': ri[1] if len(ri) > 1 else []}
    if bt == 'rdm':
        return {'r': ri[0] if ri else [], 'p': []}
    return {'r': [], 'p': ri[0] if ri else []}


def chunks(l, n):
    n = max(n, 1)
    return [l[i:i + n] for i in range(0, len(l), n)]


def cv_draw(ctx, sh):
    """[rsel, psel_0, psel_1, …] of one sets_k_fold(random=True)"""
    return {'rsel': ctx.rcodes(sh[0]) if sh else [], 'psels': [ctx.pcodes(x) for x in sh[1:]]}


def structured_draws(case, log, ctx):
    pre, samples = split_log(case, log)
    r = case['routine']
    out = []
    for s in samples:
        d = draw_of(case, s)
        if r == 'bcv':
            d['reps'] = [cv_draw(ctx, c) for c in chunks(s['sh'], 1 + eff(case)['kr'])]
        elif r == 'dual':
            per = 1 + eff(case)['kr']
            d['reps'] = [[cv_draw(ctx, c) for c in chunks(rep, per)]
                         for rep in chunks(s['sh'], 3 * per)]
        elif r == 'random':
            d['shuffles'] = [{'rsel': ctx.rcodes(c[0]), 'psel': ctx.pcodes(c[1]) if len(c) > 1 else []}
                             for c in chunks(s['sh'], 2)]
        out.append(d)
    return pre, out


def folds_spec(case, pre, ctx):
    g = case['gen']
    kind = g['kind']
    uniq_r = sorted(set(ctx.rdesc))
    uniq_p = sorted(set(ctx.pdesc))
    rnd = g.get('random', kind in ('k_fold', 'k_fold_rdm'))
    if kind == 'hand':
        def part(t):
            return {'rows': t[0], 'conds': t[1], 'pidx': t[2]}
        return {'gen': 'hand', 'folds': [{'train': part(f['train']), 'test': part(f['test']),
                                          'ceil': part(f['ceil'])} for f in L.hand_parts(case, ctx)]}
    if kind == 'k_fold':
        if rnd:
            return {'gen': kind, 'kr': g['kr'], 'kp': g['kp'], 'rsel': ctx.rcodes(pre[0]) if pre else [],
                    'psels': [ctx.pcodes(x) for x in pre[1:]]}
        return {'gen': kind, 'kr': g['kr'], 'kp': g['kp'], 'rsel': uniq_r,
                'psels': [uniq_p] * g['kr']}
    if kind == 'k_fold_pattern':
        return {'gen': kind, 'kp': g['kp'], 'psel': ctx.pcodes(pre[0]) if (rnd and pre) else uniq_p}
    if kind == 'k_fold_rdm':
        return {'gen': kind, 'kr': g['kr'], 'rsel': ctx.rcodes(pre[0]) if (rnd and pre) else uniq_r}
    if kind == 'loo_rdm':
        return {'gen': kind, 'rsel': uniq_r}
    return {'gen': kind, 'psel': uniq_p}


# ------------------------------------------------------------------ request

def expected_exception(case):
    """exceptions the routines raise by design"""
    r = case['routine']
    if r in ('bcv', 'random') and case['use_correction'] and case['n_cv'] <= 1:
        return 'Warning'
    if r == 'dual' and case['use_correction'] and case['n_cv'] <= 1 \
            and not (eff(case)['kr'] == 1 and eff(case)['kp'] == 1):
        return 'Warning'
    return None


def model_request(case, obs):
    if 'log' not in obs:
        return None
    ctx = L.Ctx(case)
    arr = L.data_array(case)
    pre, draws = structured_draws(case, obs['log'], ctx)
    req = {'op': 'c04.run', 'routine': case['routine'], 'bt': case.get('bt', 'both'),
           'method': case['method'], 'n_models': len(case['models']),
           'data': {'n': case['n_cond'], 'vecs': [[lean.fbits(x) for x in row] for row in arr],
                    'rdesc': ctx.rdesc, 'pdesc': ctx.pdesc},
           'fits': [{'j': f['j'], 'obj': f['obj'], 'pidx': f['pidx'], 'pred': f['pred']}
                    for f in obs.get('fits', [])],
           'ncs': [{k: v for k, v in n.items() if k in ('kind', 'obj', 'whole', 'ceil', 'test', 'val')}
                   for n in obs.get('ncs', [])],
           'draws': draws}
    if 'preds' in obs:
        req['preds'] = obs['preds']
    elif case['routine'] in ('fixed', 'bootstrap'):
        req['preds'] = []
    for k in ('boot_nc', 'kr', 'kp', 'n_cv', 'use_correction', 'nr', 'np', 'calc_nc'):
        if k in case:
            req[k] = case[k]            # `None` = the routine's default, computed by the model
    req['N'] = case.get('N', 1)
    req['e'] = lean.fbits(math.e)
    if case['routine'] == 'crossval':
        req['folds'] = folds_spec(case, pre, ctx)
        req['ceil_given'] = case.get('ceil', 'gen') != 'omit'
    if case['routine'] == 'testset' and case.get('bt') == 'rdm':
        # bootstrap_testset_rdm always works on the `index` pattern descriptor
        req['data']['pdesc'] = list(range(case['n_cond']))
    return req


# ------------------------------------------------------------------ canonical model answer

def uf(x):
    if x is None:
        return None
    v = lean.unfbits(x)
    return None if math.isnan(v) else v


def umat(m):
    return None if m is None else [[uf(x) for x in row] for row in m]


def cvrows_to_arrays(rows, n_models, n_folds, n_rep):
    """rows[i] = None | [rep]{evals[fold][model], nc} -> evals[i][model][fold][rep], nc[2][i][rep]"""
    ev, nc = [], [[], []]
    for row in rows:
        if row is None:
            ev.append([[[None] * n_rep for _ in range(n_folds)] for _ in range(n_models)])
            nc[0].append([None] * n_rep)
            nc[1].append([None] * n_rep)
            continue
        row = list(row[:n_rep]) + [{'evals': [], 'nc': [None, None]}] * (n_rep - len(row))
        ev.append([[[uf(rep['evals'][f][j]) if f < len(rep['evals']) and j < len(rep['evals'][f])
                     else None for rep in row] for f in range(n_folds)] for j in range(n_models)])
        nc[0].append([uf(rep['nc'][0]) for rep in row])
        nc[1].append([uf(rep['nc'][1]) for rep in row])
    return ev, nc


def model_canon(case, a):
    out = _model_canon(case, a)
    if isinstance(a, dict) and 'meta' in a:
        out['meta'] = a['meta']
    if isinstance(a, dict) and 'cov_defined' in a:
        out['cov_defined'] = a['cov_defined']
    for k in ('kr', 'kp', 'nr', 'np'):
        if isinstance(a, dict) and k in a and k in eff(case) and a[k] != eff(case)[k]:
            out['options'] = f"model works with {k}={a[k]}, documented default gives {eff(case)[k]}"
    return out


def _model_canon(case, a):
    r = case['routine']
    M = len(case['models'])
    if isinstance(a, dict) and 'exc' in a:
        return {'exc': a['exc']}
    if r == 'fixed':
        return {'evals': [[[uf(x) for x in row] for row in a['evals']]], 'nc': [uf(x) for x in a['nc']],
                'cov': umat(a['cov']), 'dof': a['dof']}
    if r == 'bootstrap':
        out = {'evals': [[uf(x) for x in row] for row in a['evals']], 'dof': a['dof'],
               'cov': umat(a['cov']), 'cov_with_nc': umat(a['cov_with_nc'])}
        if case['boot_nc']:
            out['nc'] = [[None if p is None else uf(p[0]) for p in a['nc']],
                         [None if p is None else uf(p[1]) for p in a['nc']]]
        else:
            out['nc'] = [uf(x) for x in a['nc_data']]
        return out
    if r == 'crossval':
        ev = a['evals']
        out = {'evals': [[[uf(f[j]) for f in ev] for j in range(M)]]}
        ncs = a['nc']
        g = case['gen']['kind']
        if not case.get('calc_nc', True):
            out['nc'] = [None, None]
        elif not L.ceil_given(case):
            out['nc'] = [[uf(p[0]) for p in ncs], [uf(p[1]) for p in ncs]] if ncs else []
        else:
            out['nc'] = [uf(ncs[0][0]), uf(ncs[0][1])] if ncs else [None, None]
        return out
    if r == 'bcv':
        ev, nc = cvrows_to_arrays(a['rows'], M, a['kr'] * a['kp'], case['n_cv'])
        return {'evals': ev, 'nc': nc, 'cov': umat(a['cov']), 'dof': a['dof']}
    if r == 'random':
        ev, nc = cvrows_to_arrays(a['rows'], M, 1, case['n_cv'])
        ev = [[[x for x in mod[0]] for mod in samp] for samp in ev]       # drop the fold axis
        return {'evals': ev, 'nc': nc, 'cov': umat(a['cov']), 'dof': a['dof']}
    if r == 'dual':
        n_cv = a['n_cv']
        F = a['kr'] * a['kp']
        per = [cvrows_to_arrays([row[v] if row else None for row in a['rows']], M, F, n_cv)
               for v in range(3)]
        N = len(a['rows'])
        ev = [[[[[per[v][0][i][j][f][c] for v in range(3)] for c in range(n_cv)] for f in range(F)]
               for j in range(M)] for i in range(N)]
        nc = [[[[per[v][1][b][i][c] for v in range(3)] for c in range(n_cv)] for i in range(N)]
              for b in range(2)]
        return {'evals': ev, 'nc': nc, 'cov': [umat(m) for m in a['cov']], 'dof': a['dof']}
    if r == 'testset':
        out = {'evals': [[uf(x) for x in row] for row in a['evals']]}
        bt = case.get('bt', 'both')
        if bt in ('both', 'rdm'):
            out['n_rdm'] = a['n_rdm']
        if bt in ('both', 'pattern'):
            out['n_pattern'] = a['n_pattern']
        return out
    raise ValueError(r)


# ------------------------------------------------------------------ comparison

RTOL, ATOL = 1e-8, 1e-10


META_KEYS = ('cv_method', 'eval_shape', 'nc_shape', 'has_variances', 'passed_n_rdm',
             'passed_n_pattern', 'attr_n_rdm', 'attr_n_pattern')


def diff_results(case, impl, other, iname, oname):
    """first difference between two canonical results, or None"""
    if other.get('options'):
        return other['options']
    if 'meta' in impl and 'meta' in other:
        for k in META_KEYS:
            if k in impl['meta'] and k in other['meta'] and impl['meta'][k] != other['meta'][k]:
                return f"Result.{k}: {impl['meta'][k]!r} != {other['meta'][k]!r}  ({iname} != {oname})"
    for k in ('evals', 'nc', 'dof', 'n_rdm', 'n_pattern'):
        if k in impl or k in other:
            d = lean.first_diff(impl.get(k), other.get(k), RTOL, ATOL, k)
            if d:
                return f'{d}  ({iname} != {oname})'
    if 'cov' in impl or 'cov' in other:
        want = other.get('cov')
        got = impl.get('cov')
        if case['routine'] == 'bootstrap' and case.get('bt') == 'rdm' and case.get('boot_nc') \
                and got is not None and 'cov_with_nc' in other \
                and len(got) == len(other['cov_with_nc']):
            want = other['cov_with_nc']     # either layout is the sample covariance of the resamples
        d = lean.first_diff(got, want, 1e-7, 1e-10, 'cov')
        if d:
            return f'{d}  ({iname} != {oname})'
    return None
