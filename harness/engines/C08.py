"""C08 — fitted model parameters maximise the training criterion within constraints.

Engine interface (see harness/run_check.py):
  THEOREMS, LEVEL, RULE, BRANCHES, generate, run_impl, model_requests, model_result,
  compare, oracle, features, nontrivial_key, search, shrink

Case kinds
  fit       one call of a fitter of rsatoolbox.model.fitter on a model built from `basis`
            (k RDMs over n conditions, pattern descriptor `cond` = `desc`), training RDMs
            `data` over the same conditions, a pattern-index selection `value` (labels of
            `cond` or positions of `index`, with repeats; None = no selection) which the harness
            applies to the data with `subsample_pattern` exactly as crossval / bootstrap do,
            a criterion, sigma_k (None | {'vec'} | {'mat'}, sized to the selection), normalise.
            The Lean model (Rsa.Core.Fit through the driver) computes the regression /
            non-negative optimum, the scores of the library's theta and of competitors.
  predict   predict / predict_rdm / descriptors / dict round trip of a model object, exactly.
  nnls      `_nn_least_squares(A, y, V)` against the modelled active-set loop + KKT predicate.
  subsample `RDMs.subsample_pattern` against the model's selection, exactly.
"""
import hashlib
import importlib
import json
import math
import random
import signal
import warnings
from fractions import Fraction as F

import numpy as np

from lean import rat, unrat, fbits, unfbits, close
from engines import C08_oracle as orc

PROPERTY = 'C08'
LEVEL = 'proof'
P = 'Rsa.Props.C08.'
THEOREMS = [P + n for n in (
    'predict_length', 'predict_linear', 'predict_entry',
    'predict_eq_predict_rdm', 'predict_descriptors', 'from_dict_same_prediction',
    'interpolate_clamp_noted',
    'ip_cauchy_schwarz', 'mean_sim_eq_sim_to_pool', 'gram_matVec',
    'ols_maximises', 'ols_maximises_cosine', 'ols_maximises_corr', 'ols_maximises_whitened',
    'kkt_maximises_nonneg', 'kkt_maximises_nonneg_cosine', 'kktOk_sound',
    'nnls_exit_is_kkt_partial',
    'pool_cosine_is_pool',
    'select_is_argmax', 'select_first',
    'interpolate_shape', 'interpolate_best_of_segments', 'fitInterpolate_shape',
    'normalised_unit_norm', 'normalise_pos_scale', 'score_scale_invariant',
    'subsample_length', 'subsample_uses_selected_only', 'fit_uses_selected_only',
    'subsample_multiplicity', 'selection_sorted', 'selection_perm',
)]
RULE = ('one PRNG; kind fit: 2-4 basis RDMs x 4-7 conditions (small integers, scaled by 1/10/100, '
        'full rank on the selected entries), 1-4 training RDMs (signal = non-negative mixture of the '
        'basis + integer noise, or pure noise, or an exact copy of a basis RDM), pattern selections '
        'None / subset / bootstrap with repeats by `index` or by a label descriptor, an optional entry '
        'missing in every RDM, criteria cosine / corr / cosine_cov / corr_cov, sigma_k None / vector / '
        'SPD matrix, normalise on/off, fitters regress / regress_nn / optimize / optimize_positive / '
        'select / interpolate; competitors: random, local perturbations, unit and grid points. '
        'kind predict: all four model classes built from RDMs / vectors / matrices, theta None / '
        'index / vectors incl. negative ones, linear combinations, dict round trip. kind nnls: the '
        'active-set solver directly (V None / given). kind subsample: exact. Non-trivial = the '
        'optimum is not a unit vector and the basis has >= 2 RDMs (fit) / k >= 2 (predict); '
        'distinct = distinct case contents.')
METHODS = ['cosine', 'corr', 'cosine_cov', 'corr_cov']
FITTERS = ['regress', 'regress_nn', 'optimize', 'optimize_positive', 'select', 'interpolate']
BRANCHES = (['method:' + m for m in METHODS] + ['fitter:' + f for f in FITTERS] +
            ['sigma:none', 'sigma:vec', 'sigma:mat', 'sel:none', 'sel:subset', 'sel:repeats',
             'by:index', 'by:cond', 'normalize:on', 'normalize:off', 'stack>1', 'nan:repeats',
             'nan:common', 'malformed:nan', 'scale>1', 'exact_copy', 'nn:active_constraint',
             'nn:interior', 'noninterference', 'kind:predict', 'kind:nnls', 'kind:subsample',
             'class:fixed', 'class:select', 'class:weighted', 'class:interpolate',
             'theta:none', 'theta:negative', 'form:rdms', 'form:vectors', 'form:matrices',
             'nnls:V'])
ASSUMPTIONS = [
    'IEEE evaluation of either side is within the stated tolerance of the real value (small integer '
    'inputs, n <= 7, well-conditioned sigma_k, Gram matrices of full rank with cond < 1e4)',
    'np.linalg.solve / scipy.sparse.linalg.cg return solutions of their linear systems (cg to its '
    'rtol 1e-5): theta is compared with tolerance 1e-6 (plain) / 5e-4 (whitened), scores one-sidedly',
    'BFGS (fit_optimize*) and the bounded scalar search (fit_interpolate) are observed, not modelled: '
    'their result must never beat the proven optimum and must reach it within 1e-5 (BFGS, no '
    'sigma_k), 0.3 (BFGS with sigma_k: the loss then carries conjugate-gradient noise) or 2e-5 '
    '(bounded search) on signal-carrying data',
    'rank-deficient selections (fewer distinct entries than basis RDMs) are outside the generated domain',
]
TRUSTED_EXTRA = [
    'contract: np.linalg.solve(X, y) returns theta with X theta = y (hypothesis of ols_maximises; the '
    'residual of the normal equations is checked on every regress case by the oracle)',
    'contract: scipy.sparse.linalg.cg(V, b) returns V^-1 b (driver: Gauss-Jordan)',
    'contract: scipy.optimize.minimize_scalar(bounded) returns a point of [0,1] minimising the loss on '
    'that segment (hypothesis of interpolate_best_of_segments; checked one-sidedly against a grid)',
]

EPS = 100 * np.finfo(float).eps
TIMEOUT_S = 1.0

_fit = importlib.import_module('rsatoolbox.model.fitter')
_mod = importlib.import_module('rsatoolbox.model.model')


# ------------------------------------------------------------------ helpers

def _fl(v):
    return float(unrat(v))


def _rows(stack):
    return [[_fl(v) for v in r] for r in stack]


def _sigma_np(sig):
    if sig is None:
        return None
    if 'vec' in sig:
        return np.array([_fl(v) for v in sig['vec']], dtype=float)
    return np.array([[_fl(v) for v in r] for r in sig['mat']], dtype=float)


def _sigma_wire(sig):
    if sig is None:
        return None
    if 'vec' in sig:
        return [fbits(_fl(v)) for v in sig['vec']]
    return [[fbits(_fl(v)) for v in r] for r in sig['mat']]


def sigma_kind(sig):
    if sig is None:
        return 'none'
    return 'vec' if 'vec' in sig else 'mat'


def _key(case):
    return hashlib.sha1(json.dumps(case, sort_keys=True, default=str).encode()).hexdigest()


class _Timeout(Exception):
    pass


def _alarm(*_a):
    raise _Timeout()


def _guarded(fn, seconds=TIMEOUT_S):
    """run fn(); library exceptions -> {'exc': name}; non-termination -> {'exc': 'Timeout'}"""
    old = signal.signal(signal.SIGALRM, _alarm)
    signal.setitimer(signal.ITIMER_REAL, seconds)
    try:
        with warnings.catch_warnings():
            warnings.simplefilter('ignore')
            with np.errstate(all='ignore'):
                return fn()
    except _Timeout:
        return {'exc': 'Timeout'}
    except (ValueError, TypeError, AssertionError, IndexError, ZeroDivisionError,
            np.linalg.LinAlgError, AttributeError, KeyError, NameError) as exc:
        return {'exc': type(exc).__name__}
    finally:
        signal.setitimer(signal.ITIMER_REAL, 0)
        signal.signal(signal.SIGALRM, old)


def _by(case):
    return 'index' if case['by'] == 'index' else 'cond'


def _desc_for(case):
    """labels the selection refers to"""
    return list(range(case['n'])) if case['by'] == 'index' else list(case['desc'])


def _rdms(case, rows):
    from rsatoolbox.rdm import RDMs
    return RDMs(np.array(rows, dtype=float),
                pattern_descriptors={'cond': np.array(case['desc'])})


def _data_sub_py(case, data_rows=None):
    """the training RDMs on the selected conditions, computed by the harness itself"""
    rows = _rows(case['data']) if data_rows is None else data_rows
    if case['value'] is None:
        out = [list(r) for r in rows]
    else:
        sel = orc.positions(_desc_for(case), case['value'])
        out = [orc.sub_vec(case['n'], sel, np.array(r)).tolist() for r in rows]
    if case.get('malformed'):
        out = [list(r) for r in out]
        k = next(i for i, v in enumerate(out[0]) if not math.isnan(v))
        out[0][k] = float('nan')
    return out


def _apply_common_nan(case, rows):
    """an entry missing in every RDM (basis and data)"""
    if case.get('common_nan') is None:
        return rows
    rows = [list(r) for r in rows]
    for r in rows:
        r[case['common_nan']] = float('nan')
    return rows


def _model_obj(case, basis_rows):
    cls = {'select': _mod.ModelSelect, 'interpolate': _mod.ModelInterpolate}.get(
        case['fitter'], _mod.ModelWeighted)
    return cls('m', _rdms(case, _apply_common_nan(case, basis_rows)))


def _call_fit(case, basis_rows, data_rows, seed=0):
    """the real fitter call; returns theta as list / int or {'exc': ...}"""
    from rsatoolbox.rdm import RDMs
    model = _model_obj(case, basis_rows)
    full = _rdms(case, _apply_common_nan(case, data_rows))
    if case['value'] is None:
        data = full
        kw = {}
    else:
        data = full.subsample_pattern(_by(case), np.array(case['value']))
        kw = {'pattern_idx': np.array(case['value']), 'pattern_descriptor': _by(case)}
    if case.get('malformed'):
        d = data.dissimilarities.copy()
        k = next(i for i, v in enumerate(d[0]) if not math.isnan(v))
        d[0, k] = np.nan
        data = RDMs(d, pattern_descriptors=data.pattern_descriptors)
    f = {'regress': _fit.fit_regress, 'regress_nn': _fit.fit_regress_nn,
         'optimize': _fit.fit_optimize, 'optimize_positive': _fit.fit_optimize_positive,
         'select': _fit.fit_select, 'interpolate': _fit.fit_interpolate}[case['fitter']]
    if case['fitter'] in ('regress', 'regress_nn', 'optimize', 'optimize_positive'):
        kw['normalize'] = bool(case['normalize'])
    np.random.seed(seed)

    def go():
        th = f(model, data, method=case['method'], sigma_k=_sigma_np(case['sigma']), **kw)
        if case['fitter'] == 'select':
            return int(th)
        return [float(v) for v in np.asarray(th, dtype=float).reshape(-1)]

    def lib_score(th):
        from rsatoolbox.rdm import compare
        pred = model.predict_rdm(th if case['fitter'] == 'select' else np.array(th))
        if case['value'] is not None:
            pred = pred.subsample_pattern(_by(case), np.array(case['value']))
        return float(np.mean(compare(pred, data, method=case['method'],
                                     sigma_k=_sigma_np(case['sigma']))))
    th = _guarded(go, 120.0 if case['fitter'].startswith('optimize') else TIMEOUT_S)
    if isinstance(th, dict):
        return th, None
    sc = _guarded(lambda: lib_score(th))
    return th, (None if isinstance(sc, dict) or (isinstance(sc, float) and math.isnan(sc)) else sc)


def _perturbed(case, rows, bump):
    """change every entry that involves a condition outside the selection"""
    n = case['n']
    sel = set(orc.positions(_desc_for(case), case['value']))
    out = [list(r) for r in rows]
    for r in out:
        for (i, j) in orc.tri_pairs(n):
            if i not in sel or j not in sel:
                r[orc.tri_pos(n, i, j)] += bump
    return out


def _has_unselected(case):
    if case['value'] is None:
        return False
    return len(set(orc.positions(_desc_for(case), case['value']))) < case['n']


# ------------------------------------------------------------------ generation

def _sigma(rng, n, kind):
    if kind == 'none':
        return None
    if kind == 'vec':
        while True:
            v = [rng.choice(['1/2', 1, '3/2', 2, 3]) for _ in range(n)]
            if len(set(map(str, v))) > 1:
                return {'vec': v}
    b = [[rng.randint(-2, 2) for _ in range(n)] for _ in range(n)]
    m = [[rat(F(sum(b[i][k] * b[j][k] for k in range(n)), 4) + (1 if i == j else 0))
          for j in range(n)] for i in range(n)]
    return {'mat': m}


def _selection(rng, n, desc, by, style):
    labels = list(range(n)) if by == 'index' else sorted(set(desc))
    if style == 'none':
        return None
    if style == 'subset':
        k = rng.randint(min(4, len(labels)), len(labels))
        v = rng.sample(labels, k)
        return v
    while True:
        v = [rng.choice(labels) for _ in range(len(labels) + rng.randint(0, 2))]
        if len(set(v)) >= min(3, len(labels)) and len(set(v)) < len(v):
            return v


def _fit_case(rng, fitter, method, tier, small=False, malformed=False):
    for _attempt in range(200):
        n = rng.randint(4, 5 if small else (6 if tier == 'quick' else 7))
        m = n * (n - 1) // 2
        k = rng.randint(2, 3 if small else 4)
        if fitter == 'interpolate':
            k = rng.randint(2, 4)
        by = rng.choice(['index', 'cond', 'cond'])
        desc = rng.sample(range(1, 3 * n), n)
        if by == 'cond' and rng.random() < 0.15:
            desc[rng.randrange(1, n)] = desc[0]          # two conditions share a label
        style = rng.choice(['none', 'subset', 'repeats', 'repeats'])
        value = _selection(rng, n, desc, by, style)
        scale = rng.choice([1, 1, 1, 10, 100]) if fitter in ('regress', 'regress_nn') else 1
        basis = [[rng.randint(0, 5) * scale for _ in range(m)] for _ in range(k)]
        dstyle = rng.choice(['signal', 'signal', 'signal', 'noise', 'copy'])
        if fitter in ('optimize', 'optimize_positive', 'interpolate', 'select'):
            dstyle = 'signal'
        r = rng.choice([1, 2, 2, 3, 4])
        if dstyle == 'signal':
            th = [rng.choice([0, 1, 1, 2, 3]) for _ in range(k)]
            if fitter == 'interpolate':
                i = rng.randrange(k - 1)
                th = [0] * k
                th[i], th[i + 1] = rng.choice([(1, 3), (2, 2), (3, 1), (4, 0), (0, 4)])
            if fitter == 'regress' and rng.random() < 0.4:
                th = [rng.choice([-2, -1, 1, 2, 3]) for _ in range(k)]
            if sum(abs(t) for t in th) == 0:
                th[0] = 1
            data = [[sum(th[i] * basis[i][e] for i in range(k)) + rng.randint(-2, 2) * scale + 6 * scale
                     for e in range(m)] for _ in range(r)]
        elif dstyle == 'noise':
            data = [[rng.randint(0, 6) for _ in range(m)] for _ in range(r)]
        else:
            i = rng.randrange(k)
            data = [list(basis[i])] + [[basis[i][e] + rng.randint(0, 1) for e in range(m)]
                                       for _ in range(r - 1)]
            if rng.random() < 0.5:
                data = data[:1]
        if r > 1 and rng.random() < 0.6:
            # the criteria do not depend on the scale of a training RDM
            fac = [rng.choice([1, 1, 3, 10]) for _ in range(r)]
            data = [[v * fac[i] for v in row] for i, row in enumerate(data[:r])] + data[r:]
        case = {'kind': 'fit', 'fitter': fitter, 'method': method, 'n': n, 'desc': desc, 'by': by,
                'value': value, 'basis': basis, 'data': data, 'sigma': None,
                'normalize': rng.random() < 0.6, 'scale': scale, 'dstyle': dstyle,
                'common_nan': None, 'malformed': False, 'cseed': rng.randint(0, 10 ** 6)}
        nsub = len(orc.positions(_desc_for(case), value))
        if method.endswith('_cov'):
            case['sigma'] = _sigma(rng, nsub, rng.choice(['none', 'vec', 'mat', 'mat']))
        if rng.random() < 0.12:
            case['common_nan'] = rng.randrange(m)
        if malformed:
            case['malformed'] = True
        if _well_posed(case):
            return case
    raise RuntimeError('no well-posed case found')


def _problem(case, basis_rows=None, data_rows=None):
    b = _apply_common_nan(case, _rows(case['basis']) if basis_rows is None else basis_rows)
    d = _apply_common_nan(case, _rows(case['data']) if data_rows is None else data_rows)
    return orc.Problem(case['n'], _desc_for(case), case['value'], b,
                       _data_sub_py(case, d), case['method'], _sigma_np(case['sigma']))


def _well_posed(case):
    c = dict(case, malformed=False)
    with np.errstate(all='ignore'):
        try:
            pr = _problem(c)
        except np.linalg.LinAlgError:
            return False
    if not pr.masks_agree or not pr.data_ok:
        return False
    if pr.A.shape[1] < pr.A.shape[0] + 2:
        return False
    g = pr.A @ pr.W @ pr.A.T
    if np.linalg.matrix_rank(g) < g.shape[0] or np.linalg.cond(g) > 1e4:
        return False
    if case['fitter'] in ('select', 'interpolate', 'optimize', 'optimize_positive'):
        # a clear winner: the optimum must not be a near-tie (arg-max / optimiser stability)
        if case['fitter'] == 'select':
            ev = sorted(pr.best_single())
            if ev[-1] - ev[-2] < 1e-6:
                return False
    return True


def _predict_case(rng, tier):
    cls = rng.choice(['fixed', 'select', 'weighted', 'weighted', 'interpolate', 'interpolate'])
    n = rng.randint(3, 6)
    m = n * (n - 1) // 2
    k = 1 if cls == 'fixed' else rng.randint(2, 4)
    basis = [[rng.randint(0, 9) for _ in range(m)] for _ in range(k)]
    form = rng.choice(['rdms', 'rdms', 'vectors', 'matrices'])
    desc = rng.sample(range(1, 3 * n), n)

    def theta():
        return [rat(F(rng.randint(-8, 12), 4)) for _ in range(k)]
    params = []
    if cls == 'select':
        params = [None] + [rng.randrange(k) for _ in range(2)]
    elif cls == 'fixed':
        params = [None, [1]]
    else:
        t1, t2 = theta(), theta()
        a, b = rat(F(rng.randint(-4, 6), 2)), rat(F(rng.randint(-4, 6), 2))
        comb = [rat(unrat(a) * unrat(x) + unrat(b) * unrat(y)) for x, y in zip(t1, t2)]
        pos = [rat(abs(unrat(x))) for x in theta()]
        params = [None, t1, t2, comb, pos]
        return {'kind': 'predict', 'cls': cls, 'n': n, 'basis': basis, 'form': form, 'desc': desc,
                'params': params, 'lin': [a, b]}
    return {'kind': 'predict', 'cls': cls, 'n': n, 'basis': basis, 'form': form, 'desc': desc,
            'params': params, 'lin': None}


def _nnls_case(rng, tier):
    while True:
        k = rng.randint(2, 4)
        n = rng.randint(4, 5)
        m = n * (n - 1) // 2
        rows = [[rng.randint(-2, 5) for _ in range(m)] for _ in range(k)]
        style = rng.choice(['noise', 'mix', 'neg'])
        if style == 'noise':
            y = [rng.randint(-2, 5) for _ in range(m)]
        elif style == 'mix':
            th = [rng.choice([0, 1, 2]) for _ in range(k)]
            y = [sum(th[i] * rows[i][e] for i in range(k)) + rng.randint(-1, 1) for e in range(m)]
        else:
            y = [-rng.randint(0, 4) for _ in range(m)]
        sig = _sigma(rng, n, rng.choice(['none', 'none', 'mat', 'vec']))
        a = np.array(rows, dtype=float)
        if np.linalg.matrix_rank(a) == k and np.linalg.cond(a @ a.T) < 1e4:
            return {'kind': 'nnls', 'n': n, 'rows': rows, 'y': y, 'sigma': sig}


def _subsample_case(rng, tier):
    n = rng.randint(2, 7)
    m = n * (n - 1) // 2
    by = rng.choice(['index', 'cond'])
    desc = rng.sample(range(1, 3 * n), n)
    if by == 'cond' and n > 2 and rng.random() < 0.3:
        desc[rng.randrange(1, n)] = desc[0]
    labels = list(range(n)) if by == 'index' else desc
    value = [rng.choice(labels) for _ in range(rng.randint(1, n + 2))]
    if rng.random() < 0.15:
        value.append(99)            # a label nobody carries
    return {'kind': 'subsample', 'n': n, 'by': by, 'desc': desc, 'value': value,
            'v': [100 + e for e in range(m)]}


def generate(rng, tier):
    quick = tier == 'quick'
    reps = {'regress': 8, 'regress_nn': 8, 'optimize': 2, 'optimize_positive': 2,
            'select': 3, 'interpolate': 3}
    mult = 1 if quick else 12
    for fitter in FITTERS:
        for _ in range(reps[fitter] * mult):
            for method in METHODS:
                yield _fit_case(rng, fitter, method, tier)
    for k in range(3 if quick else 40):
        # malformed stream: a training RDM lacks an entry the model has
        yield _fit_case(rng, ('regress', 'regress_nn')[k % 2], METHODS[k % 4], tier, malformed=True)
    for _ in range(60 if quick else 1200):
        yield _predict_case(rng, tier)
    for _ in range(60 if quick else 1500):
        yield _nnls_case(rng, tier)
    for _ in range(40 if quick else 800):
        yield _subsample_case(rng, tier)


def search(rng, tier):
    """failing-input search: small problems first, closed-form fitters and predictions mostly"""
    k = 0
    while True:
        k += 1
        r = k % 10
        if r < 3:
            yield _fit_case(rng, 'regress', METHODS[k % 4], 'quick', small=k < 200)
        elif r < 6:
            yield _fit_case(rng, 'regress_nn', METHODS[k % 4], 'quick', small=k < 200)
        elif r == 6:
            yield _fit_case(rng, rng.choice(['select', 'interpolate']), METHODS[k % 4], 'quick', small=True)
        elif r == 7:
            yield _predict_case(rng, 'quick')
        elif r == 8:
            yield _nnls_case(rng, 'quick')
        else:
            yield _fit_case(rng, rng.choice(['optimize', 'optimize_positive']), METHODS[k % 4], 'quick',
                            small=True)


# ------------------------------------------------------------------ implementation side

_IMPL_CACHE = {}


def _predict_impl(case):
    from rsatoolbox.rdm import RDMs
    from scipy.spatial.distance import squareform
    basis = np.array(_rows(case['basis']), dtype=float)
    cls = {'fixed': _mod.ModelFixed, 'select': _mod.ModelSelect, 'weighted': _mod.ModelWeighted,
           'interpolate': _mod.ModelInterpolate}[case['cls']]

    def build():
        if case['form'] == 'rdms':
            return cls('m', RDMs(basis.copy(), pattern_descriptors={'cond': np.array(case['desc'])}))
        if case['form'] == 'vectors':
            return cls('m', basis[0].copy() if case['cls'] == 'fixed' else basis.copy())
        mats = np.array([squareform(b) for b in basis])
        return cls('m', mats[0] if case['cls'] == 'fixed' else mats)

    def desc_of(r):
        return {str(k): [int(x) if float(x) == int(x) else float(x) for x in np.asarray(v).tolist()]
                for k, v in r.pattern_descriptors.items()}

    def one(model, p):
        th = p if (p is None or isinstance(p, int)) else np.array([_fl(v) for v in p])
        args = () if p is None else (th,)
        v = _guarded(lambda: [rat(F(float(x))) for x in np.asarray(model.predict(*args)).reshape(-1)])
        r = _guarded(lambda: model.predict_rdm(*args))
        if isinstance(r, dict):
            return {'vec': v, 'rdm': r, 'desc': r}
        return {'vec': v,
                'rdm': [[rat(F(float(x))) for x in row] for row in r.get_vectors().tolist()],
                'desc': desc_of(r)}
    m1 = _guarded(build)
    if isinstance(m1, dict):
        return m1
    m2 = _guarded(lambda: _mod.model_from_dict(m1.to_dict()))
    out = {'direct': [one(m1, p) for p in case['params']],
           'dict': m2 if isinstance(m2, dict) else [one(m2, p) for p in case['params']],
           'type': type(m1).__name__,
           'type2': m2 if isinstance(m2, dict) else type(m2).__name__}
    return out


def _nnls_impl(case):
    a = np.array(_rows(case['rows']), dtype=float).T
    y = np.array([_fl(v) for v in case['y']], dtype=float)
    v = None
    if case['sigma'] is not None:
        v = orc.v_matrix(case['n'], _sigma_np(case['sigma']))
    r = _guarded(lambda: _fit._nn_least_squares(a, y, V=v))
    if isinstance(r, dict):
        return r
    return {'x': [float(t) for t in r[0]]}


def _subsample_impl(case):
    from rsatoolbox.rdm import RDMs
    r = RDMs(np.array([[float(v) for v in case['v']]]),
             pattern_descriptors={'cond': np.array(case['desc'])})

    def go():
        s = r.subsample_pattern(_by(case), np.array(case['value']))
        return {'sel': [int(i) for i in s.pattern_descriptors['index']],
                'v': [None if math.isnan(x) else int(x) for x in s.get_vectors()[0]]}
    return _guarded(go)


def run_impl(case):
    key = _key(case)
    if key in _IMPL_CACHE:
        return _IMPL_CACHE[key]
    if case['kind'] == 'predict':
        out = _predict_impl(case)
    elif case['kind'] == 'nnls':
        out = _nnls_impl(case)
    elif case['kind'] == 'subsample':
        out = _subsample_impl(case)
    else:
        th, sc = _call_fit(case, _rows(case['basis']), _rows(case['data']))
        out = {'theta': th, 'lib_score': sc}
        if _has_unselected(case) and not isinstance(th, dict) and not case['fitter'].startswith('optimize'):
            th2, _ = _call_fit(case, _perturbed(case, _rows(case['basis']), 3.0),
                               _perturbed(case, _rows(case['data']), 5.0))
            out['theta_perturbed'] = th2
    _IMPL_CACHE[key] = out
    return out


# ------------------------------------------------------------------ model side

def _common_req(case):
    basis = _apply_common_nan(case, _rows(case['basis']))
    data = _data_sub_py(case, _apply_common_nan(case, _rows(case['data'])))
    return {'method': case['method'], 'n': case['n'], 'desc': _desc_for(case), 'value': case['value'],
            'basis': [[None if math.isnan(v) else fbits(v) for v in r] for r in basis],
            'data': [[None if math.isnan(v) else fbits(v) for v in r] for r in data],
            'sigma': _sigma_wire(case['sigma'])}


def _theta_vec(case, th):
    k = len(case['basis'])
    if case['fitter'] == 'select':
        return [1.0 if i == th else 0.0 for i in range(k)]
    return list(th)


def _competitors(case, theta):
    rng = random.Random(case['cseed'])
    k = len(case['basis'])
    f = case['fitter']
    if f == 'select':
        return [np.eye(k)[i] for i in range(k)]
    if f == 'interpolate':
        out = []
        for i in range(k - 1):
            for w in [0, 0.1, 0.25, 0.5, 0.75, 0.9, 1] + [rng.random() for _ in range(3)]:
                t = np.zeros(k)
                t[i], t[i + 1] = w, 1 - w
                out.append(t)
        return out
    base = theta if not isinstance(theta, dict) else [1.0] * k
    return orc.competitors(rng, base, k, nonneg=f in ('regress_nn', 'optimize_positive'))


def model_requests(case):
    if case['kind'] == 'predict':
        kind = case['cls']
        return [{'op': 'c08.predict', 'kind': kind, 'n': case['n'],
                 'obj': [[rat(unrat(v)) for v in r] for r in case['basis']],
                 'desc': ([['cond', case['desc']]] if case['form'] == 'rdms' else [])
                 if kind == 'fixed' else
                 ([['cond', case['desc']], ['index', list(range(case['n']))]] if case['form'] == 'rdms'
                  else [['index', list(range(case['n']))]]),
                 'params': [p if (p is None or isinstance(p, int)) else [rat(unrat(v)) for v in p]
                            for p in case['params']]}]
    if case['kind'] == 'nnls':
        impl = run_impl(case)
        v = None
        if case['sigma'] is not None:
            v = [[fbits(x) for x in r] for r in orc.v_matrix(case['n'], _sigma_np(case['sigma'])).tolist()]
        chk = [] if 'exc' in impl else [[fbits(t) for t in impl['x']]]
        return [{'op': 'c08.nnls', 'rows': [[fbits(_fl(v_)) for v_ in r] for r in case['rows']],
                 'y': [fbits(_fl(v_)) for v_ in case['y']], 'V': v, 'eps': fbits(EPS),
                 'tol': fbits(1e-9 if v is None else 2e-4),
                 'check': chk}]
    if case['kind'] == 'subsample':
        return [{'op': 'c08.subsample', 'n': case['n'], 'desc': _desc_for(case),
                 'value': case['value'], 'v': case['v']}]
    impl = run_impl(case)
    base = _common_req(case)
    f = case['fitter']
    reqs = [dict(base, op='c08.fit', fitter='regress', normalize=bool(case['normalize']))]
    nonneg = f in ('regress_nn', 'optimize_positive', 'interpolate')
    if nonneg:
        reqs.append(dict(base, op='c08.fit', fitter='nn', normalize=bool(case['normalize']),
                         eps=fbits(EPS)))
    th = impl['theta']
    thetas = []
    if not isinstance(th, dict):
        thetas.append(_theta_vec(case, th))
    thetas += [list(map(float, c)) for c in _competitors(case, th)]
    reqs.append(dict(base, op='c08.score', thetas=[[fbits(v) for v in t] for t in thetas]))
    if f == 'select':
        reqs.append(dict(base, op='c08.select'))
    if f == 'interpolate':
        reqs.append(dict(base, op='c08.interp', eps=fbits(EPS)))
    return reqs


def _dec(v):
    return None if v is None else unfbits(v)


def model_result(case, answers):
    if case['kind'] in ('predict', 'subsample'):
        return answers[0]
    if case['kind'] == 'nnls':
        a = answers[0]
        if 'model_error' in a:
            return a
        return {'x': [_dec(v) for v in a['x']], 'exited': a['exited'], 'kkt': a['kkt'],
                'kkt_impl': a['kkt_check']}
    for a in answers:
        if isinstance(a, dict) and 'model_error' in a:
            return a
    out = {}
    k = 0
    a = answers[k]
    k += 1
    out['regress'] = a if 'exc' in a else {'theta': [_dec(v) for v in a['theta']], 'score': _dec(a['score'])}
    f = case['fitter']
    if f in ('regress_nn', 'optimize_positive', 'interpolate'):
        a = answers[k]
        k += 1
        out['nn'] = a if 'exc' in a else {'theta': [_dec(v) for v in a['theta']],
                                          'score': _dec(a['score']), 'exited': a['exited']}
    out['scores'] = [_dec(v) for v in answers[k]]
    k += 1
    if f == 'select':
        a = answers[k]
        out['select'] = {'evals': [_dec(v) for v in a['evals']], 'theta': a['theta']}
    if f == 'interpolate':
        a = answers[k]
        out['interp'] = a if isinstance(a, dict) else [{'w': _dec(s['w']), 'score': _dec(s['score'])} for s in a]
    return out


# ------------------------------------------------------------------ comparison

def _tol(case):
    if case['method'].endswith('_cov'):
        return 5e-4
    return 1e-6


def _vec_diff(a, b, tol):
    if len(a) != len(b):
        return f'length {len(a)} != {len(b)}'
    sc = max(max(abs(x) for x in a), max(abs(x) for x in b), 1e-300)
    for i, (x, y) in enumerate(zip(a, b)):
        if math.isnan(x) or math.isnan(y) or abs(x - y) > tol * sc:
            return f'[{i}]: impl {x!r} != model {y!r} (all: {a} vs {b})'
    return None


def _opt_slack(case):
    """BFGS differentiates the loss numerically; with a given sigma_k every loss evaluation
    goes through conjugate gradients (rtol 1e-5), which makes the optimiser imprecise"""
    return 1e-5 if case['sigma'] is None else 0.3


def _unit(v):
    n = math.sqrt(sum(t * t for t in v))
    return [t / n for t in v] if n > 0 else list(v)


def _cmp_predict(case, impl, model):
    if 'exc' in impl:
        return f'model construction raised {impl}'
    for tag in ('direct', 'dict'):
        im, mo = impl[tag], model[tag]
        if isinstance(im, dict):
            return f'{tag}: implementation raised {im}'
        if mo is None:
            return f'{tag}: model has no dictionary form'
        for p, a, b in zip(case['params'], im, mo):
            for fld_ in ('vec', 'rdm'):
                x, y = a[fld_], b[fld_]
                if isinstance(x, dict) or y is None:
                    if not (isinstance(x, dict) and y is None):
                        return f'{tag} {fld_} theta={p}: impl {x} model {y}'
                    continue
                fx = [[unrat(v) for v in r] for r in x] if fld_ == 'rdm' else [unrat(v) for v in x]
                fy = [[unrat(v) for v in r] for r in y] if fld_ == 'rdm' else [unrat(v) for v in y]
                if fx != fy:
                    return f'{tag} {fld_} theta={p}: impl {x} != model {y}'
            if not isinstance(a['desc'], dict) or 'exc' in a['desc']:
                if b['desc'] is not None:
                    return f'{tag} descriptors theta={p}: impl {a["desc"]} model {b["desc"]}'
                continue
            da = {k: [float(v) for v in vs] for k, vs in a['desc'].items()}
            db = {kv[0]: [float(v) for v in kv[1]] for kv in (b['desc'] or [])}
            if da != db:
                return f'{tag} pattern descriptors theta={p}: impl {da} != model {db}'
    if impl['type'] != model['type'] or impl['type2'] != model['type']:
        return f'type name {impl["type"]}/{impl["type2"]} != {model["type"]}'
    return None


def compare(case, impl, model):
    if isinstance(model, dict) and 'model_error' in model:
        return f'model error {model}'
    kind = case['kind']
    if kind == 'predict':
        return _cmp_predict(case, impl, model)
    if kind == 'subsample':
        if 'exc' in impl:
            return f'subsample_pattern raised {impl}'
        mv = [None if v is None else int(unrat(v)) for v in model['v']]
        if impl['sel'] != model['sel'] or impl['v'] != mv:
            return f'subsample: impl {impl} != model sel {model["sel"]} v {mv}'
        return None
    if kind == 'nnls':
        if 'exc' in impl:
            return f'_nn_least_squares: {impl["exc"]}'
        if not model['exited']:
            return 'model: active-set loop did not exit within its fuel'
        if not model['kkt']:
            return 'model: result of the active-set loop violates the KKT conditions'
        if not all(model['kkt_impl']):
            return f'_nn_least_squares result {impl["x"]} violates the KKT conditions'
        return _vec_diff(impl['x'], model['x'], 1e-7 if case['sigma'] is None else 5e-4)
    # ---- fit
    th = impl['theta']
    f = case['fitter']
    mreg = model['regress']
    if 'exc' in mreg:
        if isinstance(th, dict) and th['exc'] == mreg['exc']:
            return None
        return f'{f}: model rejects the input ({mreg["exc"]}), implementation returned {th}'
    if isinstance(th, dict):
        return f'{f}: implementation raised {th["exc"]}, model theta {mreg["theta"]}'
    tol = _tol(case)
    slack = 1e-7 if tol < 1e-5 else 1e-6
    scores = model['scores']
    s_impl, comp = scores[0], scores[1:]
    if s_impl is None:
        if f in ('regress_nn', 'optimize_positive') and not any(th) and not any(model['nn']['theta']):
            return None      # every basis RDM is negatively related to the data: the optimum is theta = 0
        return f'{f}: score of the returned theta is undefined'
    nonneg = f in ('regress_nn', 'optimize_positive')
    opt = model['nn'] if nonneg else mreg
    if f in ('regress', 'regress_nn', 'optimize', 'optimize_positive'):
        if nonneg and not opt['exited']:
            return 'model: active-set loop did not exit within its fuel'
        s_opt = opt['score']
        if s_opt is None:
            s_opt = 0.0
        if f in ('regress', 'regress_nn'):
            # "up to scale": compare directions (both sides normalised to unit length)
            d = _vec_diff(_unit(th), _unit(opt['theta']), tol)
            if d:
                return f'{f} theta (unit length) {d}'
        if s_impl < s_opt - (slack if f in ('regress', 'regress_nn') else _opt_slack(case)):
            return f'{f}: score {s_impl!r} of the returned theta is below the optimum {s_opt!r}'
        if s_impl > s_opt + slack:
            return f'{f}: score {s_impl!r} of the returned theta beats the model optimum {s_opt!r}'
        if nonneg and min(th) < -1e-12:
            return f'{f}: negative weight {min(th)!r}'
        if case['normalize'] and abs(math.sqrt(sum(t * t for t in th)) - 1) > 1e-9 and any(th):
            return f'{f}: normalised theta has norm {math.sqrt(sum(t * t for t in th))!r}'
        for c in comp:
            if c is not None and c > s_opt + slack:
                return f'model: a competitor scores {c!r} above the model optimum {s_opt!r}'
    elif f == 'select':
        ev = model['select']['evals']
        if model['select']['theta'] is None:
            return 'model: evaluations undefined'
        if th != model['select']['theta'] and abs(ev[th] - max(ev)) > slack:
            return f'select: index {th} (score {ev[th]!r}) != arg-max {model["select"]["theta"]} ({max(ev)!r})'
    elif f == 'interpolate':
        k = len(th)
        nz = [i for i, t in enumerate(th) if t != 0]
        if not nz or max(nz) - min(nz) > 1 or abs(sum(th) - 1) > 1e-12 or min(th) < 0 or max(th) > 1:
            return f'interpolate: theta {th} is not a convex mixture of two adjacent RDMs'
        segs = [s['score'] for s in model['interp'] if s['score'] is not None]
        if len(segs) == k - 1:
            best = max(segs)
            if s_impl < best - 2e-5:
                return f'interpolate: score {s_impl!r} below the best mixture {best!r}'
            if s_impl > best + slack:
                return f'interpolate: score {s_impl!r} beats the model optimum {best!r}'
            for c in comp:
                if c is not None and c > best + slack:
                    return f'model: a mixture scores {c!r} above the model optimum {best!r}'
    if impl['lib_score'] is not None and not close(impl['lib_score'], s_impl, 1e-3, 1e-3):
        return f'{f}: library score {impl["lib_score"]!r} != model score {s_impl!r} of the same theta'
    if 'theta_perturbed' in impl:
        t2 = impl['theta_perturbed']
        if isinstance(t2, dict):
            return f'{f}: raises {t2} after changing only unselected conditions'
        if f == 'select':
            if t2 != th:
                return f'select: result changes ({th} -> {t2}) with unselected conditions'
        else:
            d = _vec_diff(th, t2, 1e-9)
            if d:
                return f'{f}: theta changes when only unselected conditions change: {d}'
    return None


# ------------------------------------------------------------------ features

def features(case, impl):
    kind = case['kind']
    if kind == 'predict':
        br = ['kind:predict', 'class:' + case['cls'], 'form:' + case['form']]
        if any(p is None for p in case['params']):
            br.append('theta:none')
        if any(isinstance(p, list) and any(unrat(v) < 0 for v in p) for p in case['params']):
            br.append('theta:negative')
        return {'kind': kind, 'cls': case['cls'], 'form': case['form'], 'n': case['n'], 'branches': br}
    if kind == 'nnls':
        br = ['kind:nnls'] + (['nnls:V'] if case['sigma'] is not None else [])
        if impl and 'x' in impl:
            br.append('nn:active_constraint' if any(t == 0 for t in impl['x']) else 'nn:interior')
        return {'kind': kind, 'sigma': sigma_kind(case['sigma']), 'k': len(case['rows']),
                'timeout': bool(impl and impl.get('exc') == 'Timeout'), 'branches': br}
    if kind == 'subsample':
        return {'kind': kind, 'by': case['by'], 'n': case['n'], 'branches': ['kind:subsample']}
    br = ['method:' + case['method'], 'fitter:' + case['fitter'],
          'by:' + case['by'], 'normalize:' + ('on' if case['normalize'] else 'off')]
    if case['method'].endswith('_cov'):
        br.append('sigma:' + sigma_kind(case['sigma']))
    v = case['value']
    sel = 'none' if v is None else ('repeats' if len(set(v)) < len(v) else 'subset')
    br.append('sel:' + sel)
    if sel == 'repeats':
        br.append('nan:repeats')
    if case.get('common_nan') is not None:
        br.append('nan:common')
    if case.get('malformed'):
        br.append('malformed:nan')
    if len(case['data']) > 1:
        br.append('stack>1')
    if case.get('scale', 1) > 1:
        br.append('scale>1')
    if case.get('dstyle') == 'copy':
        br.append('exact_copy')
    th = impl.get('theta') if impl else None
    if case['fitter'] == 'regress_nn' and isinstance(th, list):
        br.append('nn:active_constraint' if any(t == 0 for t in th) else 'nn:interior')
    if impl and 'theta_perturbed' in impl:
        br.append('noninterference')
    return {'kind': kind, 'fitter': case['fitter'], 'method': case['method'],
            'sigma': sigma_kind(case['sigma']), 'sel': sel, 'by': case['by'], 'n': case['n'],
            'k': len(case['basis']), 'n_data': len(case['data']), 'scale': case.get('scale', 1),
            'normalize': bool(case['normalize']), 'dstyle': case.get('dstyle'),
            'timeout': bool(isinstance(th, dict) and th.get('exc') == 'Timeout'),
            'exc': th.get('exc') if isinstance(th, dict) else None,
            'multi_data': len(case['data']) > 1,
            'branches': br}


def nontrivial_key(case, impl):
    if case['kind'] == 'fit':
        if len(case['basis']) < 2:
            return None
        th = impl.get('theta') if isinstance(impl, dict) else None
        if isinstance(th, list) and sum(1 for t in th if abs(t) > 1e-12) < 2 and case['fitter'] == 'regress':
            return None
    if case['kind'] == 'predict' and case['cls'] != 'fixed' and len(case['basis']) < 2:
        return None
    return case


# ------------------------------------------------------------------ oracle

def _fail(what, observed, expected, **feats):
    return {'what': what, 'observed': observed, 'expected': expected, 'features': feats}


def _oracle_predict(case):
    impl = _predict_impl(case)
    if 'exc' in impl:
        return _fail('model construction raises', impl, 'a model object', claim='construct')
    if isinstance(impl['dict'], dict):
        return _fail('model_from_dict(to_dict()) raises', impl['dict'], 'a model', claim='dict')
    basis = [[F(unrat(v)) for v in r] for r in case['basis']]
    k = len(basis)
    cls = case['cls']

    def admissible(p):
        if cls == 'fixed':
            return True
        if cls == 'select':
            return p is None or isinstance(p, int)
        if p is None:
            return cls == 'weighted'     # ModelInterpolate's two None defaults differ (noted)
        if cls == 'interpolate':
            return all(unrat(v) >= 0 for v in p)
        return True

    def expected(p):
        if cls == 'fixed':
            return basis[0]
        if cls == 'select':
            return basis[0 if p is None else p]
        th = [F(1)] * k if p is None else [F(unrat(v)) for v in p]
        return [sum(th[i] * basis[i][e] for i in range(k)) for e in range(len(basis[0]))]
    vecs = []
    for p, a, b in zip(case['params'], impl['direct'], impl['dict']):
        if isinstance(a['vec'], dict):
            return _fail(f'predict raises for theta={p}', a, 'a prediction', claim='predict')
        v = [unrat(x) for x in a['vec']]
        if isinstance(b['vec'], dict) or [unrat(x) for x in b['vec']] != v or b['rdm'] != a['rdm'] \
                or b['desc'] != a['desc']:
            return _fail(f'model rebuilt from its dict predicts differently for theta={p}', b, a,
                         claim='dict')
        if cls == 'interpolate' and p is None:
            vecs.append(None)         # the two None defaults differ (noted, outside the property)
            continue
        vecs.append(v)
        if v != expected(p):
            return _fail(f'predict(theta={p}) is not the weighted sum of the basis', a['vec'],
                         [str(x) for x in expected(p)], claim='predict_value')
        if not admissible(p):
            continue
        if isinstance(a['rdm'], dict):
            return _fail(f'predict_rdm raises for theta={p}', a, 'a prediction', claim='predict')
        if len(a['rdm']) != 1 or [unrat(x) for x in a['rdm'][0]] != v:
            return _fail(f'predict and predict_rdm disagree for theta={p}', a['rdm'], a['vec'],
                         claim='predict_vs_rdm')
        want = {'index': list(range(case['n']))}
        if case['form'] == 'rdms':
            want['cond'] = list(case['desc'])
        got = {k_: [int(x) for x in v_] for k_, v_ in a['desc'].items()}
        if got != want:
            return _fail(f'predict_rdm(theta={p}) does not carry the model\'s pattern descriptors',
                         got, want, claim='descriptors')
        if isinstance(b['rdm'], dict) or b['rdm'] != a['rdm'] or b['desc'] != a['desc']:
            return _fail(f'model rebuilt from its dict predicts differently for theta={p}', b, a,
                         claim='dict')
    if case['lin'] is not None and all(vecs[i] is not None for i in (1, 2, 3)):
        a_, b_ = unrat(case['lin'][0]), unrat(case['lin'][1])
        lin = [a_ * x + b_ * y for x, y in zip(vecs[1], vecs[2])]
        if lin != vecs[3]:
            return _fail('prediction is not linear in the weights', [str(x) for x in vecs[3]],
                         [str(x) for x in lin], claim='linear')
    return None


def _oracle_fit(case):
    f = case['fitter']
    basis, data = _rows(case['basis']), _rows(case['data'])
    cached = run_impl(case)          # the same real call (memoised per case content)
    th, lib_sc = cached['theta'], cached['lib_score']
    pr = _problem(case)
    feats = dict(fitter=f, method=case['method'], sigma=sigma_kind(case['sigma']),
                 multi_data=len(case['data']) > 1)
    if not pr.masks_agree:
        if isinstance(th, dict) and th['exc'] == 'ValueError':
            return None
        return _fail(f'{f}: NaN positions of model and data differ but no ValueError', th,
                     'ValueError', claim='nan_mask', **feats)
    if isinstance(th, dict):
        return _fail(f'{f} does not return parameters ({th["exc"]})', th, 'a parameter vector',
                     claim='returns', exc=th['exc'], **feats)
    k = len(basis)
    tv = _theta_vec(case, th)
    s = pr.score(tv)
    if lib_sc is not None and abs(lib_sc - s) > 2e-3:
        return _fail(f'{f}: the library\'s own mean similarity of its theta differs from the definition',
                     lib_sc, s, claim='score_definition', **feats)
    rng = random.Random(case['cseed'])
    slack = 1e-6
    if f in ('regress', 'optimize'):
        _, best = pr.best_free()
        comp = orc.competitors(rng, tv, k, False)
    elif f in ('regress_nn', 'optimize_positive'):
        _, best = pr.best_nonneg()
        comp = orc.competitors(rng, tv, k, True)
        if min(th) < -1e-12:
            return _fail(f'{f} returns a negative weight', th, 'theta >= 0', claim='constraint', **feats)
    elif f == 'select':
        ev = pr.best_single()
        best = max(ev)
        comp = [np.eye(k)[i] for i in range(k)]
        if not (isinstance(th, int) and 0 <= th < k):
            return _fail('fit_select does not return a candidate index', th, f'0..{k - 1}',
                         claim='constraint', **feats)
    else:
        best, _, _ = pr.best_mixture()
        comp = [pr.mix(i, w) for i in range(k - 1) for w in np.linspace(0, 1, 41)]
        nz = [i for i, t in enumerate(th) if t != 0]
        if not nz or max(nz) - min(nz) > 1 or abs(sum(th) - 1) > 1e-12 or min(th) < 0 or max(th) > 1:
            return _fail('fit_interpolate: theta is not a convex mixture of two adjacent RDMs', th,
                         'w, 1-w on neighbours, w in [0,1]', claim='constraint', **feats)
        slack = 2e-5
    if f.startswith('optimize'):
        slack = _opt_slack(case)
    if s < best - slack:
        return _fail(f'{f}: the returned parameters do not attain the maximal mean {case["method"]} '
                     f'similarity (gap {best - s:.3g})', s, best, claim='optimal', gap=best - s, **feats)
    for c in comp:
        sc = pr.score(c)
        if sc > s + slack:
            return _fail(f'{f}: a competitor scores higher than the fit (gap {sc - s:.3g})',
                         {'theta': th, 'score': s}, {'theta': [float(x) for x in c], 'score': sc},
                         claim='optimal', gap=sc - s, **feats)
    if f in ('regress', 'regress_nn', 'optimize', 'optimize_positive') and case['normalize']:
        nrm = math.sqrt(sum(t * t for t in th))
        if any(th) and abs(nrm - 1) > 1e-9:
            return _fail(f'{f}: normalised theta does not have unit norm', nrm, 1.0,
                         claim='unit_norm', **feats)
    if _has_unselected(case) and not f.startswith('optimize'):
        th2, _ = _call_fit(case, _perturbed(case, basis, 3.0), _perturbed(case, data, 5.0))
        same = (th2 == th) if f == 'select' else (not isinstance(th2, dict) and
                                                  _vec_diff(th, th2, 1e-9) is None)
        if not same:
            return _fail(f'{f}: conditions outside the pattern indices influence the fit', th2, th,
                         claim='restriction', **feats)
    return None


def _oracle_nnls(case):
    impl = run_impl(case)
    feats = dict(fitter='nnls', sigma=sigma_kind(case['sigma']))
    if 'exc' in impl:
        return _fail(f'_nn_least_squares does not return ({impl["exc"]})', impl, 'a solution',
                     claim='returns', exc=impl['exc'], **feats)
    a = np.array(_rows(case['rows']), dtype=float)
    y = np.array([_fl(v) for v in case['y']], dtype=float)
    w = np.eye(a.shape[1]) if case['sigma'] is None else \
        np.linalg.inv(orc.v_matrix(case['n'], _sigma_np(case['sigma'])))
    x = np.array(impl['x'])
    if x.min() < 0:
        return _fail('_nn_least_squares returns a negative coefficient', impl['x'], 'x >= 0',
                     claim='constraint', **feats)
    loss = lambda t: float((y - t @ a) @ w @ (y - t @ a))   # noqa: E731
    l_ = np.linalg.cholesky((w + w.T) / 2)
    ref, _ = __import__('scipy.optimize').optimize.nnls(l_.T @ a.T, l_.T @ y)
    if loss(x) > loss(ref) + 1e-7 * (1 + loss(ref)):
        return _fail('_nn_least_squares is not the constrained least-squares minimiser', loss(x),
                     loss(ref), claim='optimal', **feats)
    return None


def _oracle_subsample(case):
    impl = _subsample_impl(case)
    if 'exc' in impl:
        return _fail('subsample_pattern raises', impl, 'a subsample', claim='returns')
    sel = orc.positions(_desc_for(case), case['value'])
    v = orc.sub_vec(case['n'], sel, np.array(case['v'], dtype=float))
    want = [None if math.isnan(x) else int(x) for x in v]
    if impl['sel'] != sel or impl['v'] != want:
        return _fail('subsample_pattern does not return the named conditions with multiplicity',
                     impl, {'sel': sel, 'v': want}, claim='restriction')
    return None


def oracle(case):
    with warnings.catch_warnings():
        warnings.simplefilter('ignore')
        with np.errstate(all='ignore'):
            if case['kind'] == 'predict':
                return _oracle_predict(case)
            if case['kind'] == 'nnls':
                return _oracle_nnls(case)
            if case['kind'] == 'subsample':
                return _oracle_subsample(case)
            return _oracle_fit(case)


def shrink(case, still_fails):
    if case['kind'] != 'fit':
        return case
    cached = _IMPL_CACHE.get(_key(case))
    if cached and isinstance(cached.get('theta'), dict) and cached['theta'].get('exc') == 'Timeout':
        return case          # every further probe of a non-terminating call costs a timeout
    best = case
    for key, val in (('normalize', False), ('common_nan', None)):
        if best.get(key) != val:
            c = dict(best, **{key: val})
            if still_fails(c):
                best = c
    if len(best['data']) > 2:
        c = dict(best, data=best['data'][:2])
        if still_fails(c):
            best = c
    if len(best['data']) > 1:
        c = dict(best, data=best['data'][:1])
        if still_fails(c):
            best = c
    if best['value'] is not None and best['sigma'] is None:
        c = dict(best, value=None)
        if _well_posed(c) and still_fails(c):
            best = c
    return best
