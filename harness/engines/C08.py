"""C08 — fitted model parameters maximise the training criterion within constraints.

Engine interface (see harness/run_check.py):
  THEOREMS, LEVEL, RULE, BRANCHES, generate, run_impl, model_requests, model_result,
  compare, oracle, features, nontrivial_key, search, shrink

Case kinds
  fit       one call of a fitter of rsatoolbox.model.fitter on a model built from `basis`
            (k RDMs over n conditions, pattern descriptor `cond` = `desc`), training RDMs
            `data` over the same conditions, a pattern-index selection `value` (labels of
            `cond` or positions of `index`, with repeats; None = no selection) which the harness
            applies to the data with `subsample_pattern` exactly as crossval / bootstrap do,
            a criterion, sigma_k (None | {'vec'} | {'mat'}, sized to the selection), normalise.
            The Lean model (Rsa.Core.Fit through the driver) computes the regression /
            non-negative optimum, the scores of the library's theta and of competitors.
  predict   predict / predict_rdm / descriptors / dict round trip of a model object, exactly.
  nnls      `_nn_least_squares(A, y, V)` against the modelled active-set loop + KKT predicate.
  subsample `RDMs.subsample_pattern` against the model's selection, exactly.
  session   (round 4, `C08_session.py`) reuse sessions: one model object (or two of the same class and name),
            one data RDMs object, one sigma_k array, one theta array used by 2-6 successive fits / predictions;
            every step is judged as its own single-call `fit` / `predict` case built from the session's numbers
            (`C08_session.virtual_case`), every live object must be bit-identical after every call and earlier
            return values must keep their content.  No case shares a mutable input with another case: every case
            (and every step's reference computation) builds its arrays from the JSON numbers.
"""
import hashlib
import importlib
import json
import math
import random
import signal
import warnings
from fractions import Fraction as F

import numpy as np

from lean import rat, unrat, fbits, unfbits, close
from engines import C08_oracle as orc
from engines import C08_session as ses

PROPERTY = 'C08'
LEVEL = 'proof'
P = 'Rsa.Props.C08.'
THEOREMS = [P + n for n in (
    'predict_length', 'predict_linear', 'predict_entry',
    'predict_eq_predict_rdm', 'predict_descriptors', 'from_dict_same_prediction',
    'interpolate_clamp_noted',
    'ip_cauchy_schwarz', 'mean_sim_eq_sim_to_pool', 'gram_matVec',
    'ols_maximises', 'ols_maximises_cosine', 'ols_maximises_corr', 'ols_maximises_whitened',
    'kkt_maximises_nonneg', 'kkt_maximises_nonneg_cosine', 'kktOk_sound',
    'nnls_exit_is_kkt_partial',
    'pool_cosine_is_pool',
    'select_is_argmax', 'select_first',
    'interpolate_shape', 'interpolate_best_of_segments', 'fitInterpolate_shape',
    'normalised_unit_norm', 'normalise_pos_scale', 'score_scale_invariant',
    'subsample_length', 'subsample_uses_selected_only', 'fit_uses_selected_only',
    'subsample_multiplicity', 'selection_sorted', 'selection_perm',
    # round 3
    'nnls_exit_is_kkt', 'nnls_result_feasible', 'nnls_inner_terminates',
    'fit_regress_nn_maximises', 'fit_regress_nn_maximises_cosine',
    'pool_corr_is_pool', 'pool_cosine_cov_is_pool', 'pool_corr_cov_is_pool',
    'ols_maximises_whitened_corr', 'ols_maximises_corr_coded',
    'loss_is_minus_score', 'loss_value_spec', 'optimize_minimiser_maximises', 'optimize_positive_minimiser_maximises',
    'optimize_picks_least_loss', 'fit_optimize_maximises',
    'interpolate_assembly_matches_objective', 'interpolate_segments', 'leaf_norm_entries_agree',
    'leaf_nnls_tests', 'leaf_nnls_bounds', 'leaf_nnls_step',
    'interpolate_predict_rdm_clamps', 'interpolate_default_spec', 'default_fitter_dispatch',
    # round 4: reuse sessions
    'inputs_not_written', 'no_module_state', 'call_stateless', 'session_calls_independent',
    'session_calls_only', 'specSession_append', 'session_call_good', 'session_predictions_agree',
    # round 5: the entering threshold follows the rounding level of the products
    'leaf_nnls_tol_iter', 'nnls_tol_at_start', 'nnls_dependent_gradient_zero',
)]
RULE = ('one PRNG; kind fit: 2-4 basis RDMs x 4-7 conditions (small integers, scaled by 1/10/100, '
        'full rank on the selected entries), 1-4 training RDMs (signal = non-negative mixture of the '
        'basis + integer noise, or pure noise, or an exact copy of a basis RDM), pattern selections '
        'None / subset / bootstrap with repeats by `index` or by a label descriptor, an optional entry '
        'missing in every RDM, criteria cosine / corr / cosine_cov / corr_cov, sigma_k None / vector / '
        'SPD matrix, normalise on/off, fitters regress / regress_nn / optimize / optimize_positive / '
        'select / interpolate; competitors: random, local perturbations, unit and grid points. '
        'kind predict: all four model classes built from RDMs / vectors / matrices, theta None / '
        'index / vectors incl. negative ones, linear combinations, dict round trip. kind nnls: the '
        'active-set solver directly (V None / given). kind subsample: exact. kind session: ONE model object '
        '(or two of the same class and name) and ONE data RDMs object fitted / asked for predictions 2-6 times in '
        'succession by different fitters, criteria (centring ones first) and routes, with and without pattern '
        'indices (same index array and subsample reused), one sigma_k array refilled in place, one theta array '
        'reused, caller edits of the data in between; every call judged against the session\'s own numbers, all '
        'live objects bit-identical after every call, earlier return values intact at the end. Round 5: '
        'rank-deficient training views for regress / regress_nn under all four criteria - a draw with three distinct '
        'conditions and repeats (family fewcond; generic, nearly collinear or nearly opposite basis RDMs; `cancel`: '
        'max(|G|x) >= 1000 max|c| at the non-negative optimum), dup / nested / collinear RDMs seen through a draw with '
        'repeats, entries divided by 7 / 10 / 3 (dependencies up to rounding); nnls style rankdef. Non-trivial = the '
        'optimum is not a unit vector and the basis has >= 2 RDMs (fit) / k >= 2 (predict); '
        'distinct = distinct case contents.')
METHODS = ['cosine', 'corr', 'cosine_cov', 'corr_cov']
FITTERS = ['regress', 'regress_nn', 'optimize', 'optimize_positive', 'select', 'interpolate']
BRANCHES = (['method:' + m for m in METHODS] + ['fitter:' + f for f in FITTERS] +
            ['sigma:none', 'sigma:vec', 'sigma:mat', 'sel:none', 'sel:subset', 'sel:repeats',
             'by:index', 'by:cond', 'normalize:on', 'normalize:off', 'stack>1', 'nan:repeats',
             'nan:common', 'malformed:nan', 'scale>1', 'exact_copy', 'nn:active_constraint',
             'nn:interior', 'noninterference', 'kind:predict', 'kind:nnls', 'kind:subsample',
             'class:fixed', 'class:select', 'class:weighted', 'class:interpolate',
             'theta:none', 'theta:negative', 'form:rdms', 'form:vectors', 'form:matrices',
             'nnls:V'] + ['family:' + f_ for f_ in
                          ('nested', 'collinear', 'dup', 'zero', 'const', 'basis_is_data', 'fewcond')] +
            ['gram:singular:nn', 'gram:singular:ols', 'nn:multi_drop',
             'nnls:dup', 'nnls:nested', 'nnls:multi_drop',
             'route:Model.fit:optimize', 'route:Model.fit:select', 'route:Model.fit:interpolate',
             'objective:optimize', 'objective:optimize_positive', 'select:undefined_candidate',
             'family:anti', 'route:Fitter', 'malformed:method', 'nn:all_zero'] +
            ['view:fewcond:' + x_ for x_ in ['regress', 'regress_nn'] + METHODS] +
            ['view:repeats:' + f_ + ':' + x_ for f_ in ('dup', 'nested', 'collinear')
             for x_ in ('regress', 'regress_nn')] +
            ['view:repeats:centred', 'view:inexact:regress', 'view:inexact:regress_nn', 'view:cancel',
             'nnls:rankdef'] +
            ['kind:session'] + ['session:' + k_ for k_ in ses.SKINDS] +
            ['session:fit:' + f_ for f_ in FITTERS + ['mock']] +
            ['session:route:func', 'session:route:Fitter', 'session:route:Model.fit',
             'session:predict', 'session:predict:same-theta', 'session:no_pattern_idx', 'session:pattern_idx',
             'session:reuse-subsample', 'session:plain-after-centring', 'session:sigma:vec:refill',
             'session:sigma:mat:refill', 'session:two-models', 'session:edit:write', 'session:edit:rebind',
             'session:edit:append', 'session:class:select', 'session:class:interpolate',
             'session:class:fixed', 'session:common_nan'])
ASSUMPTIONS = [
    'IEEE evaluation of either side is within the stated tolerance of the real value (small integer '
    'inputs, n <= 7, well-conditioned sigma_k, Gram matrices of full rank with cond < 1e4)',
    'np.linalg.solve / scipy.sparse.linalg.cg return solutions of their linear systems (cg to its '
    'rtol 1e-5): theta is compared with tolerance 1e-6 (plain) / 5e-4 (whitened), scores one-sidedly',
    'fit_optimize is judged only where the optimal weights are non-negative (BFGS starts in the positive orthant; '
    'elsewhere it runs off along the scale direction); the optimisers are not judged where the guarded optimum is the '
    'zero prediction',
    'BFGS (fit_optimize*) and the bounded scalar search (fit_interpolate) are observed, not modelled: '
    'their result must never beat the proven optimum and must reach it within 1e-5 (BFGS, no '
    'sigma_k), 0.3 (BFGS with sigma_k: the loss then carries conjugate-gradient noise) or 2e-5 '
    '(bounded search) on signal-carrying data',
    'rank-deficient training views (fewer distinct entries than basis RDMs; dependent, duplicated, nested basis '
    'RDMs, exactly or up to rounding) ARE in the generated domain since round 5: the maximiser is then not '
    'unique, only scores are compared and the reference optimum is computed on independent subsets of the basis '
    '(scipy.optimize.nnls is not used there: it returns weights of 1e16 on columns that are rounding noise)',
]
TRUSTED_EXTRA = [
    'contract: np.linalg.solve(X, y) returns theta with X theta = y (hypothesis of ols_maximises; the '
    'residual of the normal equations is checked on every regress case by the oracle)',
    'contract: scipy.sparse.linalg.cg(V, b) returns V^-1 b (driver: Gauss-Jordan)',
    'contract: scipy.optimize.minimize_scalar(bounded) returns a point of [0,1] minimising the loss on '
    'that segment (hypothesis of interpolate_best_of_segments; checked one-sidedly against a grid)',
]

EPS = float(np.finfo(float).eps)      # the model forms 100 * eps * max|c| (leaf nnlsTol)
TIMEOUT_S = 1.0

_fit = importlib.import_module('rsatoolbox.model.fitter')
_mod = importlib.import_module('rsatoolbox.model.model')


# ------------------------------------------------------------------ helpers

def _fl(v):
    return float(unrat(v))


def _rows(stack):
    return [[_fl(v) for v in r] for r in stack]


def _sigma_np(sig):
    if sig is None:
        return None
    if 'vec' in sig:
        return np.array([_fl(v) for v in sig['vec']], dtype=float)
    return np.array([[_fl(v) for v in r] for r in sig['mat']], dtype=float)


def _sigma_wire(sig):
    if sig is None:
        return None
    if 'vec' in sig:
        return [fbits(_fl(v)) for v in sig['vec']]
    return [[fbits(_fl(v)) for v in r] for r in sig['mat']]


def sigma_kind(sig):
    if sig is None:
        return 'none'
    return 'vec' if 'vec' in sig else 'mat'


def _key(case):
    return hashlib.sha1(json.dumps(case, sort_keys=True, default=str).encode()).hexdigest()


class _Timeout(Exception):
    pass


def _alarm(*_a):
    raise _Timeout()


def _guarded(fn, seconds=TIMEOUT_S):
    """run fn(); library exceptions -> {'exc': name}; non-termination -> {'exc': 'Timeout'}"""
    old = signal.signal(signal.SIGALRM, _alarm)
    signal.setitimer(signal.ITIMER_REAL, seconds)
    try:
        with warnings.catch_warnings():
            warnings.simplefilter('ignore')
            with np.errstate(all='ignore'):
                return fn()
    except _Timeout:
        return {'exc': 'Timeout'}
    except (ValueError, TypeError, AssertionError, IndexError, ZeroDivisionError,
            np.linalg.LinAlgError, AttributeError, KeyError, NameError) as exc:
        return {'exc': type(exc).__name__}
    finally:
        signal.setitimer(signal.ITIMER_REAL, 0)
        signal.signal(signal.SIGALRM, old)


def _by(case):
    return 'index' if case['by'] == 'index' else 'cond'


def _desc_for(case):
    """labels the selection refers to"""
    return list(range(case['n'])) if case['by'] == 'index' else list(case['desc'])


def _rdms(case, rows):
    from rsatoolbox.rdm import RDMs
    return RDMs(np.array(rows, dtype=float),
                pattern_descriptors={'cond': np.array(case['desc'])})


def _data_sub_py(case, data_rows=None):
    """the training RDMs on the selected conditions, computed by the harness itself"""
    rows = _rows(case['data']) if data_rows is None else data_rows
    if case['value'] is None:
        out = [list(r) for r in rows]
    else:
        sel = orc.positions(_desc_for(case), case['value'])
        out = [orc.sub_vec(case['n'], sel, np.array(r)).tolist() for r in rows]
    if case.get('malformed'):
        out = [list(r) for r in out]
        k = next(i for i, v in enumerate(out[0]) if not math.isnan(v))
        out[0][k] = float('nan')
    return out


def _apply_common_nan(case, rows):
    """an entry missing in every RDM (basis and data)"""
    if case.get('common_nan') is None:
        return rows
    rows = [list(r) for r in rows]
    for r in rows:
        r[case['common_nan']] = float('nan')
    return rows


def _model_obj(case, basis_rows):
    cls = {'select': _mod.ModelSelect, 'interpolate': _mod.ModelInterpolate}.get(
        case['fitter'], _mod.ModelWeighted)
    return cls('m', _rdms(case, _apply_common_nan(case, basis_rows)))


def _loss_points(case):
    """points at which the objective handed to scipy is compared with the model's"""
    rng = random.Random(case['cseed'] + 17)
    k = len(case['basis'])
    pts = [[rng.choice([-1.5, -0.5, 0.25, 0.5, 1.0, 2.0]) for _ in range(k)] for _ in range(3)]
    return pts, 0.0 if rng.random() < 0.5 else rng.choice([0.5, 2.0])


def _lib_losses(case):
    """values of the closure `_loss_opt` of fit_optimize / fit_optimize_positive (rebuilt here
    from the library's `_loss`, with the reparametrisation the fitter's source applies)"""
    model = _model_obj(case, _rows(case['basis']))
    full = _rdms(case, _apply_common_nan(case, _rows(case['data'])))
    kw = {}
    data = full
    if case['value'] is not None:
        data = full.subsample_pattern(_by(case), np.array(case['value']))
        kw = {'pattern_idx': np.array(case['value']), 'pattern_descriptor': _by(case)}
    pts, ridge = _loss_points(case)
    positive = case['fitter'] == 'optimize_positive'

    def one(t):
        th = np.array(t, dtype=float)
        return float(_fit._loss(th ** 2 if positive else th, model, data, method=case['method'],
                                sigma_k=_sigma_np(case['sigma']), ridge_weight=ridge, **kw))
    out = []
    for t in pts:
        v = _guarded(lambda: one(t))
        out.append(None if isinstance(v, dict) or math.isnan(v) else v)
    return out


def _call_fit(case, basis_rows, data_rows, seed=0, via_fit=False):
    """the real fitter call; returns theta as list / int or {'exc': ...}"""
    from rsatoolbox.rdm import RDMs
    model = _model_obj(case, basis_rows)
    full = _rdms(case, _apply_common_nan(case, data_rows))
    if case['value'] is None:
        data = full
        kw = {}
    else:
        data = full.subsample_pattern(_by(case), np.array(case['value']))
        kw = {'pattern_idx': np.array(case['value']), 'pattern_descriptor': _by(case)}
    if case.get('malformed'):
        d = data.dissimilarities.copy()
        k = next(i for i, v in enumerate(d[0]) if not math.isnan(v))
        d[0, k] = np.nan
        data = RDMs(d, pattern_descriptors=data.pattern_descriptors)
    f = {'regress': _fit.fit_regress, 'regress_nn': _fit.fit_regress_nn,
         'optimize': _fit.fit_optimize, 'optimize_positive': _fit.fit_optimize_positive,
         'select': _fit.fit_select, 'interpolate': _fit.fit_interpolate}[case['fitter']]
    if case['fitter'] in ('regress', 'regress_nn', 'optimize', 'optimize_positive'):
        kw['normalize'] = bool(case['normalize'])
    np.random.seed(seed)

    def go():
        if via_fit:
            kw2 = {k_: v_ for k_, v_ in kw.items() if k_ != 'normalize'}
            th = model.fit(data, method=case['method'], sigma_k=_sigma_np(case['sigma']), **kw2)
        elif case.get('via') == 'Fitter':
            settings = {k_: v_ for k_, v_ in kw.items() if k_ in ('normalize',)}
            settings['sigma_k'] = _sigma_np(case['sigma'])
            rest = {k_: v_ for k_, v_ in kw.items() if k_ not in settings}
            th = _fit.Fitter(f, **settings)(model, data, method=case.get('bad_method') or case['method'], **rest)
        else:
            th = f(model, data, method=case.get('bad_method') or case['method'],
                   sigma_k=_sigma_np(case['sigma']), **kw)
        if case['fitter'] == 'select':
            return int(th)
        return [float(v) for v in np.asarray(th, dtype=float).reshape(-1)]

    def lib_score(th):
        from rsatoolbox.rdm import compare
        pred = model.predict_rdm(th if case['fitter'] == 'select' else np.array(th))
        if case['value'] is not None:
            pred = pred.subsample_pattern(_by(case), np.array(case['value']))
        return float(np.mean(compare(pred, data, method=case['method'],
                                     sigma_k=_sigma_np(case['sigma']))))
    th = _guarded(go, 120.0 if case['fitter'].startswith('optimize') else TIMEOUT_S)
    if isinstance(th, dict):
        return th, None
    sc = _guarded(lambda: lib_score(th))
    return th, (None if isinstance(sc, dict) or (isinstance(sc, float) and math.isnan(sc)) else sc)


def _perturbed(case, rows, bump):
    """change every entry that involves a condition outside the selection"""
    n = case['n']
    sel = set(orc.positions(_desc_for(case), case['value']))
    out = [list(r) for r in rows]
    for r in out:
        for (i, j) in orc.tri_pairs(n):
            if i not in sel or j not in sel:
                r[orc.tri_pos(n, i, j)] += bump
    return out


def _has_unselected(case):
    if case['value'] is None:
        return False
    return len(set(orc.positions(_desc_for(case), case['value']))) < case['n']


# ------------------------------------------------------------------ generation

def _sigma(rng, n, kind):
    if kind == 'none':
        return None
    if kind == 'vec':
        while True:
            v = [rng.choice(['1/2', 1, '3/2', 2, 3]) for _ in range(n)]
            if len(set(map(str, v))) > 1:
                return {'vec': v}
    b = [[rng.randint(-2, 2) for _ in range(n)] for _ in range(n)]
    m = [[rat(F(sum(b[i][k] * b[j][k] for k in range(n)), 4) + (1 if i == j else 0))
          for j in range(n)] for i in range(n)]
    return {'mat': m}


def _selection(rng, n, desc, by, style):
    labels = list(range(n)) if by == 'index' else sorted(set(desc))
    if style == 'none':
        return None
    if style == 'subset':
        k = rng.randint(min(4, len(labels)), len(labels))
        v = rng.sample(labels, k)
        return v
    if style == 'few':
        # round 5: a bootstrap-like draw with only THREE distinct conditions (3 distinct entries, each
        # possibly several times; pairs of a condition with itself are NaN): the training view of k >= 4
        # basis RDMs (k >= 3 after mean removal) is rank-deficient whatever the RDMs are
        v = rng.sample(labels, 3)
        v += [rng.choice(v) for _ in range(rng.randint(1, 3))]
        rng.shuffle(v)
        return v
    while True:
        v = [rng.choice(labels) for _ in range(len(labels) + rng.randint(0, 2))]
        if len(set(v)) >= min(3, len(labels)) and len(set(v)) < len(v):
            return v


FAMILIES = ['nested', 'collinear', 'dup', 'zero', 'const', 'basis_is_data', 'anti', 'fewcond']


def _family_rows(rng, family, k, m, r, positive_signal=False, cancel=False):
    """structured basis sets (small integers, so linear dependencies are exact):
      nested        one RDM = 3/10 * (sum of the others) + a small part of its own, data explained by
                    that RDM minus a bit of the others (the active-set solver takes the others in
                    first and must then drop several of them in one go); full rank, ill-conditioned
      collinear     one RDM = 3/10 * (sum of the others) exactly (Gram matrix of rank k-1)
      dup           one RDM occurs twice
      zero          one RDM is all zero
      const         one RDM is constant (= zero for the correlation criteria)
      basis_is_data the training RDMs are the basis RDMs themselves
    """
    if family == 'fewcond':
        # generic RDMs (optionally two nearly collinear ones: large weights of opposite effect, so that the
        # products |ATA| x are far larger than A^T y); the rank deficiency comes from the selection
        basis = [[rng.randint(0, 8) for _ in range(m)] for _ in range(k)]
        u = 0.5 if cancel else rng.random()
        if k >= 3 and u < 0.3:
            i, j = rng.sample(range(k), 2)
            basis[j] = [3 * basis[i][e] + rng.choice([-1, 0, 0, 1]) for e in range(m)]
        elif k >= 3 and u < 0.75:
            # two RDMs that are nearly OPPOSITE after mean removal, data along their small difference: both get
            # large positive weights whose effects cancel (|ATA| x is 10-1000 times A^T y - the situation in
            # which the gradient of a dependent third RDM is rounding noise far above 100 eps max|A^T y|)
            i, j = rng.sample(range(k), 2)
            f_ = rng.choice([1, 2, 3])
            s_ = rng.choice([10, 30, 100]) if cancel else rng.choice([1, 3, 10])
            delta = [rng.choice([-1, 0, 0, 1]) for _ in range(m)]
            basis[i] = [s_ * v for v in basis[i]]
            basis[j] = [f_ * (8 * s_ - basis[i][e]) + delta[e] + 1 for e in range(m)]
            g_ = rng.choice([1, 2, 3])
            data = [[6 + g_ * delta[e] + (0 if cancel else rng.choice([0, 0, 0, 1])) for e in range(m)]
                    for _ in range(r)]
            return basis, data
        th = [rng.choice([0, 1, 1, 2, 3]) for _ in range(k)]
        if rng.random() < 0.3 and not positive_signal:
            th = [rng.choice([-2, -1, 1, 2, 3]) for _ in range(k)]
        if sum(abs(t) for t in th) == 0:
            th[0] = 1
        if rng.random() < 0.3:
            data = [[rng.randint(0, 9) for _ in range(m)] for _ in range(r)]
        else:
            data = [[sum(th[i] * basis[i][e] for i in range(k)) + rng.randint(-2, 2) + 6 for e in range(m)]
                    for _ in range(r)]
        return basis, data
    parts = [[rng.randint(0, 5) for _ in range(m)] for _ in range(k - 1)]
    tot = [sum(p[e] for p in parts) for e in range(m)]
    own = [rng.randint(0, 2) for _ in range(m)]
    pos = rng.randrange(k)
    if family == 'nested':
        basis = [[10 * v for v in p] for p in parts]
        c = [3 * tot[e] + 2 * own[e] for e in range(m)]
        basis.insert(pos, c)
        p_, q_ = rng.choice([(10, 9), (10, 9), (8, 6), (12, 10), (10, 3)])
        data = [[p_ * c[e] - q_ * tot[e] + rng.randint(0, 1) for e in range(m)] for _ in range(r)]
        return basis, data
    if family == 'collinear':
        basis = [[10 * v for v in p] for p in parts]
        basis.insert(pos, [3 * v for v in tot])
    elif family == 'dup':
        basis = [list(p) for p in parts]
        basis.insert(pos, list(parts[rng.randrange(k - 1)]))
    elif family == 'zero':
        basis = [list(p) for p in parts]
        basis.insert(pos, [0] * m)
    elif family == 'const':
        basis = [list(p) for p in parts]
        basis.insert(pos, [rng.randint(1, 3)] * m)
    elif family == 'anti':
        # every basis RDM is negatively correlated with the data: the non-negative optimum is theta = 0
        basis = [list(p) for p in parts] + [[rng.randint(0, 5) for _ in range(m)]]
        tot2 = [sum(b[e] for b in basis) for e in range(m)]
        data = [[6 * k + 3 - 2 * tot2[e] + rng.randint(0, 1) for e in range(m)] for _ in range(r)]
        return basis, data
    else:   # basis_is_data
        basis = [list(p) for p in parts] + [[rng.randint(0, 5) for _ in range(m)]]
        return basis, [list(b) for b in basis][:max(1, min(r, k))]
    th = [rng.choice([0, 1, 1, 2, 3]) for _ in range(k)]
    if rng.random() < 0.3 and not positive_signal:
        th = [rng.choice([-2, -1, 1, 2, 3]) for _ in range(k)]
    if sum(abs(t) for t in th) == 0:
        th[0] = 1
    data = [[sum(th[i] * basis[i][e] for i in range(k)) + rng.randint(-2, 2) + 6 for e in range(m)]
            for _ in range(r)]
    return basis, data


def _fit_case(rng, fitter, method, tier, small=False, malformed=False, family=None, multi_drop=False,
              via_fit=False, undefined_candidate=False, inexact=False, repeats=False, cancel=False):
    """round 5: `family='fewcond'` = rank deficiency produced by the pattern selection (three distinct
    conditions, repeats); `inexact` = every RDM entry divided by 7 / 10 / 3 (no longer exactly representable:
    a linear dependency then holds only up to rounding, centring rounds differently per RDM); `repeats` =
    the selection is a draw with repeats (duplicated rows in the training view); `cancel` (fewcond, centring
    criteria) = the non-negative optimum has large weights of opposite effect: max(|G| x) >= 1000 max|c| at the
    optimum computed by the harness's own enumeration - there the rounding noise in the gradient of a dependent
    RDM is far above 100 eps max|c|"""
    for _attempt in range(400):
        n = rng.randint(4, 5 if small else (6 if tier == 'quick' else 7))
        m = n * (n - 1) // 2
        k = rng.randint(2, 3 if small else 4)
        if fitter == 'interpolate':
            k = rng.randint(2, 4)
        if family is not None:
            k = rng.randint(3, 5 if family == 'nested' and not small else 4)
        if family == 'fewcond':
            k = rng.randint(3, 4) if method.startswith('corr') else rng.randint(4, 5)
        by = rng.choice(['index', 'cond', 'cond'])
        desc = rng.sample(range(1, 3 * n), n)
        if by == 'cond' and rng.random() < 0.15:
            desc[rng.randrange(1, n)] = desc[0]          # two conditions share a label
        style = rng.choice(['none', 'subset', 'repeats', 'repeats'])
        if repeats:
            style = 'repeats'
        if family == 'fewcond':
            style = 'few'
        value = _selection(rng, n, desc, by, style)
        scale = rng.choice([1, 1, 1, 10, 100]) if fitter in ('regress', 'regress_nn') else 1
        basis = [[rng.randint(0, 5) * scale for _ in range(m)] for _ in range(k)]
        dstyle = rng.choice(['signal', 'signal', 'signal', 'noise', 'copy'])
        if fitter in ('optimize', 'optimize_positive', 'interpolate', 'select'):
            dstyle = 'signal'
        r = rng.choice([1, 2, 2, 3, 4])
        if family is not None:
            scale = 1
            dstyle = 'family'
            # the optimisers (and the scalar search) are observed on data with a positive optimum only
            basis, data = _family_rows(rng, family, k, m, r,
                                       positive_signal=fitter in ('optimize', 'optimize_positive', 'interpolate'),
                                       cancel=cancel)
        elif dstyle == 'signal':
            th = [rng.choice([0, 1, 1, 2, 3]) for _ in range(k)]
            if fitter == 'interpolate':
                i = rng.randrange(k - 1)
                th = [0] * k
                th[i], th[i + 1] = rng.choice([(1, 3), (2, 2), (3, 1), (4, 0), (0, 4)])
            if fitter == 'regress' and rng.random() < 0.4:
                th = [rng.choice([-2, -1, 1, 2, 3]) for _ in range(k)]
            if sum(abs(t) for t in th) == 0:
                th[0] = 1
            data = [[sum(th[i] * basis[i][e] for i in range(k)) + rng.randint(-2, 2) * scale + 6 * scale
                     for e in range(m)] for _ in range(r)]
        elif dstyle == 'noise':
            data = [[rng.randint(0, 6) for _ in range(m)] for _ in range(r)]
        else:
            i = rng.randrange(k)
            data = [list(basis[i])] + [[basis[i][e] + rng.randint(0, 1) for e in range(m)]
                                       for _ in range(r - 1)]
            if rng.random() < 0.5:
                data = data[:1]
        if r > 1 and rng.random() < 0.6:
            # the criteria do not depend on the scale of a training RDM
            fac = [rng.choice([1, 1, 3, 10]) for _ in range(r)]
            data = [[v * fac[i] for v in row] for i, row in enumerate(data[:r])] + data[r:]
        if inexact:
            q = rng.choice([7, 10, 3])
            basis = [[rat(F(v, q)) for v in row] for row in basis]
            if rng.random() < 0.5:
                data = [[rat(F(v, q)) for v in row] for row in data]
        case = {'kind': 'fit', 'fitter': fitter, 'method': method, 'n': n, 'desc': desc, 'by': by,
                'value': value, 'basis': basis, 'data': data, 'sigma': None,
                'normalize': rng.random() < 0.6, 'scale': scale, 'dstyle': dstyle,
                'common_nan': None, 'malformed': False, 'cseed': rng.randint(0, 10 ** 6)}
        if family is not None:
            case['family'] = family
        if inexact:
            case['inexact'] = True
        if cancel:
            case['cancel'] = True
        if via_fit:
            # the public route: Model.fit -> default fitter of the class (normalize at its default)
            case['via'] = 'fit'
            case['normalize'] = True
        elif fitter in ('regress', 'regress_nn') and rng.random() < 0.25:
            # the public route: a Fitter object carrying the settings
            case['via'] = 'Fitter'
        nsub = len(orc.positions(_desc_for(case), value))
        if method.endswith('_cov'):
            case['sigma'] = _sigma(rng, nsub, rng.choice(['none', 'vec', 'mat', 'mat']))
            if undefined_candidate:
                # with a given sigma_k the whitened similarity of a zero vector is 0/0 in the library
                case['sigma'] = _sigma(rng, nsub, rng.choice(['vec', 'mat']))
        if rng.random() < 0.12:
            case['common_nan'] = rng.randrange(m)
        if malformed:
            case['malformed'] = True
        if _well_posed(case):
            if multi_drop and _structure(case)['maxdrop'] < 2:
                continue        # wanted: several coefficients leave the passive set in one go
            if family == 'anti' and float(np.max(_problem(case).best_nonneg()[0])) > 0:
                continue        # wanted: the constrained optimum is theta = 0
            if cancel and _cancellation(case) < 1000:
                continue        # wanted: products far larger than the right-hand side
            return case
    raise RuntimeError('no well-posed case found')


def _problem(case, basis_rows=None, data_rows=None):
    b = _apply_common_nan(case, _rows(case['basis']) if basis_rows is None else basis_rows)
    d = _apply_common_nan(case, _rows(case['data']) if data_rows is None else data_rows)
    return orc.Problem(case['n'], _desc_for(case), case['value'], b,
                       _data_sub_py(case, d), case['method'], _sigma_np(case['sigma']))


def _cancellation(case):
    """max(|G| x) / max|c| at the non-negative optimum x of the training problem (own enumeration)"""
    pr = _problem(dict(case, malformed=False))
    if not (pr.masks_agree and pr.data_ok):
        return 0.0
    g = pr.A @ pr.W @ pr.A.T
    c = pr.A @ pr.W @ pr.t
    l_ = np.linalg.cholesky(pr.W)
    x = orc.nnls_bruteforce(l_.T @ pr.A.T, l_.T @ pr.t)
    return float(np.max(np.abs(g) @ x) / max(float(np.max(np.abs(c))), 1e-300))


_STRUCT_CACHE = {}


def _structure(case, pr=None):
    """rank structure of the training problem on the selected, commonly present entries:
    a maximal independent subset of the basis RDMs (in the criterion's inner product, i.e.
    after mean removal for the correlation criteria), whether the weights are (numerically)
    not unique, and the largest number of coefficients the active-set method has to drop in
    one outer iteration (own replica of the method, used for coverage tags only)"""
    key = _key(dict(case, malformed=False))
    if key in _STRUCT_CACHE:
        return _STRUCT_CACHE[key]
    if pr is None:
        pr = _problem(dict(case, malformed=False))
    out = {'indep': list(range(len(case['basis']))), 'degenerate': False, 'rank_deficient': False,
           'maxdrop': 0, 'cond': 1.0}
    if pr.masks_agree and pr.data_ok:
        g = pr.A @ pr.W @ pr.A.T
        sc = max(float(np.max(np.abs(np.diag(g)))), 1e-300)
        keep = []
        for i in range(g.shape[0]):
            sub = g[np.ix_(keep + [i], keep + [i])]
            if g[i, i] > 1e-12 * sc and np.linalg.matrix_rank(sub, tol=1e-9 * sc) == len(keep) + 1:
                keep.append(i)
        out['indep'] = keep
        out['rank_deficient'] = len(keep) < g.shape[0]
        out['cond'] = float(np.linalg.cond(g[np.ix_(keep, keep)])) if keep else 1.0
        out['degenerate'] = out['rank_deficient'] or out['cond'] > 1e4
        out['maxdrop'] = orc.active_set_maxdrop(g, pr.A @ pr.W @ pr.t)
    _STRUCT_CACHE[key] = out
    return out


def _well_posed(case):
    c = dict(case, malformed=False)
    with np.errstate(all='ignore'):
        try:
            pr = _problem(c)
        except np.linalg.LinAlgError:
            return False
    if not pr.masks_agree or not pr.data_ok:
        return False
    if pr.A.shape[1] < (3 if case.get('family') == 'fewcond' else pr.A.shape[0] + 2):
        return False
    g = pr.A @ pr.W @ pr.A.T
    if case.get('family') is None:
        if np.linalg.matrix_rank(g) < g.shape[0] or np.linalg.cond(g) > 1e4:
            return False
    else:
        # structured families: the Gram matrix may be singular / ill-conditioned; the
        # independent part must still be a decent problem of at least two RDMs
        st = _structure(case, pr)
        if len(st['indep']) < 2 or st['cond'] > 1e7:
            return False
        if case['family'] in ('collinear', 'dup', 'zero', 'fewcond') and not st['rank_deficient']:
            return False
        if case['family'] == 'const' and case['method'].startswith('corr') and not st['rank_deficient']:
            return False
    if case['fitter'] in ('select', 'interpolate', 'optimize', 'optimize_positive'):
        # a clear winner: the optimum must not be a near-tie (arg-max / optimiser stability)
        if case['fitter'] == 'select' and case.get('family') is None:
            ev = sorted(pr.best_single())
            if ev[-1] - ev[-2] < 1e-6:
                return False
    return True


def _predict_case(rng, tier):
    cls = rng.choice(['fixed', 'select', 'weighted', 'weighted', 'interpolate', 'interpolate'])
    n = rng.randint(3, 6)
    m = n * (n - 1) // 2
    k = 1 if cls == 'fixed' else rng.randint(2, 4)
    basis = [[rng.randint(0, 9) for _ in range(m)] for _ in range(k)]
    form = rng.choice(['rdms', 'rdms', 'vectors', 'matrices'])
    desc = rng.sample(range(1, 3 * n), n)

    def theta():
        return [rat(F(rng.randint(-8, 12), 4)) for _ in range(k)]
    params = []
    if cls == 'select':
        params = [None] + [rng.randrange(k) for _ in range(2)]
    elif cls == 'fixed':
        params = [None, [1]]
    else:
        t1, t2 = theta(), theta()
        a, b = rat(F(rng.randint(-4, 6), 2)), rat(F(rng.randint(-4, 6), 2))
        comb = [rat(unrat(a) * unrat(x) + unrat(b) * unrat(y)) for x, y in zip(t1, t2)]
        pos = [rat(abs(unrat(x))) for x in theta()]
        params = [None, t1, t2, comb, pos]
        return {'kind': 'predict', 'cls': cls, 'n': n, 'basis': basis, 'form': form, 'desc': desc,
                'params': params, 'lin': [a, b]}
    return {'kind': 'predict', 'cls': cls, 'n': n, 'basis': basis, 'form': form, 'desc': desc,
            'params': params, 'lin': None}


def _nnls_case(rng, tier, want_multi_drop=False):
    while True:
        if want_multi_drop:
            c = _nnls_case(rng, tier)
            if c.get('style') != 'nested' or c['sigma'] is not None:
                continue
            a_ = np.array(_rows(c['rows']), dtype=float)
            y_ = np.array([_fl(v) for v in c['y']], dtype=float)
            if orc.active_set_maxdrop(a_ @ a_.T, a_ @ y_) >= 2:
                return c
            continue
        k = rng.randint(2, 4)
        n = rng.randint(4, 5)
        m = n * (n - 1) // 2
        rows = [[rng.randint(-2, 5) for _ in range(m)] for _ in range(k)]
        style = rng.choice(['noise', 'mix', 'neg', 'nested', 'dup', 'rankdef'])
        if style == 'rankdef':
            # round 5: the regressors as fit_regress_nn forms them from a training view with three distinct
            # conditions: rows over all n conditions restricted (with repeats) to the draw, mean removed in
            # floating point; handed over bit-exactly (dyadic rationals).  Rank <= 2 with k = 3, 4 regressors.
            k = rng.randint(3, 4)
            q = rng.choice([1, 1, 7, 10])
            full = [[rng.randint(0, 8) / q for _ in range(m)] for _ in range(k)]
            if rng.random() < 0.6:
                full[1] = [3 * full[0][e] + rng.choice([-1, 0, 0, 1]) / q for e in range(m)]
            sel = sorted(_selection(rng, n, list(range(n)), 'index', 'few'))
            sub = [orc.sub_vec(n, sel, np.array(r)) for r in full]
            sub = [r[~np.isnan(r)] for r in sub]
            sub = [r - np.mean(r) for r in sub]
            th = [rng.choice([0, 1, 2]) for _ in range(k)]
            yv = sum(t * r for t, r in zip(th, sub)) + np.array([rng.randint(-1, 1) for _ in sub[0]], dtype=float)
            yv = (yv - yv.min()) / max(float(np.ptp(yv)), 1.0) + 0.01
            if np.linalg.matrix_rank(np.array(sub), tol=1e-9 * max(float(np.max(np.abs(sub))), 1e-300)) < 2:
                continue
            return {'kind': 'nnls', 'n': n, 'rows': [[rat(F(float(v))) for v in r] for r in sub],
                    'y': [rat(F(float(v))) for v in yv], 'sigma': None, 'style': 'rankdef'}
        if style == 'nested' and k >= 3:
            rows, ys = _family_rows(rng, 'nested', k, m, 1)
            y = ys[0]
        elif style == 'dup':
            rows[rng.randrange(1, k)] = list(rows[0])
            y = [rows[0][e] + rng.randint(-1, 2) for e in range(m)]
        elif style == 'noise':
            y = [rng.randint(-2, 5) for _ in range(m)]
        elif style == 'mix':
            th = [rng.choice([0, 1, 2]) for _ in range(k)]
            y = [sum(th[i] * rows[i][e] for i in range(k)) + rng.randint(-1, 1) for e in range(m)]
        else:
            y = [-rng.randint(0, 4) for _ in range(m)]
        sig = _sigma(rng, n, rng.choice(['none', 'none', 'mat', 'vec']))
        a = np.array(rows, dtype=float)
        if style == 'dup' or (np.linalg.matrix_rank(a) == k and
                              np.linalg.cond(a @ a.T) < (1e7 if style == 'nested' else 1e4)):
            return {'kind': 'nnls', 'n': n, 'rows': rows, 'y': y, 'sigma': sig, 'style': style}


def _subsample_case(rng, tier):
    n = rng.randint(2, 7)
    m = n * (n - 1) // 2
    by = rng.choice(['index', 'cond'])
    desc = rng.sample(range(1, 3 * n), n)
    if by == 'cond' and n > 2 and rng.random() < 0.3:
        desc[rng.randrange(1, n)] = desc[0]
    labels = list(range(n)) if by == 'index' else desc
    value = [rng.choice(labels) for _ in range(rng.randint(1, n + 2))]
    if rng.random() < 0.15:
        value.append(99)            # a label nobody carries
    return {'kind': 'subsample', 'n': n, 'by': by, 'desc': desc, 'value': value,
            'v': [100 + e for e in range(m)]}


FAMILY_PLAN = [            # (fitter, family, repetitions in the quick tier)
    ('regress_nn', 'nested', 6), ('regress_nn', 'collinear', 3), ('regress_nn', 'dup', 3),
    ('regress_nn', 'zero', 2), ('regress_nn', 'const', 2), ('regress_nn', 'basis_is_data', 2),
    ('regress_nn', 'anti', 2), ('regress', 'nested', 2), ('regress', 'collinear', 2), ('regress', 'dup', 2), ('regress', 'zero', 2),
    ('regress', 'const', 2), ('regress', 'basis_is_data', 2),
    ('select', 'dup', 1), ('select', 'zero', 3), ('select', 'const', 2),
    ('interpolate', 'dup', 1), ('interpolate', 'zero', 1),
    ('interpolate', 'const', 1), ('optimize_positive', 'dup', 1), ('optimize', 'zero', 1),
]
# round 5: rank-deficient TRAINING VIEWS - (fitter, family, repetitions in the quick tier); every entry is
# generated for all four criteria in turn; `fewcond` = three distinct conditions in the draw; the structured
# families come with a draw with repeats (duplicated rows) and entries that are not exactly representable, so
# that the dependency survives mean removal only up to rounding
VIEW_PLAN = [
    ('regress_nn', 'fewcond', 16), ('regress', 'fewcond', 8),
    ('regress_nn', 'dup', 4), ('regress_nn', 'nested', 4), ('regress_nn', 'collinear', 4),
    ('regress', 'dup', 4), ('regress', 'nested', 4), ('regress', 'collinear', 4),
]


def generate(rng, tier):
    quick = tier == 'quick'
    reps = {'regress': 8, 'regress_nn': 8, 'optimize': 2, 'optimize_positive': 2,
            'select': 3, 'interpolate': 3}
    mult = 1 if quick else 12
    for fitter in FITTERS:
        for i in range(reps[fitter] * mult):
            for method in METHODS:
                yield _fit_case(rng, fitter, method, tier, via_fit=(fitter == 'optimize' and i % 2 == 1))
    j = 0
    for fitter, family, rep in FAMILY_PLAN:
        for _ in range(rep * (1 if quick else 10)):
            j += 1
            und = fitter == 'select' and family in ('zero', 'const') and j % 2 == 0
            if family == 'anti':
                yield _fit_case(rng, fitter, ('corr', 'corr_cov')[j % 2], tier, family=family)
                continue
            yield _fit_case(rng, fitter, ('cosine_cov', 'corr_cov')[(j // 2) % 2] if und else METHODS[j % 4], tier,
                            family=family, undefined_candidate=und,
                            multi_drop=(fitter == 'regress_nn' and family == 'nested' and j % 3 != 0))
    j = 0
    for fitter, family, rep in VIEW_PLAN:
        for _ in range(rep * (1 if quick else 10)):
            j += 1
            yield _fit_case(rng, fitter, METHODS[j % 4], tier, family=family, repeats=True,
                            inexact=(j // 4) % 2 == 0)
    for j in range(24 if quick else 240):
        # ... and with heavy cancellation at the optimum (centring criteria): the case behind the round-5 defect
        yield _fit_case(rng, 'regress_nn', ('corr', 'corr_cov')[j % 2], tier, family='fewcond', repeats=True,
                        inexact=j % 4 < 2, cancel=True)
    for k in range(2 if quick else 20):
        # a criterion the regression fitters do not support (pool_rdm knows it): ValueError
        c = _fit_case(rng, ('regress', 'regress_nn')[k % 2], 'cosine', tier)
        c['bad_method'] = ('spearman', 'euclid', 'tau-a', 'rho-a')[k % 4]
        yield c
    for k in range(3 if quick else 40):
        # malformed stream: a training RDM lacks an entry the model has
        yield _fit_case(rng, ('regress', 'regress_nn')[k % 2], METHODS[k % 4], tier, malformed=True)
    for _ in range(60 if quick else 1200):
        yield _predict_case(rng, tier)
    for i in range(60 if quick else 1500):
        yield _nnls_case(rng, tier, want_multi_drop=(i % 20 == 0))
    for _ in range(40 if quick else 800):
        yield _subsample_case(rng, tier)
    # round 4: reuse sessions (state that survives a call)
    yield from ses.generate(rng, tier)


def search(rng, tier):
    """failing-input search: small problems first, closed-form fitters and predictions mostly"""
    k = 0
    while True:
        k += 1
        if k % 3 == 0:
            # state that survives a call shows only when objects are used again
            yield ses.search(rng, k // 3 - 1)
            continue
        r = k % 10
        fam = FAMILIES[(k // 10) % len(FAMILIES)] if (k // 5) % 2 else None
        view = dict(repeats=True, inexact=(k // 20) % 2 == 0) if fam in ('fewcond', 'dup', 'nested', 'collinear') \
            and (k // 40) % 2 == 0 else {}
        if r < 3:
            yield _fit_case(rng, 'regress', METHODS[k % 4], 'quick', small=k < 200, family=fam, **view)
        elif r < 6:
            if fam == 'fewcond' and view and r == 5:
                view = dict(view, cancel=True)
            yield _fit_case(rng, 'regress_nn', ('corr', 'corr_cov')[k % 2] if view.get('cancel') else METHODS[k % 4],
                            'quick', small=k < 200, family=fam, **view)
        elif r == 6:
            yield _fit_case(rng, rng.choice(['select', 'interpolate']), METHODS[k % 4], 'quick', small=True)
        elif r == 7:
            yield _predict_case(rng, 'quick')
        elif r == 8:
            yield _nnls_case(rng, 'quick')
        else:
            yield _fit_case(rng, rng.choice(['optimize', 'optimize_positive']), METHODS[k % 4], 'quick',
                            small=True)


# ------------------------------------------------------------------ implementation side

_IMPL_CACHE = {}


def _predict_impl(case):
    from rsatoolbox.rdm import RDMs
    from scipy.spatial.distance import squareform
    basis = np.array(_rows(case['basis']), dtype=float)
    cls = {'fixed': _mod.ModelFixed, 'select': _mod.ModelSelect, 'weighted': _mod.ModelWeighted,
           'interpolate': _mod.ModelInterpolate}[case['cls']]

    def build():
        if case['form'] == 'rdms':
            return cls('m', RDMs(basis.copy(), pattern_descriptors={'cond': np.array(case['desc'])}))
        if case['form'] == 'vectors':
            return cls('m', basis[0].copy() if case['cls'] == 'fixed' else basis.copy())
        mats = np.array([squareform(b) for b in basis])
        return cls('m', mats[0] if case['cls'] == 'fixed' else mats)

    def desc_of(r):
        return {str(k): [int(x) if float(x) == int(x) else float(x) for x in np.asarray(v).tolist()]
                for k, v in r.pattern_descriptors.items()}

    def one(model, p):
        th = p if (p is None or isinstance(p, int)) else np.array([_fl(v) for v in p])
        args = () if p is None else (th,)
        v = _guarded(lambda: [rat(F(float(x))) for x in np.asarray(model.predict(*args)).reshape(-1)])
        r = _guarded(lambda: model.predict_rdm(*args))
        if isinstance(r, dict):
            return {'vec': v, 'rdm': r, 'desc': r}
        return {'vec': v,
                'rdm': [[rat(F(float(x))) for x in row] for row in r.get_vectors().tolist()],
                'desc': desc_of(r)}
    m1 = _guarded(build)
    if isinstance(m1, dict):
        return m1
    m2 = _guarded(lambda: _mod.model_from_dict(m1.to_dict()))
    out = {'direct': [one(m1, p) for p in case['params']],
           'dict': m2 if isinstance(m2, dict) else [one(m2, p) for p in case['params']],
           'type': type(m1).__name__,
           'type2': m2 if isinstance(m2, dict) else type(m2).__name__,
           'default_fitter': getattr(m1.default_fitter, '__name__', str(m1.default_fitter)),
           'default_fitter2': None if isinstance(m2, dict) else
           getattr(m2.default_fitter, '__name__', str(m2.default_fitter)),
           'n_param': int(m1.n_param),
           'mock': _guarded(lambda: [float(v) for v in _fit.fit_mock(m1, None)])}
    return out


def _nnls_impl(case):
    a = np.array(_rows(case['rows']), dtype=float).T
    y = np.array([_fl(v) for v in case['y']], dtype=float)
    v = None
    if case['sigma'] is not None:
        v = orc.v_matrix(case['n'], _sigma_np(case['sigma']))
    r = _guarded(lambda: _fit._nn_least_squares(a, y, V=v))
    if isinstance(r, dict):
        return r
    return {'x': [float(t) for t in r[0]]}


def _subsample_impl(case):
    from rsatoolbox.rdm import RDMs
    r = RDMs(np.array([[float(v) for v in case['v']]]),
             pattern_descriptors={'cond': np.array(case['desc'])})

    def go():
        s = r.subsample_pattern(_by(case), np.array(case['value']))
        return {'sel': [int(i) for i in s.pattern_descriptors['index']],
                'v': [None if math.isnan(x) else int(x) for x in s.get_vectors()[0]]}
    return _guarded(go)


def run_impl(case):
    key = _key(case)
    if key in _IMPL_CACHE:
        return _IMPL_CACHE[key]
    if case['kind'] == 'predict':
        out = _predict_impl(case)
    elif case['kind'] == 'nnls':
        out = _nnls_impl(case)
    elif case['kind'] == 'subsample':
        out = _subsample_impl(case)
    elif case['kind'] == 'session':
        out = ses.run_session(case)
        for i, st in enumerate(case['steps']):
            if st['op'] == 'fit' and st['fitter'] != 'mock':
                # the live call is the "implementation result" of the step's own single-call case
                _IMPL_CACHE[_key(ses.virtual_case(case, i))] = {'theta': out['steps'][i]['theta'],
                                                                'lib_score': None}
    else:
        th, sc = _call_fit(case, _rows(case['basis']), _rows(case['data']), via_fit=case.get('via') == 'fit')
        out = {'theta': th, 'lib_score': sc}
        f_ = case['fitter']
        if not isinstance(th, dict) and not case.get('malformed') and f_ in ('select', 'interpolate'):
            # the public route Model.fit (default fitter of the class, arguments passed through)
            out['theta_via_fit'] = _call_fit(case, _rows(case['basis']), _rows(case['data']), via_fit=True)[0]
        if f_ in ('optimize', 'optimize_positive') and not isinstance(th, dict):
            out['lib_loss'] = _lib_losses(case)
        if _has_unselected(case) and not isinstance(th, dict) and not case['fitter'].startswith('optimize'):
            th2, _ = _call_fit(case, _perturbed(case, _rows(case['basis']), 3.0),
                               _perturbed(case, _rows(case['data']), 5.0))
            out['theta_perturbed'] = th2
    _IMPL_CACHE[key] = out
    return out


# ------------------------------------------------------------------ model side

def _common_req(case):
    basis = _apply_common_nan(case, _rows(case['basis']))
    data = _data_sub_py(case, _apply_common_nan(case, _rows(case['data'])))
    return {'method': case['method'], 'n': case['n'], 'desc': _desc_for(case), 'value': case['value'],
            'basis': [[None if math.isnan(v) else fbits(v) for v in r] for r in basis],
            'data': [[None if math.isnan(v) else fbits(v) for v in r] for r in data],
            'sigma': _sigma_wire(case['sigma'])}


def _theta_vec(case, th):
    k = len(case['basis'])
    if case['fitter'] == 'select':
        return [1.0 if i == th else 0.0 for i in range(k)]
    return list(th)


def _competitors(case, theta):
    rng = random.Random(case['cseed'])
    k = len(case['basis'])
    f = case['fitter']
    if f == 'select':
        return [np.eye(k)[i] for i in range(k)]
    if f == 'interpolate':
        out = []
        for i in range(k - 1):
            for w in [0, 0.1, 0.25, 0.5, 0.75, 0.9, 1] + [rng.random() for _ in range(3)]:
                t = np.zeros(k)
                t[i], t[i + 1] = w, 1 - w
                out.append(t)
        return out
    base = theta if not isinstance(theta, dict) else [1.0] * k
    return orc.competitors(rng, base, k, nonneg=f in ('regress_nn', 'optimize_positive'))


def model_requests(case):
    if case['kind'] == 'predict':
        kind = case['cls']
        return [{'op': 'c08.predict', 'kind': kind, 'n': case['n'],
                 'obj': [[rat(unrat(v)) for v in r] for r in case['basis']],
                 'desc': ([['cond', case['desc']]] if case['form'] == 'rdms' else [])
                 if kind == 'fixed' else
                 ([['cond', case['desc']], ['index', list(range(case['n']))]] if case['form'] == 'rdms'
                  else [['index', list(range(case['n']))]]),
                 'params': [p if (p is None or isinstance(p, int)) else [rat(unrat(v)) for v in p]
                            for p in case['params']]}]
    if case['kind'] == 'nnls':
        impl = run_impl(case)
        v = None
        if case['sigma'] is not None:
            v = [[fbits(x) for x in r] for r in orc.v_matrix(case['n'], _sigma_np(case['sigma'])).tolist()]
        chk = [] if 'exc' in impl else [[fbits(t) for t in impl['x']]]
        return [{'op': 'c08.nnls', 'rows': [[fbits(_fl(v_)) for v_ in r] for r in case['rows']],
                 'y': [fbits(_fl(v_)) for v_ in case['y']], 'V': v, 'eps': fbits(EPS),
                 'tol': fbits(1e-9 if v is None else 2e-4),
                 'check': chk}]
    if case['kind'] == 'subsample':
        return [{'op': 'c08.subsample', 'n': case['n'], 'desc': _desc_for(case),
                 'value': case['value'], 'v': case['v']}]
    if case['kind'] == 'session':
        run_impl(case)               # runs the live session and registers the steps' results
        reqs, spans = [], []
        for i, st in enumerate(case['steps']):
            r = []
            if st['op'] == 'fit' and st['fitter'] != 'mock':
                r = model_requests(ses.virtual_case(case, i))
            elif st['op'] in ('predict', 'fit'):
                md = case['models'][st['model']]
                r = [{'op': 'c08.predict', 'kind': md['cls'], 'n': case['n'],
                      'obj': [[rat(unrat(v)) for v in row] for row in md['basis']],
                      'desc': [['cond', case['desc']]] if md['cls'] == 'fixed' else
                      [['cond', case['desc']], ['index', list(range(case['n']))]],
                      'params': [st['theta'] if st['op'] == 'predict' else None]}]
            spans.append(len(r))
            reqs += r
        _SESSION_SPANS[_key(case)] = spans
        return reqs
    if case.get('bad_method'):
        return []
    impl = run_impl(case)
    base = _common_req(case)
    f = case['fitter']
    st = _structure(case)
    breg = base
    if st['rank_deficient']:
        # the unconstrained optimum is computed on a maximal independent subset of the basis
        # (same span, same maximal score; the model's Gauss-Jordan solve needs a regular Gram matrix)
        breg = dict(base, basis=[base['basis'][i] for i in st['indep']])
    reqs = [dict(breg, op='c08.fit', fitter='regress', normalize=bool(case['normalize']))]
    nonneg = f in ('regress_nn', 'optimize_positive', 'interpolate')
    if nonneg:
        reqs.append(dict(base, op='c08.fit', fitter='nn', normalize=bool(case['normalize']),
                         eps=fbits(EPS)))
    th = impl['theta']
    thetas = []
    if not isinstance(th, dict):
        thetas.append(_theta_vec(case, th))
    thetas += [list(map(float, c)) for c in _competitors(case, th)]
    reqs.append(dict(base, op='c08.score', thetas=[[fbits(v) for v in t] for t in thetas]))
    if f == 'select':
        reqs.append(dict(base, op='c08.select'))
    if f == 'interpolate':
        reqs.append(dict(base, op='c08.interp', eps=fbits(EPS)))
    if f in ('optimize', 'optimize_positive'):
        pts, ridge = _loss_points(case)
        reqs.append(dict(base, op='c08.loss', thetas=[[fbits(v) for v in t] for t in pts],
                         ridge=fbits(ridge), positive=(f == 'optimize_positive')))
    return reqs


_SESSION_SPANS = {}


def _dec(v):
    return None if v is None else unfbits(v)


def model_result(case, answers):
    if case['kind'] in ('predict', 'subsample'):
        return answers[0]
    if case['kind'] == 'session':
        out, a0 = [], 0
        for i, (st, n_) in enumerate(zip(case['steps'], _SESSION_SPANS[_key(case)])):
            part = answers[a0:a0 + n_]
            a0 += n_
            if st['op'] == 'fit' and st['fitter'] != 'mock':
                out.append(model_result(ses.virtual_case(case, i), part))
            elif st['op'] in ('predict', 'fit'):
                out.append(part[0])
            else:
                out.append(None)
        return {'steps': out}
    if case['kind'] == 'nnls':
        a = answers[0]
        if 'model_error' in a:
            return a
        return {'x': [_dec(v) for v in a['x']], 'exited': a['exited'], 'kkt': a['kkt'],
                'kkt_impl': a['kkt_check']}
    for a in answers:
        if isinstance(a, dict) and 'model_error' in a:
            return a
    if case.get('bad_method'):
        # Fit.Method has exactly the four criteria of the regression fitters: anything else is rejected
        return {'regress': {'exc': 'ValueError'}}
    out = {}
    k = 0
    a = answers[k]
    k += 1
    out['regress'] = a if 'exc' in a else {'theta': [_dec(v) for v in a['theta']], 'score': _dec(a['score'])}
    f = case['fitter']
    if f in ('regress_nn', 'optimize_positive', 'interpolate'):
        a = answers[k]
        k += 1
        out['nn'] = a if 'exc' in a else {'theta': [_dec(v) for v in a['theta']],
                                          'score': _dec(a['score']), 'exited': a['exited']}
    out['scores'] = [_dec(v) for v in answers[k]]
    k += 1
    if f == 'select':
        a = answers[k]
        dfn = [v is not None for v in a['evals']]
        ev = [0.0 if v is None else _dec(v) for v in a['evals']]   # zero prediction: similarity 0
        th_ = a['theta']
        if th_ is None:
            th_ = max(range(len(ev)), key=lambda i: (ev[i], -i))
        out['select'] = {'evals': ev, 'theta': th_, 'defined': dfn}
    if f == 'interpolate':
        a = answers[k]
        out['interp'] = a if isinstance(a, dict) else [{'w': _dec(s['w']), 'score': _dec(s['score'])} for s in a]
    if f in ('optimize', 'optimize_positive'):
        out['loss'] = [_dec(v) for v in answers[k]]
    return out


# ------------------------------------------------------------------ comparison

def _tol(case):
    """tolerance of the comparison of theta *directions*.  Whitened criteria: the library solves
    V x = b by conjugate gradients to a relative residual of 1e-5, an error the normal equations
    amplify by the condition number of the Gram matrix (the *score* of the result is affected only
    in second order and is compared with the tight slack)"""
    if case['method'].endswith('_cov'):
        return min(2e-2, 5e-4 * max(1.0, _structure(case)['cond'] / 300.0))
    return 1e-6


def _vec_diff(a, b, tol):
    if len(a) != len(b):
        return f'length {len(a)} != {len(b)}'
    sc = max(max(abs(x) for x in a), max(abs(x) for x in b), 1e-300)
    for i, (x, y) in enumerate(zip(a, b)):
        if math.isnan(x) or math.isnan(y) or abs(x - y) > tol * sc:
            return f'[{i}]: impl {x!r} != model {y!r} (all: {a} vs {b})'
    return None


def _opt_slack(case):
    """BFGS differentiates the loss numerically; with a given sigma_k every loss evaluation
    goes through conjugate gradients (rtol 1e-5), which makes the optimiser imprecise"""
    return 1e-5 if case['sigma'] is None else 0.3


def _unit(v):
    n = math.sqrt(sum(t * t for t in v))
    return [t / n for t in v] if n > 0 else list(v)


def _cmp_predict(case, impl, model):
    if 'exc' in impl:
        return f'model construction raised {impl}'
    for tag in ('direct', 'dict'):
        im, mo = impl[tag], model[tag]
        if isinstance(im, dict):
            return f'{tag}: implementation raised {im}'
        if mo is None:
            return f'{tag}: model has no dictionary form'
        for p, a, b in zip(case['params'], im, mo):
            for fld_ in ('vec', 'rdm'):
                x, y = a[fld_], b[fld_]
                if isinstance(x, dict) or y is None:
                    if not (isinstance(x, dict) and y is None):
                        return f'{tag} {fld_} theta={p}: impl {x} model {y}'
                    continue
                fx = [[unrat(v) for v in r] for r in x] if fld_ == 'rdm' else [unrat(v) for v in x]
                fy = [[unrat(v) for v in r] for r in y] if fld_ == 'rdm' else [unrat(v) for v in y]
                if fx != fy:
                    return f'{tag} {fld_} theta={p}: impl {x} != model {y}'
            if not isinstance(a['desc'], dict) or 'exc' in a['desc']:
                if b['desc'] is not None:
                    return f'{tag} descriptors theta={p}: impl {a["desc"]} model {b["desc"]}'
                continue
            da = {k: [float(v) for v in vs] for k, vs in a['desc'].items()}
            db = {kv[0]: [float(v) for v in kv[1]] for kv in (b['desc'] or [])}
            if da != db:
                return f'{tag} pattern descriptors theta={p}: impl {da} != model {db}'
    if impl['type'] != model['type'] or impl['type2'] != model['type']:
        return f'type name {impl["type"]}/{impl["type2"]} != {model["type"]}'
    if impl['default_fitter'] != model['default_fitter'] or impl['default_fitter2'] != model['default_fitter']:
        return (f'default fitter {impl["default_fitter"]}/{impl["default_fitter2"]} != model '
                f'{model["default_fitter"]}')
    if impl['n_param'] != model['n_param']:
        return f'n_param {impl["n_param"]} != model {model["n_param"]}'
    if case['cls'] == 'fixed' and impl['mock'] != [float(unrat(v)) for v in model['mock']]:
        return f'fit_mock {impl["mock"]} != model {model["mock"]}'
    return None


def _cmp_session(case, impl, model):
    """the model is stateless (`session_calls_independent`): step i of the session has the value of the
    stand-alone call, every live object is what it was, earlier return values stay what they were"""
    for i, (st, im, mo) in enumerate(zip(case['steps'], impl['steps'], model['steps'])):
        if st['op'] == 'edit':
            continue
        tag = f'session step {i} ({st["op"]} {st.get("fitter", "")} {st.get("method", "") if st["op"] == "fit" else ""})'
        if isinstance(mo, dict) and 'model_error' in mo:
            return f'{tag}: model error {mo}'
        if st['op'] == 'fit' and st['fitter'] == 'mock':
            want = [float(unrat(v)) for v in mo['mock']]
            if im['theta'] != want:
                return f'{tag}: fit_mock {im["theta"]} != model {want}'
        elif st['op'] == 'fit':
            d = compare(ses.virtual_case(case, i), {'theta': im['theta'], 'lib_score': None}, mo)
            if d:
                return f'{tag}: {d}'
        else:
            b = mo['direct'][0]
            for fld_ in ('vec', 'rdm'):
                x, y = im[fld_], b[fld_]
                if isinstance(x, dict) or y is None:
                    if not (isinstance(x, dict) and y is None):
                        return f'{tag}: {fld_} impl {x} model {y}'
                    continue
                fx = [[unrat(v) for v in r] for r in x] if fld_ == 'rdm' else [unrat(v) for v in x]
                fy = [[unrat(v) for v in r] for r in y] if fld_ == 'rdm' else [unrat(v) for v in y]
                if fx != fy:
                    return f'{tag}: {fld_} impl {x} != model {y}'
            if isinstance(im['desc'], dict) and 'exc' not in im['desc']:
                da = {k: [float(v) for v in vs] for k, vs in im['desc'].items()}
                db = {kv[0]: [float(v) for v in kv[1]] for kv in (b['desc'] or [])}
                if da != db:
                    return f'{tag}: pattern descriptors impl {da} != model {db}'
        if im.get('state'):
            return f'{tag}: the call changed {im["state"]} (the model leaves every object as it was)'
        if im.get('held'):
            return f'{tag}: the call changed the {im["held"]} of an earlier step'
    return None


def compare(case, impl, model):
    if isinstance(model, dict) and 'model_error' in model:
        return f'model error {model}'
    kind = case['kind']
    if kind == 'predict':
        return _cmp_predict(case, impl, model)
    if kind == 'session':
        return _cmp_session(case, impl, model)
    if kind == 'subsample':
        if 'exc' in impl:
            return f'subsample_pattern raised {impl}'
        mv = [None if v is None else int(unrat(v)) for v in model['v']]
        if impl['sel'] != model['sel'] or impl['v'] != mv:
            return f'subsample: impl {impl} != model sel {model["sel"]} v {mv}'
        return None
    if kind == 'nnls':
        if 'exc' in impl:
            return f'_nn_least_squares: {impl["exc"]}'
        if not model['exited']:
            return 'model: active-set loop did not exit within its fuel'
        if not model['kkt']:
            return 'model: result of the active-set loop violates the KKT conditions'
        if not all(model['kkt_impl']):
            return f'_nn_least_squares result {impl["x"]} violates the KKT conditions'
        if case.get('style') in ('dup', 'nested', 'rankdef'):
            return None      # minimiser not unique / ill-conditioned: the KKT conditions decide
        if case['sigma'] is None:
            return _vec_diff(impl['x'], model['x'], 1e-7)
        # the library solves V x = b by conjugate gradients (rtol 1e-5); the normal equations amplify
        # that error by the condition number of the Gram matrix (see _tol)
        a_ = np.array(_rows(case['rows']), dtype=float)
        w_ = np.linalg.inv(orc.v_matrix(case['n'], _sigma_np(case['sigma'])))
        g_ = a_ @ w_ @ a_.T
        cond = float(np.linalg.cond(g_))
        tol = min(2e-2, 5e-4 * max(1.0, cond / 300.0))
        # ... in absolute terms, relative to the natural size |y| / |a_i| of a coefficient: where the
        # right-hand side a_i' V^-1 y is small by cancellation, the relative error of x_i is unbounded
        y_ = np.array([_fl(v) for v in case['y']], dtype=float)
        nat = math.sqrt(max(float(y_ @ w_ @ y_), 0.0)) / math.sqrt(max(float(np.min(np.diag(g_))), 1e-300))
        big = max(max(abs(t) for t in impl['x']), max(abs(t) for t in model['x']), nat)
        for i_, (u, v) in enumerate(zip(impl['x'], model['x'])):
            if math.isnan(u) or math.isnan(v) or abs(u - v) > tol * big:
                return f'[{i_}]: impl {u!r} != model {v!r} (all: {impl["x"]} vs {model["x"]})'
        return None
    # ---- fit
    th = impl['theta']
    f = case['fitter']
    mreg = model['regress']
    if 'exc' in mreg:
        if isinstance(th, dict) and th['exc'] == mreg['exc']:
            return None
        return f'{f}: model rejects the input ({mreg["exc"]}), implementation returned {th}'
    if isinstance(th, dict):
        return f'{f}: implementation raised {th["exc"]}, model theta {mreg["theta"]}'
    tol = _tol(case)
    slack = 1e-6 if case['method'].endswith('_cov') else 1e-7
    scores = model['scores']
    s_impl, comp = scores[0], scores[1:]
    if s_impl is None and f == 'select':
        s_impl = 0.0         # an all-zero candidate: similarity 0/0, judged below as 0
    if s_impl is None:
        if f in ('regress_nn', 'optimize_positive') and not any(th) and not any(model['nn']['theta']):
            return None      # every basis RDM is negatively related to the data: the optimum is theta = 0
        return f'{f}: score of the returned theta is undefined'
    nonneg = f in ('regress_nn', 'optimize_positive')
    opt = model['nn'] if nonneg else mreg
    if f in ('regress', 'regress_nn', 'optimize', 'optimize_positive'):
        if nonneg and not opt['exited']:
            return 'model: active-set loop did not exit within its fuel'
        s_opt = opt['score']
        if s_opt is None:
            s_opt = 0.0
            if f.startswith('optimize') and not any(opt['theta']):
                # no direction positively related to the data: the guarded optimum is the zero prediction
                # (similarity 0/0); the optimisers are not judged there
                return None if (not nonneg or min(th) >= -1e-12) else f'{f}: negative weight {min(th)!r}'
        if f in ('regress', 'regress_nn') and not _structure(case)['degenerate']:
            # "up to scale": compare directions (both sides normalised to unit length); where the
            # maximiser is not unique (dependent / nearly dependent basis RDMs) only the score counts
            d = _vec_diff(_unit(th), _unit(opt['theta']), tol)
            if d:
                return f'{f} theta (unit length) {d}'
        judged = True
        if f == 'optimize':
            # BFGS starts in the positive orthant and is observed only where the optimum lies there too
            # (elsewhere it is known to run off along the scale direction and stop anywhere - notes)
            u = _unit(opt['theta'])
            judged = min(u) >= -1e-3
        if judged and s_impl < s_opt - (slack if f in ('regress', 'regress_nn') else _opt_slack(case)):
            return f'{f}: score {s_impl!r} of the returned theta is below the optimum {s_opt!r}'
        if s_impl > s_opt + slack:
            return f'{f}: score {s_impl!r} of the returned theta beats the model optimum {s_opt!r}'
        if nonneg and min(th) < -1e-12:
            return f'{f}: negative weight {min(th)!r}'
        if case['normalize'] and abs(math.sqrt(sum(t * t for t in th)) - 1) > 1e-9 and any(th):
            return f'{f}: normalised theta has norm {math.sqrt(sum(t * t for t in th))!r}'
        for c in comp:
            if c is not None and c > s_opt + slack:
                return f'model: a competitor scores {c!r} above the model optimum {s_opt!r}'
    elif f == 'select':
        ev = model['select']['evals']
        if model['select']['theta'] is None:
            return 'model: evaluations undefined'
        dfn = model['select']['defined']
        # candidates of undefined similarity (0/0) may count as 0 or be passed over
        rivals = [ev[i] for i in range(len(ev)) if dfn[i]] + ([0.0] if not dfn[th] else [])
        top = max(rivals) if rivals else 0.0
        if th != model['select']['theta'] and abs(ev[th] - top) > slack:
            return f'select: index {th} (score {ev[th]!r}) != arg-max {model["select"]["theta"]} ({top!r})'
    elif f == 'interpolate':
        k = len(th)
        nz = [i for i, t in enumerate(th) if t != 0]
        if not nz or max(nz) - min(nz) > 1 or abs(sum(th) - 1) > 1e-12 or min(th) < 0 or max(th) > 1:
            return f'interpolate: theta {th} is not a convex mixture of two adjacent RDMs'
        segs = [s['score'] for s in model['interp'] if s['score'] is not None]
        if len(segs) == k - 1:
            best = max(segs)
            if s_impl < best - 2e-5:
                return f'interpolate: score {s_impl!r} below the best mixture {best!r}'
            if s_impl > best + slack:
                return f'interpolate: score {s_impl!r} beats the model optimum {best!r}'
            for c in comp:
                if c is not None and c > best + slack:
                    return f'model: a mixture scores {c!r} above the model optimum {best!r}'
    if 'theta_via_fit' in impl:
        tv = impl['theta_via_fit']
        same = (tv == th) if f == 'select' else (not isinstance(tv, dict) and _vec_diff(th, tv, 1e-12) is None)
        if not same:
            return f'{f}: Model.fit returns {tv}, the default fitter of the class returns {th}'
    if impl.get('lib_loss') is not None and 'loss' in model:
        for a_, b_ in zip(impl['lib_loss'], model['loss']):
            if a_ is None:
                continue
            if b_ is None or math.isnan(b_) or not close(a_, b_, 1e-3 if case['sigma'] is not None else 1e-9,
                                                            1e-3 if case['sigma'] is not None else 1e-9):
                return f'{f}: objective handed to the optimiser {impl["lib_loss"]} != model {model["loss"]}'
    if impl['lib_score'] is not None and not close(impl['lib_score'], s_impl, 1e-3, 1e-3):
        return f'{f}: library score {impl["lib_score"]!r} != model score {s_impl!r} of the same theta'
    if 'theta_perturbed' in impl:
        t2 = impl['theta_perturbed']
        if isinstance(t2, dict):
            return f'{f}: raises {t2} after changing only unselected conditions'
        if f == 'select':
            if t2 != th:
                return f'select: result changes ({th} -> {t2}) with unselected conditions'
        else:
            d = _vec_diff(th, t2, 1e-9)
            if d:
                return f'{f}: theta changes when only unselected conditions change: {d}'
    return None


# ------------------------------------------------------------------ features

def features(case, impl):
    kind = case['kind']
    if kind == 'predict':
        br = ['kind:predict', 'class:' + case['cls'], 'form:' + case['form']]
        if any(p is None for p in case['params']):
            br.append('theta:none')
        if any(isinstance(p, list) and any(unrat(v) < 0 for v in p) for p in case['params']):
            br.append('theta:negative')
        return {'kind': kind, 'cls': case['cls'], 'form': case['form'], 'n': case['n'], 'branches': br}
    if kind == 'nnls':
        br = ['kind:nnls'] + (['nnls:V'] if case['sigma'] is not None else [])
        if impl and 'x' in impl:
            br.append('nn:active_constraint' if any(t == 0 for t in impl['x']) else 'nn:interior')
        if case.get('style') == 'rankdef':
            br.append('nnls:rankdef')
        if case.get('style') in ('dup', 'nested'):
            br.append('nnls:' + case['style'])
            a_ = np.array(_rows(case['rows']), dtype=float)
            w_ = np.eye(a_.shape[1]) if case['sigma'] is None else \
                np.linalg.inv(orc.v_matrix(case['n'], _sigma_np(case['sigma'])))
            y_ = np.array([_fl(v) for v in case['y']], dtype=float)
            if orc.active_set_maxdrop(a_ @ w_ @ a_.T, a_ @ w_ @ y_) >= 2:
                br.append('nnls:multi_drop')
        return {'kind': kind, 'sigma': sigma_kind(case['sigma']), 'k': len(case['rows']),
                'timeout': bool(impl and impl.get('exc') == 'Timeout'), 'branches': br}
    if kind == 'subsample':
        return {'kind': kind, 'by': case['by'], 'n': case['n'], 'branches': ['kind:subsample']}
    if kind == 'session':
        br = {'kind:session', 'session:' + case['skind']}
        if len(case['models']) > 1 and len({s_.get('model') for s_ in case['steps'] if s_['op'] != 'edit'}) > 1:
            br.add('session:two-models')
        if case.get('common_nan') is not None:
            br.add('session:common_nan')
        centred, seen_sel, seen_sig, seen_th = False, set(), {}, {}
        for s_ in case['steps']:
            if s_['op'] == 'edit':
                br.add('session:edit:' + s_['how'])
                seen_sel.clear()
                continue
            br.add('session:class:' + case['models'][s_['model']]['cls'])
            if s_['op'] == 'predict':
                br.add('session:predict')
                key = json.dumps(s_['theta'])
                if seen_th.get(s_['slot']) == key:
                    br.add('session:predict:same-theta')
                seen_th[s_['slot']] = key
                continue
            br.add('session:fit:' + s_['fitter'])
            br.add('session:route:' + s_['route'])
            if s_['value'] is None:
                br.add('session:no_pattern_idx')
                if centred and s_['method'] in ('cosine', 'cosine_cov'):
                    br.add('session:plain-after-centring')
                if s_['method'] in ('corr', 'corr_cov'):
                    centred = True
            else:
                br.add('session:pattern_idx')
                key = (s_['by'], tuple(s_['value']))
                if key in seen_sel:
                    br.add('session:reuse-subsample')
                seen_sel.add(key)
            if s_['sigma'] is not None:
                kd = sigma_kind(s_['sigma'])
                txt = json.dumps(s_['sigma'], sort_keys=True)
                if kd in seen_sig and seen_sig[kd] != txt:
                    br.add(f'session:sigma:{kd}:refill')
                seen_sig[kd] = txt
        exc = None
        if impl:
            for r_ in impl.get('steps', []):
                if isinstance(r_.get('theta'), dict):
                    exc = r_['theta'].get('exc')
        return {'kind': kind, 'skind': case['skind'], 'n': case['n'], 'n_steps': len(case['steps']),
                'n_models': len(case['models']), 'cls': case['models'][0]['cls'], 'exc': exc,
                'branches': sorted(br)}
    br = ['method:' + case['method'], 'fitter:' + case['fitter'],
          'by:' + case['by'], 'normalize:' + ('on' if case['normalize'] else 'off')]
    if case['method'].endswith('_cov'):
        br.append('sigma:' + sigma_kind(case['sigma']))
    v = case['value']
    sel = 'none' if v is None else ('repeats' if len(set(v)) < len(v) else 'subset')
    br.append('sel:' + sel)
    if sel == 'repeats':
        br.append('nan:repeats')
    if case.get('common_nan') is not None:
        br.append('nan:common')
    if case.get('malformed'):
        br.append('malformed:nan')
    if len(case['data']) > 1:
        br.append('stack>1')
    if case.get('scale', 1) > 1:
        br.append('scale>1')
    if case.get('dstyle') == 'copy':
        br.append('exact_copy')
    th = impl.get('theta') if impl else None
    if case['fitter'] == 'regress_nn' and isinstance(th, list):
        br.append('nn:active_constraint' if any(t == 0 for t in th) else 'nn:interior')
    if impl and 'theta_perturbed' in impl:
        br.append('noninterference')
    if case.get('via') == 'fit' or (impl and 'theta_via_fit' in impl):
        br.append('route:Model.fit:' + case['fitter'])
    if case.get('via') == 'Fitter':
        br.append('route:Fitter')
    if case.get('bad_method'):
        br.append('malformed:method')
    if case['fitter'] == 'regress_nn' and isinstance(impl.get('theta') if impl else None, list) \
            and not any(impl['theta']):
        br.append('nn:all_zero')
    if impl and impl.get('lib_loss') is not None:
        br.append('objective:' + case['fitter'])
    st = _structure(case) if not case.get('malformed') else {'rank_deficient': False, 'maxdrop': 0,
                                                             'degenerate': False}
    fam = case.get('family')
    if fam:
        br.append('family:' + fam)
    if sel == 'repeats' and fam in ('dup', 'nested', 'collinear') and case['fitter'] in ('regress', 'regress_nn') \
            and not case.get('malformed'):
        # duplicated / nested / dependent basis RDMs seen through a draw with repeats
        br.append('view:repeats:' + fam + ':' + case['fitter'])
        if case['method'].startswith('corr'):
            br.append('view:repeats:centred')
    if st['degenerate'] and case['fitter'] in ('regress', 'regress_nn') and not case.get('malformed'):
        # round 5: rank-deficient training VIEWS
        if fam == 'fewcond':
            br.append('view:fewcond:' + case['fitter'])
            br.append('view:fewcond:' + case['method'])
        if case.get('inexact'):
            br.append('view:inexact:' + case['fitter'])
        if case.get('cancel'):
            br.append('view:cancel')
    if st['rank_deficient']:
        br.append('gram:singular:' + ('nn' if case['fitter'] == 'regress_nn' else
                                      'ols' if case['fitter'] == 'regress' else 'other'))
    elif st['degenerate']:
        br.append('gram:ill-conditioned')
    if case['fitter'] == 'select' and fam in ('zero', 'const') and case['sigma'] is not None and \
            st['rank_deficient']:
        br.append('select:undefined_candidate')
    if case['fitter'] == 'regress_nn' and st['maxdrop'] >= 2:
        br.append('nn:multi_drop')
    if case['fitter'] == 'regress_nn' and st['maxdrop'] == 1:
        br.append('nn:single_drop')
    return {'kind': kind, 'fitter': case['fitter'], 'method': case['method'], 'family': fam,
            'rank_deficient': st['rank_deficient'], 'maxdrop': st['maxdrop'],
            'sigma': sigma_kind(case['sigma']), 'sel': sel, 'by': case['by'], 'n': case['n'],
            'k': len(case['basis']), 'n_data': len(case['data']), 'scale': case.get('scale', 1),
            'normalize': bool(case['normalize']), 'dstyle': case.get('dstyle'),
            'timeout': bool(isinstance(th, dict) and th.get('exc') == 'Timeout'),
            'exc': th.get('exc') if isinstance(th, dict) else None,
            'multi_data': len(case['data']) > 1,
            'branches': br}


def nontrivial_key(case, impl):
    if case['kind'] == 'fit':
        if len(case['basis']) < 2:
            return None
        th = impl.get('theta') if isinstance(impl, dict) else None
        if isinstance(th, list) and sum(1 for t in th if abs(t) > 1e-12) < 2 and case['fitter'] == 'regress':
            return None
    if case['kind'] == 'predict' and case['cls'] != 'fixed' and len(case['basis']) < 2:
        return None
    return case


# ------------------------------------------------------------------ oracle

def _fail(what, observed, expected, **feats):
    return {'what': what, 'observed': observed, 'expected': expected, 'features': feats}


def _oracle_predict(case):
    impl = _predict_impl(case)
    if 'exc' in impl:
        return _fail('model construction raises', impl, 'a model object', claim='construct')
    if isinstance(impl['dict'], dict):
        return _fail('model_from_dict(to_dict()) raises', impl['dict'], 'a model', claim='dict')
    basis = [[F(unrat(v)) for v in r] for r in case['basis']]
    k = len(basis)
    cls = case['cls']

    def admissible(p):
        if cls == 'fixed':
            return True
        if cls == 'select':
            return p is None or isinstance(p, int)
        if p is None:
            return cls == 'weighted'     # ModelInterpolate's two None defaults differ (noted)
        if cls == 'interpolate':
            return all(unrat(v) >= 0 for v in p)
        return True

    def expected(p):
        if cls == 'fixed':
            return basis[0]
        if cls == 'select':
            return basis[0 if p is None else p]
        th = [F(1)] * k if p is None else [F(unrat(v)) for v in p]
        return [sum(th[i] * basis[i][e] for i in range(k)) for e in range(len(basis[0]))]
    vecs = []
    for p, a, b in zip(case['params'], impl['direct'], impl['dict']):
        if isinstance(a['vec'], dict):
            return _fail(f'predict raises for theta={p}', a, 'a prediction', claim='predict')
        v = [unrat(x) for x in a['vec']]
        if isinstance(b['vec'], dict) or [unrat(x) for x in b['vec']] != v or b['rdm'] != a['rdm'] \
                or b['desc'] != a['desc']:
            return _fail(f'model rebuilt from its dict predicts differently for theta={p}', b, a,
                         claim='dict')
        if cls == 'interpolate' and p is None:
            vecs.append(None)         # the two None defaults differ (noted, outside the property)
            continue
        vecs.append(v)
        if v != expected(p):
            return _fail(f'predict(theta={p}) is not the weighted sum of the basis', a['vec'],
                         [str(x) for x in expected(p)], claim='predict_value')
        if not admissible(p):
            continue
        if isinstance(a['rdm'], dict):
            return _fail(f'predict_rdm raises for theta={p}', a, 'a prediction', claim='predict')
        if len(a['rdm']) != 1 or [unrat(x) for x in a['rdm'][0]] != v:
            return _fail(f'predict and predict_rdm disagree for theta={p}', a['rdm'], a['vec'],
                         claim='predict_vs_rdm')
        want = {'index': list(range(case['n']))}
        if case['form'] == 'rdms':
            want['cond'] = list(case['desc'])
        got = {k_: [int(x) for x in v_] for k_, v_ in a['desc'].items()}
        if got != want:
            return _fail(f'predict_rdm(theta={p}) does not carry the model\'s pattern descriptors',
                         got, want, claim='descriptors')
        if isinstance(b['rdm'], dict) or b['rdm'] != a['rdm'] or b['desc'] != a['desc']:
            return _fail(f'model rebuilt from its dict predicts differently for theta={p}', b, a,
                         claim='dict')
    if case['lin'] is not None and all(vecs[i] is not None for i in (1, 2, 3)):
        a_, b_ = unrat(case['lin'][0]), unrat(case['lin'][1])
        lin = [a_ * x + b_ * y for x, y in zip(vecs[1], vecs[2])]
        if lin != vecs[3]:
            return _fail('prediction is not linear in the weights', [str(x) for x in vecs[3]],
                         [str(x) for x in lin], claim='linear')
    return None


def _oracle_fit(case, given=None):
    """`given`: the result of a call made elsewhere (a step of a reuse session) to be judged as the result
    of this single-call case; the extra fresh-object calls (Model.fit route, re-fit after changing unselected
    entries) are then left out"""
    f = case['fitter']
    basis, data = _rows(case['basis']), _rows(case['data'])
    cached = given if given is not None else run_impl(case)   # the same real call (memoised per case content)
    th, lib_sc = cached['theta'], cached['lib_score']
    if case.get('bad_method'):
        if isinstance(th, dict) and th['exc'] == 'ValueError':
            return None
        return _fail(f'{f} accepts the criterion {case["bad_method"]} it cannot optimise', th, 'ValueError',
                     claim='method', fitter=f)
    pr = _problem(case)
    feats = dict(fitter=f, method=case['method'], sigma=sigma_kind(case['sigma']),
                 multi_data=len(case['data']) > 1)
    if not pr.masks_agree:
        if isinstance(th, dict) and th['exc'] == 'ValueError':
            return None
        return _fail(f'{f}: NaN positions of model and data differ but no ValueError', th,
                     'ValueError', claim='nan_mask', **feats)
    if isinstance(th, dict):
        return _fail(f'{f} does not return parameters ({th["exc"]})', th, 'a parameter vector',
                     claim='returns', exc=th['exc'], **feats)
    k = len(basis)
    tv = _theta_vec(case, th)
    s = pr.score(tv)
    if lib_sc is not None and abs(lib_sc - s) > 2e-3:
        return _fail(f'{f}: the library\'s own mean similarity of its theta differs from the definition',
                     lib_sc, s, claim='score_definition', **feats)
    rng = random.Random(case['cseed'])
    slack = 1e-6
    judged = True
    if f in ('regress', 'optimize'):
        bth, best = pr.best_free()
        comp = orc.competitors(rng, tv, k, False)
        if f == 'optimize':
            # BFGS (a contract) starts in the positive orthant; it is observed only where the optimum lies
            # there too - elsewhere it is known to run off along the scale direction and stop anywhere
            nb = float(np.linalg.norm(bth))
            judged = nb > 0 and float(np.min(bth / nb)) >= -1e-3
    elif f in ('regress_nn', 'optimize_positive'):
        _, best = pr.best_nonneg()
        comp = orc.competitors(rng, tv, k, True)
        if min(th) < -1e-12:
            return _fail(f'{f} returns a negative weight', th, 'theta >= 0', claim='constraint', **feats)
    elif f == 'select':
        ev = pr.best_single()
        if not (isinstance(th, int) and 0 <= th < k):
            return _fail('fit_select does not return a candidate index', th, f'0..{k - 1}',
                         claim='constraint', **feats)
        # a candidate whose similarity is undefined (0/0) may count as 0 or be passed over: the
        # returned candidate has to be at least as good as every candidate with a defined similarity
        dfn = [pr.defined(np.eye(k)[i]) for i in range(k)]
        cand = [i for i in range(k) if dfn[i]]
        best = max([ev[i] for i in cand], default=0.0)
        if not dfn[th]:
            best = max(best, 0.0) if cand else 0.0
        comp = [np.eye(k)[i] for i in cand]
    else:
        best, _, _ = pr.best_mixture()
        comp = [pr.mix(i, w) for i in range(k - 1) for w in np.linspace(0, 1, 41)]
        nz = [i for i, t in enumerate(th) if t != 0]
        if not nz or max(nz) - min(nz) > 1 or abs(sum(th) - 1) > 1e-12 or min(th) < 0 or max(th) > 1:
            return _fail('fit_interpolate: theta is not a convex mixture of two adjacent RDMs', th,
                         'w, 1-w on neighbours, w in [0,1]', claim='constraint', **feats)
        slack = 2e-5
    if f.startswith('optimize'):
        slack = _opt_slack(case)
        if best <= 0 and not pr.defined(_theta_vec(case, best_th := (pr.best_nonneg()[0] if f == 'optimize_positive'
                                                                     else pr.best_free()[0]))):
            # no direction is positively related to the data: the optimum of the guarded criterion is the
            # zero prediction, whose similarity is 0/0 - the optimisers are not judged there (observation
            # in the notes: BFGS may then stop anywhere)
            return None
    if judged and s < best - slack:
        return _fail(f'{f}: the returned parameters do not attain the maximal mean {case["method"]} '
                     f'similarity (gap {best - s:.3g})', s, best, claim='optimal', gap=best - s, **feats)
    for c in comp:
        sc = pr.score(c)
        if judged and sc > s + slack:
            return _fail(f'{f}: a competitor scores higher than the fit (gap {sc - s:.3g})',
                         {'theta': th, 'score': s}, {'theta': [float(x) for x in c], 'score': sc},
                         claim='optimal', gap=sc - s, **feats)
    if f in ('select', 'interpolate') and not case.get('malformed') and given is None:
        # every public route to the fit: Model.fit (default fitter of the class) must do as well
        tv, _ = _call_fit(case, basis, data, via_fit=True)
        if isinstance(tv, dict):
            return _fail(f'Model.fit of a {f} model does not return parameters ({tv["exc"]})', tv,
                         'a parameter vector', claim='returns', exc=tv['exc'], route='Model.fit', **feats)
        ok = (isinstance(tv, int) and 0 <= tv < k) if f == 'select' else (isinstance(tv, list) and len(tv) == k)
        sv = pr.score(_theta_vec(case, tv)) if ok else float('-inf')
        if sv < best - slack:
            return _fail(f'Model.fit of a {f} model returns parameters below the maximum '
                         f'(gap {best - sv:.3g})', {'theta': tv, 'score': sv}, best, claim='optimal',
                         route='Model.fit', **feats)
    if f in ('regress', 'regress_nn', 'optimize', 'optimize_positive') and case['normalize']:
        nrm = math.sqrt(sum(t * t for t in th))
        if any(th) and abs(nrm - 1) > 1e-9:
            return _fail(f'{f}: normalised theta does not have unit norm', nrm, 1.0,
                         claim='unit_norm', **feats)
    if _has_unselected(case) and not f.startswith('optimize') and given is None:
        th2, _ = _call_fit(case, _perturbed(case, basis, 3.0), _perturbed(case, data, 5.0))
        same = (th2 == th) if f == 'select' else (not isinstance(th2, dict) and
                                                  _vec_diff(th, th2, 1e-9) is None)
        if not same:
            return _fail(f'{f}: conditions outside the pattern indices influence the fit', th2, th,
                         claim='restriction', **feats)
    return None


def _oracle_nnls(case):
    impl = run_impl(case)
    feats = dict(fitter='nnls', sigma=sigma_kind(case['sigma']))
    if 'exc' in impl:
        return _fail(f'_nn_least_squares does not return ({impl["exc"]})', impl, 'a solution',
                     claim='returns', exc=impl['exc'], **feats)
    a = np.array(_rows(case['rows']), dtype=float)
    y = np.array([_fl(v) for v in case['y']], dtype=float)
    w = np.eye(a.shape[1]) if case['sigma'] is None else \
        np.linalg.inv(orc.v_matrix(case['n'], _sigma_np(case['sigma'])))
    x = np.array(impl['x'])
    if x.min() < 0:
        return _fail('_nn_least_squares returns a negative coefficient', impl['x'], 'x >= 0',
                     claim='constraint', **feats)
    loss = lambda t: float((y - t @ a) @ w @ (y - t @ a))   # noqa: E731
    l_ = np.linalg.cholesky((w + w.T) / 2)
    if orc.independent_columns(l_.T @ a.T):
        ref, _ = __import__('scipy.optimize').optimize.nnls(l_.T @ a.T, l_.T @ y)
    else:
        ref = orc.nnls_bruteforce(l_.T @ a.T, l_.T @ y)      # scipy's solver is unreliable on dependent columns
    if loss(x) > loss(ref) + 1e-7 * (1 + loss(ref)):
        return _fail('_nn_least_squares is not the constrained least-squares minimiser', loss(x),
                     loss(ref), claim='optimal', **feats)
    return None


def _oracle_subsample(case):
    impl = _subsample_impl(case)
    if 'exc' in impl:
        return _fail('subsample_pattern raises', impl, 'a subsample', claim='returns')
    sel = orc.positions(_desc_for(case), case['value'])
    v = orc.sub_vec(case['n'], sel, np.array(case['v'], dtype=float))
    want = [None if math.isnan(x) else int(x) for x in v]
    if impl['sel'] != sel or impl['v'] != want:
        return _fail('subsample_pattern does not return the named conditions with multiplicity',
                     impl, {'sel': sel, 'v': want}, claim='restriction')
    return None


def _oracle_session(case):
    """every call of the session judged on its own against the session's own numbers (never a live object);
    a wrong value of a (later) call is reported in preference to the change of an object that caused it"""
    impl = run_impl(case)
    first_value, first_state = None, None
    for i, (st, im) in enumerate(zip(case['steps'], impl['steps'])):
        if st['op'] == 'edit':
            continue
        feats = dict(session=case['skind'], step=i, op=st['op'])
        where = f'call {i + 1} of {len(case["steps"])} on the same objects'
        o = None
        if st['op'] == 'fit' and st['fitter'] == 'mock':
            if im['theta'] != []:
                o = _fail('Model.fit of a ModelFixed does not return an empty parameter vector', im['theta'], [],
                          claim='returns')
        elif st['op'] == 'fit':
            o = _oracle_fit(ses.virtual_case(case, i), given={'theta': im['theta'], 'lib_score': None})
        else:
            want, adm = ses.expected_predict(case, st)
            if isinstance(im['vec'], dict):
                o = _fail(f'predict raises for theta={st["theta"]}', im, 'a prediction', claim='predict')
            elif want is not None and [unrat(x) for x in im['vec']] != want:
                o = _fail(f'predict(theta={st["theta"]}) is not the weighted sum of the basis', im['vec'],
                          [str(x) for x in want], claim='predict_value')
            elif adm and (isinstance(im['rdm'], dict) or len(im['rdm']) != 1 or
                          [unrat(x) for x in im['rdm'][0]] != want):
                o = _fail(f'predict and predict_rdm disagree for theta={st["theta"]}', im['rdm'], im['vec'],
                          claim='predict_vs_rdm')
            elif adm:
                wd = {'index': list(range(case['n'])), 'cond': list(case['desc'])}
                if im['desc'] != wd:
                    o = _fail(f'predict_rdm(theta={st["theta"]}) does not carry the model\'s pattern descriptors',
                              im['desc'], wd, claim='descriptors')
        s_ = None
        if im.get('state'):
            s_ = _fail(f'the call changed {im["state"]}: the objects handed to a fit / prediction no longer hold '
                       'the RDMs, descriptors, pattern indices, sigma_k or parameters they were given',
                       im['state'], 'bit-identical objects after the call', claim='state')
        elif im.get('held'):
            s_ = _fail(f'the call overwrote the {im["held"]} of an earlier call', im['held'],
                       'earlier results keep their values', claim='returned_view')
        for kind_, f_ in (('value', o), ('state', s_)):
            if f_ is None:
                continue
            f_['what'] = f'reuse session{" (" + case["context"] + ")" if case.get("context") else ""}: ' \
                f'{f_["what"]} - {where} ({st["op"]}' + \
                (f' {st["fitter"]} {st["method"]} via {st["route"]}' if st['op'] == 'fit' else '') + ')'
            f_['features'] = dict(f_.get('features', {}), **feats)
            if kind_ == 'value' and first_value is None:
                first_value = f_
            if kind_ == 'state' and first_state is None:
                first_state = f_
        if first_value is not None:
            break
    if first_value is not None:
        if first_state is not None and first_state['features']['step'] < first_value['features']['step']:
            first_value['what'] += f' [earlier: {first_state["what"][:160]}]'
        return first_value
    return first_state


def oracle(case):
    with warnings.catch_warnings():
        warnings.simplefilter('ignore')
        with np.errstate(all='ignore'):
            if case['kind'] == 'predict':
                return _oracle_predict(case)
            if case['kind'] == 'nnls':
                return _oracle_nnls(case)
            if case['kind'] == 'subsample':
                return _oracle_subsample(case)
            if case['kind'] == 'session':
                return _oracle_session(case)
            return _oracle_fit(case)


def shrink(case, still_fails):
    if case['kind'] == 'session':
        o = oracle(case)
        if not o:
            return case
        side = ('state', 'returned_view')
        value_failure = o['features'].get('claim') not in side

        def fails_alike(c):
            # a call that returns a wrong value is not "shrunk" to the change of an object that caused it
            oo = oracle(c)
            return bool(oo) and (not value_failure or oo['features'].get('claim') not in side)
        shr = ses.shrink(case, fails_alike, o['features'].get('step'))

        def fresh_alike(c):
            cl = ses.fresh_claim(c)
            return bool(cl) and (not value_failure or cl not in side)
        # the replay has to fail on its own: a module-level memo poisoned by EARLIER cases of this run makes
        # even a one-call session "fail" here - judge the shrunk session in a pristine interpreter
        if shr == case or fresh_alike(shr):
            return shr
        if not fresh_alike(case):
            # fails only after the earlier cases of this run (shared module-level state): kept as found and
            # labelled, so that a self-contained session is reported beside it
            return dict(case, context='after the earlier cases of this run')
        return ses.shrink(case, fresh_alike, o['features'].get('step'))
    if case['kind'] != 'fit':
        return case
    cached = _IMPL_CACHE.get(_key(case))
    if cached and isinstance(cached.get('theta'), dict) and cached['theta'].get('exc') == 'Timeout':
        return case          # every further probe of a non-terminating call costs a timeout
    best = case
    for key, val in (('normalize', False), ('common_nan', None)):
        if best.get(key) != val:
            c = dict(best, **{key: val})
            if still_fails(c):
                best = c
    if len(best['data']) > 2:
        c = dict(best, data=best['data'][:2])
        if still_fails(c):
            best = c
    if len(best['data']) > 1:
        c = dict(best, data=best['data'][:1])
        if still_fails(c):
            best = c
    if best['value'] is not None and best['sigma'] is None:
        c = dict(best, value=None)
        if _well_posed(c) and still_fails(c):
            best = c
    return best
