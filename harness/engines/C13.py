"""C13 — missing dissimilarities are ignored consistently or rejected, never misaligned.

Engine interface (see harness/run_check.py).

Case kinds (numbers are ints or "p/q" dyadics, exactly representable as doubles; None = NaN)
  compare   two stacks over n conditions with a mask kind (none | common | bootstrap |
            partials | between | between_count | within | within_count | one_side), a method,
            sigma_k (None | vec | mat), how the stacks are passed.  For `bootstrap` /
            `partials` the masked stacks are *produced by the real* `subsample_pattern` /
            `from_partials` and must equal the vectors of the case.
  parse     `_parse_input_rdms` (compare.py) and `_parse_nan_vectors` (rdm_utils.py), exact
  mean      `RDMs.mean(weights)`: weights none | one per RDM (array / descriptor name) |
            per entry (array / 2-D descriptor); optionally built with `from_partials`
  rescale   `rescale(rdms, method, threshold)`: aligned rows, weights, number of passes
  pool      `pool_rdm` of util/inference_util.py and of util/pooling.py
  regress   `fit_regress` / `fit_regress_nn` with pattern bootstrap or explicit masks
  subsample `RDMs.subsample_pattern` with repeated patterns, exact
  session   (round 3) several calls (mean / rescale / compare / pool / fit) on *shared* objects: the same
            RDMs objects, one 2-D float ndarray of per-entry weights and one 1-D ndarray of per-RDM weights
            (passed as arguments and stored as rdm_descriptors of every stack), the same sigma_k arrays;
            every call is judged on its own by the property with the inputs as the caller built them, so a
            call that poisons a shared input shows up at the next call
compare / parse cases also carry a memory layout / dtype of the input arrays (C, Fortran, strided view,
negative row stride, float32).
"""
import importlib
import math
import warnings
from fractions import Fraction as F

import numpy as np

from lean import rat, unrat, fbits, unfbits, close
from engines import C13_oracle as orc

PROPERTY = 'C13'
LEVEL = 'proof'
P = 'Rsa.Props.C13.'
THEOREMS = [P + n for n in (
    'keep_maskOf', 'scatter_delete', 'delete_scatter', 'maskOf_scatter',
    'reshape_flatKept', 'parse_common_mask', 'parse_rejects_differing', 'parse_rejects_shifted_equal_count',
    'parse_ok_iff', 'parseLegacy_misaligns_witness',
    'measure_common_mask', 'measure_common_mask_entry', 'whitened_common_mask', 'fast_common_mask',
    'subBlock_getV_entry',
    'compare_rejects_differing', 'compare_full_stacks', 'fast_path_all_present',
    'nanMeanEntry_eq_spec', 'nanMeanEntry_none_iff', 'nanMeanEntry_ignores_missing_weights',
    'nanMeanEntry_perRdm', 'nanMeanEntry_unweighted', 'nanMeanEntry_between', 'nanMeanEntry_weight_scale',
    'nanMean_entry',
    'alignRow_mask', 'alignRow_positive_multiple', 'rescale_fixedpoint_common_scale',
    'rescaleStep_estimate_of_proportional', 'rescaleWeights_mask', 'nanMeanEntry_const',
    'rescaleLoop_output_is_alignment', 'rescale_keeps_nan_pattern',
    'nanMeanFirst_common_mask', 'nanMeanFirstEntry_some_iff', 'nanRank_eq', 'normCosO_eq', 'normCorrO_eq',
    'mem_colAt_iff', 'nanMeanFirst_getElem?', 'nanMeanFirst_differing_masks_entry',
    'pool_normalised_differing_masks_entry', 'pool_normalisers_keep_mask', 'pool_differing_masks_entry',
    'pool_common_mask_plain', 'pool_common_mask',
    'poolShift_pooling', 'poolShift_inferenceUtil', 'poolShift_monotone_min', 'poolRdm_common_mask',
    'regress_common_mask', 'regress_rejects_differing', 'poolRows_length', 'fit_pipeline_common_mask',
    'subsample_mask', 'bootstrap_compare_not_rejected',
    # round 3
    'parseOf_eq_parseCoded',
    'nanMeanEntry_sq_error_decomposition', 'nanMeanEntry_minimises_weighted_sq_error', 'nanMean_getElem?_some',
    'evidenceWeight_eq', 'setsizeWeight_eq', 'rescaleWeights_pos', 'alignRow_norm',
    'rescale_pass_estimate_minimises', 'rescale_pass_consensus_common_scale', 'rescale_pass_keeps_common_scale',
    'regress_ls_nn_same_equations', 'regressNN_common_mask', 'fitNN_pipeline_common_mask',
    'regressNN_rejects_differing',
)]
RULE = ('cases come from one PRNG; kinds compare (n = 4..6 conditions, stacks of 1..3 RDMs, small '
        'integer / quarter values with ties; every method of C03 incl. Bures; sigma_k none / vector / '
        'SPD matrix; masks none / common / produced by the real subsample_pattern (pattern bootstrap) / '
        'produced by the real from_partials / differing between the stacks (equal or unequal counts, '
        'one side only) / differing inside one stack (equal or unequal counts); arrays, RDMs or mixed), '
        'parse (both input parsers, exact), mean (weights none / per RDM as array or descriptor / per '
        'entry as array or 2-D descriptor; entries missing in some or all RDMs; from_partials), rescale '
        '(three methods, proportional and non-proportional partial RDMs, thresholds 1e-8 and 1e-13), '
        'pool (both pool_rdm copies, all methods, common masks / one deviating RDM / every RDM lacking other '
        'pairs in equal or unequal number - own random masks or the real from_partials on different condition '
        'subsets - with provenance-coded values 1000 r + 10 (pair+1) + (rdm+1)), regress (fit_regress and '
        'fit_regress_nn, four methods, sigma_k, ridge, pattern bootstrap or explicit masks, differing '
        'masks), subsample (exact), session (3-8 calls of mean / rescale / compare / pool / fit on shared '
        'RDMs objects, one shared 2-D float weight ndarray and 1-D weight ndarray (argument, list copy or '
        'rdm_descriptor), shared sigma_k arrays; stacks a, b with one common mask, c, d partial RDMs with '
        'other masks; every call judged separately). compare / parse inputs come in C, Fortran, strided, '
        'negative-stride and float32 layouts. A case is non-trivial when at least one entry is missing or a '
        'weight differs from 1; distinct = distinct case content.')
METHODS = ['cosine', 'corr', 'spearman', 'kendall', 'tau-a', 'rho-a', 'corr_cov', 'cosine_cov',
           'bures', 'bures_metric']
MASKKINDS = ['none', 'common', 'bootstrap', 'partials', 'between', 'between_count', 'one_side',
             'within', 'within_count', 'shape']
POOL_METHODS = {'inf': ['euclid', 'cosine', 'corr', 'cosine_cov', 'corr_cov', 'spearman', 'rho-a',
                        'kendall', 'tau-b', 'tau-a', 'neg_riem_dist'],
                'pool': ['euclid', 'cosine', 'corr', 'cosine_cov', 'corr_cov', 'spearman', 'rho-a',
                         'kendall', 'tau-b', 'tau-a']}
FIT_METHODS = ['cosine', 'corr', 'cosine_cov', 'corr_cov']
NN_EPS = 100 * float(np.finfo(float).eps)      # `tol = 100 * np.finfo(float).eps * np.max(np.abs(w))`
BRANCHES = (['method:' + m for m in METHODS] + ['mask:' + k for k in MASKKINDS] +
            ['sigma:none', 'sigma:vec', 'sigma:mat', 'fast_path_nan', 'slow_path_nan',
             'input:array', 'input:rdms', 'input:mixed', 'input:vector', 'rejected', 'accepted_with_nan',
             'method:neg_riem_dist', 'slow_path_sigma_none_direct', 'direct_nan_idx_none',
             'parse:rdms_wrapper', 'parse:shape', 'partials:auto_patterns', 'pool:zero_norm',
             'subsample:by_none', 'subsample:scalar',
             'kind:parse', 'kind:mean', 'kind:rescale', 'kind:pool', 'kind:regress', 'kind:subsample',
             'w:none', 'w:rdm_array', 'w:rdm_desc', 'w:entry_array', 'w:entry_desc',
             'mean:all_missing_entry', 'mean:partials',
             'rescale:evidence', 'rescale:setsize', 'rescale:simple', 'rescale:proportional',
             'rescale:nonproportional', 'rescale:partials',
             'pool:inf', 'pool:pool', 'pool:common', 'pool:differing', 'pool:cov_sigma',
             'regress:ls', 'regress:nn', 'regress:bootstrap', 'regress:rejected', 'regress:ridge',
             'regress:sigma', 'regress:sigma_vec', 'pool:sigma_vec',
             'layout:f', 'layout:strided', 'layout:f32', 'layout:rowrev', 'layout:noncontiguous_array_with_nan',
             'parse:layout:f', 'parse:layout:strided', 'parse:layout:f32', 'parse:layout:rowrev',
             'kind:session', 'session:weights_reused_other_mask', 'session:weights_list_after_array',
             'session:weights_back_to_first_stack', 'session:rdm_weights_reused', 'session:sigma_reused',
             'session:rdms_reused', 'session:mixed_ops', 'session:mean_after_rescale', 'session:step_rejected']
            + ['session:op:' + o for o in ('mean', 'rescale', 'compare', 'pool', 'fit')]
            # round 7: RDMs of one pooled stack lacking different pairs, in equal / unequal number
            + ['pool:differing-masks-equal-count:' + c for c in ('inf', 'pool')]
            + ['pool:differing-masks-equal-count:%s:%s' % (c, pm) for c in ('inf', 'pool')
               for pm in ('euclid', 'cosine', 'corr', 'cosine_cov', 'corr_cov', 'rank')]
            + ['pool:differing-masks-unequal-count', 'pool:differing-masks-unequal-count:inf',
               'pool:differing-masks-unequal-count:pool', 'pool:differing-masks:from_partials'])
ASSUMPTIONS = [
    'IEEE evaluation of either side is within the stated tolerance of the real value (small '
    'integer / quarter inputs, n <= 6, well-conditioned sigma_k and regression designs)',
    'scipy.sparse.linalg.cg returns s with V s = r up to its rtol 1e-5 (tolerance 2e-4 / 2e-3 where it is used)',
    'stacks are rectangular and non-empty (numpy arrays); at least two entries stay present',
]
TRUSTED_EXTRA = [
    'contract: scipy.sparse.linalg.cg / np.linalg.solve / np.linalg.inv solve the linear systems they are given '
    '(model: Gauss-Jordan `Rsa.Compare.solve`)',
    'contract: scipy.stats.rankdata = tie-averaged ranks (checked exactly by C03)',
    'fit_regress_nn: the active-set loop is C08\'s model `Rsa.Fit.nnls` (its optimality is C08\'s matter); C13 proves '
    'that the loop receives the normal equations of the reduced vectors / reduced V',
]

_cmp = importlib.import_module('rsatoolbox.rdm.compare')
_comb = importlib.import_module('rsatoolbox.rdm.combine')
_rdu = importlib.import_module('rsatoolbox.util.rdm_utils')


# ------------------------------------------------------------------ helpers

def _fl(v):
    return None if v is None else float(unrat(v))


def _arr(stack):
    return np.array([[np.nan if v is None else _fl(v) for v in row] for row in stack], dtype=float)


def _out(a):
    """numpy array -> nested lists with None for NaN"""
    a = np.asarray(a, dtype=float)
    if a.ndim == 0:
        v = float(a)
        return None if math.isnan(v) else v
    return [_out(r) for r in a]


LAYOUTS = ['c', 'c', 'f', 'strided', 'f32', 'rowrev']


def _lay(a, layout):
    """the same values in another memory layout / dtype (all case values are exactly representable in float32)"""
    if layout == 'f':
        return np.asfortranarray(a)
    if layout == 'strided':                 # every second column of a wider C array
        wide = np.full((a.shape[0], 2 * a.shape[1]), 7.0)
        wide[:, ::2] = a
        return wide[:, ::2]
    if layout == 'f32':
        return a.astype(np.float32)
    if layout == 'rowrev':                  # negative row stride
        return a[::-1].copy()[::-1]
    return a


def _sigma_np(sig):
    if sig is None:
        return None
    if 'vec' in sig:
        return np.array([_fl(v) for v in sig['vec']], dtype=float)
    return np.array([[_fl(v) for v in row] for row in sig['mat']], dtype=float)


def tri_pairs(n):
    return [(i, j) for i in range(n) for j in range(i + 1, n)]


class _NoConvergence(Exception):
    pass


EXC = (_NoConvergence, ValueError, TypeError, AssertionError, IndexError, ZeroDivisionError, KeyError,
       np.linalg.LinAlgError, AttributeError)


def _quiet(fn):
    try:
        with np.errstate(all='ignore'), warnings.catch_warnings():
            warnings.simplefilter('ignore')
            return fn()
    except EXC as exc:
        return {'exc': type(exc).__name__}


class _Timeout(Exception):
    pass


def _with_alarm(seconds, fn):
    """safety net: `_nn_least_squares` used to loop forever on well-posed inputs (repaired by 217b28e5:
    bounded iterations); a call that still exceeds the limit is cut off and reported as
    {'exc': 'Timeout'} — judged like any other exception of the library (a fit that does not return)"""
    import signal
    import threading
    if threading.current_thread() is not threading.main_thread():
        return fn()

    def handler(*_):
        raise _Timeout()
    old = signal.signal(signal.SIGALRM, handler)
    signal.setitimer(signal.ITIMER_REAL, seconds)
    try:
        return fn()
    except _Timeout:
        return {'exc': 'Timeout'}
    finally:
        signal.setitimer(signal.ITIMER_REAL, 0)
        signal.signal(signal.SIGALRM, old)


def _call(x, y, method, sigma, form, layout='c'):
    from rsatoolbox.rdm import RDMs

    def go():
        xa, ya = _lay(_arr(x), layout), _lay(_arr(y), layout)
        if form in ('rdms', 'mixed'):
            xa = RDMs(dissimilarities=xa)
        if form == 'rdms':
            ya = RDMs(dissimilarities=ya)
        if form == 'vector':            # a single RDM passed as a 1-D array
            if len(x) == 1:
                xa = xa[0]
            if len(y) == 1:
                ya = ya[0]
        return _out(_cmp.compare(xa, ya, method=method, sigma_k=_sigma_np(sigma)))
    return _quiet(go)


# ------------------------------------------------------------------ generation

def _q(rng, lo, hi, den=1):
    return rat(F(rng.randint(lo, hi), den))


def _vector(rng, m, style):
    if style == 'ties':
        return [rng.randint(0, 3) for _ in range(m)]
    if style == 'pos':
        return [rng.randint(1, 9) for _ in range(m)]
    if style == 'quarters':
        return [_q(rng, 1, 24, 4) for _ in range(m)]
    if style == 'distinct':
        return rng.sample(range(1, 4 * m + 2), m)
    if style == 'neg':
        return [rng.randint(-3, 6) for _ in range(m)]
    raise ValueError(style)


def _euclid(rng, n):
    d = rng.randint(2, 4)
    while True:
        pts = [[rng.randint(-3, 3) for _ in range(d)] for _ in range(n)]
        if len({tuple(p) for p in pts}) == n:
            break
    return [sum((a - b) ** 2 for a, b in zip(pts[i], pts[j])) for i, j in tri_pairs(n)]


def _sigma(rng, n, kind):
    if kind == 'none':
        return None
    if kind == 'vec':
        while True:
            v = [rng.choice(['1/2', 1, '3/2', 2, 3]) for _ in range(n)]
            if len(set(map(str, v))) > 1:
                return {'vec': v}
    b = [[rng.randint(-2, 2) for _ in range(n)] for _ in range(n)]
    m = [[rat(F(sum(b[i][k] * b[j][k] for k in range(n)), 4) + (1 if i == j else 0))
          for j in range(n)] for i in range(n)]
    return {'mat': m}


def _mask(rng, m, min_keep=3, max_drop=None):
    """random mask with at least one False and min_keep True"""
    max_drop = min(max_drop or m, m - min_keep)
    k = rng.randint(1, max(1, max_drop))
    drop = set(rng.sample(range(m), k))
    return [i not in drop for i in range(m)]


def _other_mask(rng, mask, same_count):
    """a different mask; same number of present entries when same_count"""
    m = len(mask)
    for _ in range(200):
        if same_count:
            cand = list(mask)
            t = [i for i, b in enumerate(mask) if b]
            f = [i for i, b in enumerate(mask) if not b]
            i, j = rng.choice(t), rng.choice(f)
            cand[i], cand[j] = False, True
        else:
            cand = _mask(rng, m, 3)
            if sum(cand) == sum(mask):
                continue
        if cand != mask:
            return cand
    cand = list(mask)
    i = next(i for i, b in enumerate(mask) if b)
    cand[i] = False
    return cand


def _apply(mask, row):
    return [v if b else None for v, b in zip(row, mask)]


def _bootstrap_idx(rng, n_full, n):
    while True:
        idx = [rng.randrange(n_full) for _ in range(n)]
        # at least one repeat, at least 3 distinct patterns -> >= 3 present pairs
        if len(set(idx)) < n and len(set(idx)) >= 3:
            return idx


def _compare_case(rng, method, maskkind, nmax):
    n = rng.randint(4, nmax)
    m = n * (n - 1) // 2
    nx, ny = rng.choice([1, 2, 2, 3]), rng.choice([1, 2, 3])
    styles = ['ties', 'pos', 'quarters', 'distinct', 'distinct', 'neg']
    case = {'kind': 'compare', 'method': method, 'n': n, 'maskkind': maskkind,
            'form': rng.choice(['array', 'rdms', 'rdms', 'mixed', 'vector'])}
    case['layout'] = rng.choice(LAYOUTS)
    if case['form'] == 'vector':
        nx, ny = rng.choice([(1, 1), (1, 2), (2, 1)])
    if method in ('corr_cov', 'cosine_cov'):
        case['sigma'] = _sigma(rng, n, rng.choice(['none', 'none', 'vec', 'mat']))
    else:
        case['sigma'] = None

    def stack(k, mm, nn):
        if method.startswith('bures') or method == 'neg_riem_dist':
            return [_euclid(rng, nn) for _ in range(k)]
        return [_vector(rng, mm, rng.choice(styles)) for _ in range(k)]

    if maskkind == 'bootstrap':
        n_full = n
        idx = _bootstrap_idx(rng, n_full, n)
        fx, fy = stack(nx, m, n_full), stack(ny, m, n_full)
        case['boot'] = {'n_full': n_full, 'idx': idx, 'full_x': fx, 'full_y': fy}
        case['x'] = [orc.subsample_expected(n_full, v, idx) for v in fx]
        case['y'] = [orc.subsample_expected(n_full, v, idx) for v in fy]
        case['form'] = 'rdms'
        return case
    if maskkind == 'partials':
        k = rng.randint(3, n - 1)
        pidx = rng.sample(range(n), k)
        mk = k * (k - 1) // 2
        px, py = stack(nx, mk, k), stack(ny, mk, k)
        case['parts'] = {'pidx': pidx, 'part_x': px, 'part_y': py}
        case['x'] = [orc.expand_partial(n, pidx, v) for v in px]
        case['y'] = [orc.expand_partial(n, pidx, v) for v in py]
        case['form'] = 'rdms'
        return case
    x, y = stack(nx, m, n), stack(ny, m, n)
    if rng.random() < 0.25:
        y[rng.randrange(ny)] = list(x[rng.randrange(nx)])
    if maskkind == 'none':
        pass
    elif maskkind == 'shape':
        # the second stack has one condition more (or less): 'must be RDMs of equal shape'
        n2 = n + rng.choice([-1, 1])
        y = stack(ny, n2 * (n2 - 1) // 2, n2)
        if rng.random() < 0.5:
            mk = _mask(rng, m, 3, max_drop=2)
            x = [_apply(mk, r) for r in x]
    else:
        mask = _mask(rng, m, 3, max_drop=m - 3)
        if maskkind == 'common':
            x = [_apply(mask, r) for r in x]
            y = [_apply(mask, r) for r in y]
        elif maskkind in ('between', 'between_count'):
            other = _other_mask(rng, mask, maskkind == 'between')
            x = [_apply(mask, r) for r in x]
            y = [_apply(other, r) for r in y]
        elif maskkind == 'one_side':
            if rng.random() < 0.5:
                x = [_apply(mask, r) for r in x]
            else:
                y = [_apply(mask, r) for r in y]
        else:   # within / within_count: one row of one stack deviates
            other = _other_mask(rng, mask, maskkind == 'within')
            x = [_apply(mask, r) for r in x]
            y = [_apply(mask, r) for r in y]
            if nx == 1 and ny == 1:
                y.append(_apply(mask, _vector(rng, m, 'pos')))
                ny = 2
            cand = ([('x', i) for i in range(nx)] if nx > 1 else []) + \
                   ([('y', i) for i in range(ny)] if ny > 1 else [])
            s, i = rng.choice(cand)
            tgt = x if s == 'x' else y
            tgt[i] = _apply(other, [v if v is not None else 1 for v in
                                    [a if a is not None else 1 for a in tgt[i]]])
    case['x'], case['y'] = x, y
    return case


def _parse_case(rng):
    c = _compare_case(rng, 'cosine', rng.choice(['none', 'common', 'common', 'between', 'between_count',
                                                 'one_side', 'within', 'within_count', 'shape']), 5)
    return {'kind': 'parse', 'x': c['x'], 'y': c['y'], 'maskkind': c['maskkind'], 'layout': c['layout']}


def _weights(rng, wkind, v):
    if wkind == 'none':
        return None
    if wkind in ('rdm_array', 'rdm_desc'):
        return [rng.choice([1, 2, 3, '1/2', '3/2', 4]) for _ in v]
    return [[rng.choice([1, 2, 3, '1/2', '1/4', 5]) for _ in r] for r in v]


def _mean_case(rng, wkind):
    n = rng.randint(3, 5)
    m = n * (n - 1) // 2
    k = rng.randint(2, 4)
    case = {'kind': 'mean', 'n': n, 'wkind': wkind}
    if rng.random() < 0.3:
        parts = []
        for _ in range(k):
            kk = rng.randint(2, n)
            pidx = rng.sample(range(n), kk)
            parts.append({'pidx': pidx, 'vec': _vector(rng, kk * (kk - 1) // 2, rng.choice(['pos', 'quarters']))})
        case['parts'] = parts
        case['auto'] = rng.random() < 0.5
        v = _expand_parts(n, parts, case['auto'])
    else:
        v = [_vector(rng, m, rng.choice(['pos', 'quarters', 'ties'])) for _ in range(k)]
        r = rng.random()
        if r < 0.8:
            for i in range(k):
                for j in range(m):
                    if rng.random() < 0.3:
                        v[i][j] = None
        if r < 0.35:
            j = rng.randrange(m)
            for i in range(k):
                v[i][j] = None
    case['v'] = v
    case['w'] = _weights(rng, wkind, v)
    return case


def _rescale_case(rng, method, prop, thr):
    n = rng.randint(4, 5)
    m = n * (n - 1) // 2
    k = rng.randint(2, 4)
    case = {'kind': 'rescale', 'method': method, 'thr': thr, 'n': n}
    if prop:
        t = _vector(rng, m, rng.choice(['pos', 'quarters']))
        factors = [rng.choice([1, 2, 3, '1/2', '1/4', '3/2', 5]) for _ in range(k)]
        while True:
            masks = [_mask(rng, m, m - 3) if rng.random() < 0.85 else [True] * m for _ in range(k)]
            if orc.overlap_connected(masks) and all(
                    sum(1 for a, b in zip(masks[i], masks[(i + 1) % k]) if a and b) >= 3 for i in range(k)):
                break
        d = [_apply(mk, [rat(unrat(f) * unrat(a)) for a in t]) for mk, f in zip(masks, factors)]
        case['prop'] = {'t': t, 'factors': factors}
    elif rng.random() < 0.4:
        parts = []
        for _ in range(k):
            kk = rng.randint(3, n)
            pidx = rng.sample(range(n), kk)
            parts.append({'pidx': pidx, 'vec': _vector(rng, kk * (kk - 1) // 2, rng.choice(['pos', 'quarters']))})
        case['parts'] = parts
        case['auto'] = rng.random() < 0.5
        d = _expand_parts(n, parts, case['auto'])
    else:
        d = [_vector(rng, m, rng.choice(['pos', 'quarters'])) for _ in range(k)]
        for i in range(k):
            mk = _mask(rng, m, 4) if rng.random() < 0.8 else [True] * m
            d[i] = _apply(mk, d[i])
    case['d'] = d
    return case


def _stack_with_masks(rng, k, m, maskkind, styles=('pos', 'quarters', 'distinct')):
    rows = []
    while len(rows) < k:
        r = _vector(rng, m, rng.choice(styles))
        if len(set(map(str, r))) > 2:
            rows.append(r)
    if maskkind == 'none':
        return rows
    mask = _mask(rng, m, 4, max_drop=max(1, m - 5))
    if maskkind == 'common':
        return [_apply(mask, r) for r in rows]
    out = [_apply(mask, r) for r in rows]
    i = rng.randrange(k)
    out[i] = _apply(_other_mask(rng, mask, rng.random() < 0.5), rows[i])
    return out


def _nonconst(rows):
    return all(len(set(str(v) for v in r if v is not None)) > 2 for r in rows)


def _pool_case(rng, variant, method, maskkind):
    n = rng.randint(4, 5)
    m = n * (n - 1) // 2
    k = rng.randint(2, 4)
    while True:
        st = _stack_with_masks(rng, k, m, maskkind)
        if _nonconst(st):
            break
    zero = None
    if rng.random() < 0.2 and k >= 2:
        # an all-zero (cosine types) or constant (correlation types) RDM: its norm is 0 and `_nonzero`
        # keeps it a zero vector
        i = rng.randrange(1, k)
        cval = 0 if method.startswith('cosine') or rng.random() < 0.3 else rng.choice([1, 2, '1/2'])
        st[i] = [None if v is None else cval for v in st[i]]
        zero = i
    sig = None
    if variant == 'pool' and method.endswith('_cov'):
        sig = _sigma(rng, n, rng.choice(['none', 'vec', 'mat']))
    return {'kind': 'pool', 'variant': variant, 'method': method, 'n': n, 'sigma': sig, 'stack': st,
            'maskkind': maskkind, 'zero_row': zero}


def _prov_rows(rng, k, m, plain):
    """provenance-coded values: entry k of RDM i is 1000*r + 10*(k+1) + (i+1) (r = 0 when `plain`, else a
    random digit): all values of a stack are distinct and the last three digits of a value name the pair
    and the RDM it belongs to, so that an entry-shifted pooled value is recognisable"""
    return [[1000 * (0 if plain else rng.randint(0, 9)) + 10 * (j + 1) + (i + 1) for j in range(m)]
            for i in range(k)]


def _pool_diff_case(rng, variant, method, equal, source):
    """(round 7) RDMs of ONE stack lack different pairs -- in equal number (`equal`) or not; `source`:
    'masks' (an own random mask per RDM) or 'partials' (from_partials of partial RDMs over different
    condition subsets, equally large iff `equal`); at least 3 pairs are present in every RDM"""
    for _ in range(500):
        n = rng.randint(4, 6)
        m = n * (n - 1) // 2
        k = rng.randint(2, 4)
        parts = None
        if source == 'partials':
            k = rng.randint(2, 3)
            n = rng.randint(5, 6)
            m = n * (n - 1) // 2
            if equal:
                kk = rng.randint(n - 2, n - 1)
                sizes = [kk] * k
            else:
                sizes = [rng.randint(3, n) for _ in range(k)]
            subsets = [sorted(rng.sample(range(n), sz)) for sz in sizes]
            if rng.random() < 0.5:
                subsets = [rng.sample(sub, len(sub)) for sub in subsets]
            parts = [{'pidx': sub, 'vec': [0] * (len(sub) * (len(sub) - 1) // 2)} for sub in subsets]
            masks = [[v is not None for v in r] for r in _expand_parts(n, parts, False)]
        else:
            if equal:
                drop = rng.randint(1, m - 4)
                masks = []
                for _i in range(k):
                    dset = set(rng.sample(range(m), drop))
                    masks.append([j not in dset for j in range(m)])
            else:
                masks = [_mask(rng, m, 4) if rng.random() < 0.85 else [True] * m for _ in range(k)]
        counts = [sum(mk) for mk in masks]
        if all(mk == masks[0] for mk in masks) or (len(set(counts)) == 1) != equal:
            continue
        if sum(1 for j in range(m) if all(mk[j] for mk in masks)) < 3 or min(counts) < 4:
            continue
        style = rng.choice(['prov', 'prov', 'provr', 'provr', 'distinct', 'quarters'])
        if style.startswith('prov'):
            rows = _prov_rows(rng, k, m, style == 'prov')
        else:
            rows = [_vector(rng, m, style) for _ in range(k)]
        st = [_apply(mk, r) for mk, r in zip(masks, rows)]
        if not _nonconst(st):
            continue
        if parts is not None:
            # the partial RDMs' own vectors: the values of the expanded stack, read back pair by pair
            for p_, row in zip(parts, st):
                pi = p_['pidx']
                vec = []
                for a in range(len(pi)):
                    for b in range(a + 1, len(pi)):
                        i_, j_ = min(pi[a], pi[b]), max(pi[a], pi[b])
                        vec.append(row[i_ * n - i_ * (i_ + 1) // 2 + (j_ - i_ - 1)])
                p_['vec'] = vec
            if _expand_parts(n, parts, False) != st:
                raise AssertionError('pool partials: expansion differs from the stack')
        sig = None
        if variant == 'pool' and method.endswith('_cov'):
            sig = _sigma(rng, n, rng.choice(['none', 'vec', 'mat']))
        case = {'kind': 'pool', 'variant': variant, 'method': method, 'n': n, 'sigma': sig, 'stack': st,
                'maskkind': 'differing_equal' if equal else 'differing_unequal', 'zero_row': None}
        if parts is not None:
            case['parts'] = parts
        return case
    raise RuntimeError('no differing-mask stack found')


def _pool_diff_cases(rng, rounds):
    for r in range(rounds):
        for variant in ('inf', 'pool'):
            for method in POOL_METHODS[variant]:
                for equal in (True, False):
                    yield _pool_diff_case(rng, variant, method, equal,
                                          'partials' if rng.random() < 0.35 else 'masks')


def _well_conditioned(A, mask):
    a = np.array([[float(unrat(v)) for v, b in zip(r, mask) if b] for r in A])
    a2 = a - a.mean(1, keepdims=True)
    for z in (a, a2):
        g = z @ z.T
        if np.linalg.cond(g) > 2000:
            return False
    return True


def _regress_case(rng, method, nn, mode):
    """mode: bootstrap | common | none | reject"""
    n_full = 5
    m_full = n_full * (n_full - 1) // 2
    k = rng.randint(2, 3)
    nd = rng.randint(2, 3)
    case = {'kind': 'regress', 'method': method, 'nn': nn, 'mode': mode,
            'ridge': rng.choice([0, 0, 0, '1/2', 1]), 'normalize': rng.random() < 0.7}
    while True:
        model = [_vector(rng, m_full, rng.choice(['pos', 'distinct'])) for _ in range(k)]
        data = [_vector(rng, m_full, rng.choice(['pos', 'quarters', 'distinct'])) for _ in range(nd)]
        if mode == 'bootstrap':
            n_full = 5
            n = rng.choice([5, 6])
            idx = _bootstrap_idx(rng, n_full, n)
            if len(set(idx)) < 4:
                continue
            m_full = 10
            if len(model[0]) != m_full:
                model = [_vector(rng, m_full, rng.choice(['pos', 'distinct'])) for _ in range(k)]
                data = [_vector(rng, m_full, rng.choice(['pos', 'quarters', 'distinct'])) for _ in range(nd)]
            A = [orc.subsample_expected(n_full, v, idx) for v in model]
            D = [orc.subsample_expected(n_full, v, idx) for v in data]
            case['boot'] = {'n_full': n_full, 'idx': idx, 'model_full': model, 'data_full': data}
        else:
            n = n_full
            A, D = model, data
            if mode in ('common', 'reject'):
                mask = _mask(rng, m_full, k + 3, max_drop=3)
                A = [_apply(mask, r) for r in A]
                D = [_apply(mask, r) for r in D]
                if mode == 'reject':
                    which = rng.choice(['model', 'data_all', 'model_none'])
                    other = _other_mask(rng, mask, rng.random() < 0.6)
                    if which == 'model':
                        A = [_apply(other, r) for r in model]
                    elif which == 'data_all':
                        D = [_apply(other, r) for r in data]
                    else:
                        A = model
        mask = [v is not None for v in A[0]]
        if sum(mask) < k + 3 or not _nonconst(D) or not _nonconst(A):
            continue
        if mode != 'reject' and not _well_conditioned([[v if v is not None else 0 for v in r] for r in A], mask):
            continue
        break
    case.update({'n': n, 'A': A, 'data': D})
    case['sigma'] = _sigma(rng, n, rng.choice(['none', 'vec', 'mat'])) if method.endswith('_cov') else None
    return case


def _subsample_case(rng):
    n = rng.randint(3, 6)
    m = n * (n - 1) // 2
    k = rng.randint(1, 3)
    v = [_vector(rng, m, rng.choice(['pos', 'quarters', 'neg'])) for _ in range(k)]
    if rng.random() < 0.3:
        mk = _mask(rng, m, 1)
        v = [_apply(mk, r) for r in v]
    idx = [rng.randrange(n) for _ in range(rng.randint(2, n + 1))]
    how = rng.choice(['list', 'list', 'by_none', 'scalar'])
    if how == 'scalar':
        idx = [rng.randrange(n)]
    return {'kind': 'subsample', 'n': n, 'v': v, 'idx': idx, 'how': how}


# ------------------------------------------------------------------ sessions (objects reused across calls)

SESSION_CMP = ['cosine', 'corr', 'spearman', 'kendall', 'tau-a', 'rho-a', 'corr_cov', 'cosine_cov']
SESSION_OPS = ['mean', 'rescale', 'compare', 'pool', 'fit']


def _session_step(rng, op, k):
    if op == 'mean':
        w = rng.choice(['W2', 'W2', 'W2', 'W1', 'none'])
        form = {'W2': ['array', 'array', 'array', 'desc', 'list'], 'W1': ['array', 'desc', 'list'],
                'none': ['none']}[w]
        return {'op': 'mean', 'stack': rng.choice(['a', 'b', 'c', 'c', 'd', 'd']), 'w': w, 'wform': rng.choice(form)}
    if op == 'rescale':
        return {'op': 'rescale', 'stack': rng.choice(['c', 'd', 'a']),
                'method': rng.choice(['evidence', 'setsize', 'simple'])}
    if op == 'compare':
        x, y = rng.choice([('a', 'b'), ('b', 'a'), ('a', 'a'), ('a', 'b'), ('a', 'c'), ('c', 'c'), ('d', 'b')])
        method = rng.choice(SESSION_CMP)
        return {'op': 'compare', 'x': x, 'y': y, 'method': method,
                'sigma': rng.choice(['none', 'Sv', 'Sm']) if method.endswith('_cov') else 'none'}
    if op == 'pool':
        stack = rng.choice(['a', 'b', 'b', 'c'])
        variant = rng.choice(['inf', 'pool'])
        method = rng.choice(POOL_METHODS['pool'] if stack != 'c' else ['euclid', 'cosine', 'spearman', 'corr'])
        return {'op': 'pool', 'stack': stack, 'variant': variant, 'method': method,
                'sigma': rng.choice(['none', 'Sv', 'Sm']) if (variant == 'pool' and method.endswith('_cov')) else 'none'}
    method = rng.choice(FIT_METHODS)
    return {'op': 'fit', 'method': method, 'nn': rng.random() < 0.5, 'ridge': rng.choice([0, 0, '1/2', 1]),
            'normalize': rng.random() < 0.7,
            'sigma': rng.choice(['none', 'Sv', 'Sm']) if method.endswith('_cov') else 'none'}


def _session_case(rng):
    """several calls on *shared* objects: the same RDMs objects, the same weight arrays (a 2-D float ndarray
    of per-entry weights, a 1-D ndarray of per-RDM weights; also stored as rdm_descriptors of every stack),
    the same sigma_k arrays.  Stacks `a` (model RDMs) and `b` (data RDMs) lack one common set of entries,
    `c` and `d` are partial RDMs each lacking other entries.  Every call is judged on its own by the
    property, with the weights / sigma_k / RDMs *as the caller built them*."""
    n, m = 5, 10
    k = rng.randint(2, 3)
    while True:
        a_full = [_vector(rng, m, rng.choice(['pos', 'distinct'])) for _ in range(k)]
        b_full = [_vector(rng, m, rng.choice(['pos', 'quarters', 'distinct'])) for _ in range(k)]
        mask = _mask(rng, m, k + 3, max_drop=3)
        a = [_apply(mask, r) for r in a_full]
        b = [_apply(mask, r) for r in b_full]
        if _nonconst(a) and _nonconst(b) and _well_conditioned(a_full, mask):
            break

    def partial_stack():
        while True:
            rows = []
            for _ in range(k):
                r = _vector(rng, m, rng.choice(['pos', 'quarters']))
                mk = _mask(rng, m, 4) if rng.random() < 0.85 else [True] * m
                rows.append(_apply(mk, r))
            masks = [[v is not None for v in r] for r in rows]
            if any(mm != mask for mm in masks) and orc.overlap_connected(masks):
                return rows
    case = {'kind': 'session', 'n': n,
            'stacks': {'a': a, 'b': b, 'c': partial_stack(), 'd': partial_stack()},
            'weights': {'W2': [[rng.choice([1, 2, 3, '1/2', '1/4', 5]) for _ in range(m)] for _ in range(k)],
                        'W1': [rng.choice([1, 2, 3, '1/2', '3/2', 4]) for _ in range(k)]},
            'sigmas': {'Sv': _sigma(rng, n, 'vec'), 'Sm': _sigma(rng, n, 'mat')}}
    steps = []
    theme = rng.random()
    if theme < 0.5:
        # one per-entry weight array used for stacks whose missing entries differ, then once more
        s1, s2 = rng.sample(['a', 'c', 'd'], 2)
        steps.append({'op': 'mean', 'stack': s1, 'w': 'W2', 'wform': rng.choice(['array', 'array', 'desc'])})
        if rng.random() < 0.5:
            steps.append(_session_step(rng, rng.choice(SESSION_OPS), k))
        steps.append({'op': 'mean', 'stack': s2, 'w': 'W2', 'wform': rng.choice(['array', 'array', 'desc', 'list'])})
        if rng.random() < 0.5:
            steps.append({'op': 'mean', 'stack': s1, 'w': 'W2', 'wform': 'array'})
    elif theme < 0.7:
        # one sigma_k array through compare / pool / fit
        sg = rng.choice(['Sv', 'Sm'])
        steps.append({'op': 'compare', 'x': 'a', 'y': 'b', 'method': rng.choice(['corr_cov', 'cosine_cov']), 'sigma': sg})
        steps.append({'op': 'fit', 'method': rng.choice(['corr_cov', 'cosine_cov']), 'nn': rng.random() < 0.5,
                      'ridge': 0, 'normalize': True, 'sigma': sg})
        steps.append({'op': 'pool', 'stack': 'b', 'variant': 'pool', 'method': rng.choice(['corr_cov', 'cosine_cov']),
                      'sigma': sg})
        steps.append({'op': 'compare', 'x': 'b', 'y': 'a', 'method': rng.choice(['corr_cov', 'cosine_cov']), 'sigma': sg})
        rng.shuffle(steps)
    elif theme < 0.82:
        # one per-RDM weight vector (argument or shared descriptor) for several stacks
        for st_ in rng.sample(['a', 'c', 'd', 'b'], rng.randint(2, 3)):
            steps.append({'op': 'mean', 'stack': st_, 'w': 'W1', 'wform': rng.choice(['array', 'desc'])})
    for _ in range(rng.randint(1, 3)):
        steps.insert(rng.randint(0, len(steps)), _session_step(rng, rng.choice(SESSION_OPS), k))
    case['steps'] = steps
    return case


def _session_subcases(case):
    """every step as a single-call case of its own kind, with the shared inputs as the caller built them"""
    n, st, W, S = case['n'], case['stacks'], case['weights'], case['sigmas']
    subs = []
    for s in case['steps']:
        op = s['op']
        if op == 'mean':
            wk = {'none': 'none', 'W2': 'entry_array', 'W1': 'rdm_array'}[s['w']]
            subs.append({'kind': 'mean', 'n': n, 'wkind': wk, 'v': st[s['stack']], 'w': W.get(s['w'])})
        elif op == 'rescale':
            subs.append({'kind': 'rescale', 'method': s['method'], 'thr': '1e-8', 'n': n, 'd': st[s['stack']]})
        elif op == 'compare':
            subs.append({'kind': 'compare', 'method': s['method'], 'n': n, 'maskkind': 'session', 'form': 'rdms',
                         'sigma': S.get(s['sigma']), 'x': st[s['x']], 'y': st[s['y']]})
        elif op == 'pool':
            subs.append({'kind': 'pool', 'variant': s['variant'], 'method': s['method'], 'n': n,
                         'sigma': S.get(s['sigma']), 'stack': st[s['stack']], 'maskkind': 'session', 'zero_row': None})
        else:
            subs.append({'kind': 'regress', 'method': s['method'], 'nn': s['nn'], 'mode': 'session',
                         'ridge': s['ridge'], 'normalize': s['normalize'], 'n': n, 'A': st['a'], 'data': st['b'],
                         'sigma': S.get(s['sigma'])})
    return subs


def generate(rng, tier):
    quick = tier == 'quick'
    reps = 8 if quick else 60
    nmax = 5 if quick else 6
    for _ in range(reps):
        for method in METHODS:
            for mk in MASKKINDS:
                if method.startswith('bures') and mk in ('bootstrap',):
                    continue
                yield _compare_case(rng, method, mk, nmax)
    for _ in range(1 if quick else 6):
        for mk in MASKKINDS:
            if mk != 'bootstrap':
                yield _compare_case(rng, 'neg_riem_dist', mk, 4)
    # extra weight on the whitened measures with NaNs
    for _ in range(60 if quick else 600):
        yield _compare_case(rng, rng.choice(['cosine_cov', 'corr_cov']),
                            rng.choice(['common', 'bootstrap', 'partials']), nmax)
    for _ in range(200 if quick else 1500):
        yield _parse_case(rng)
    for _ in range(60 if quick else 400):
        for wk in ('none', 'rdm_array', 'rdm_desc', 'entry_array', 'entry_desc'):
            yield _mean_case(rng, wk)
    for _ in range(20 if quick else 120):
        for method in ('evidence', 'setsize', 'simple'):
            for prop in (True, False):
                yield _rescale_case(rng, method, prop, rng.choice(['1e-8', '1e-8', '1e-13']))
    for _ in range(8 if quick else 60):
        for variant in ('inf', 'pool'):
            for method in POOL_METHODS[variant]:
                yield _pool_case(rng, variant, method, rng.choice(['none', 'common', 'common', 'differing']))
    # round 7: RDMs of one stack lacking different pairs in equal / unequal number, every method, both copies
    yield from _pool_diff_cases(rng, 3 if quick else 20)
    for _ in range(15 if quick else 150):
        for method in FIT_METHODS:
            for nn in (False, True):
                yield _regress_case(rng, method, nn, rng.choice(['bootstrap', 'bootstrap', 'common', 'none', 'reject']))
    for _ in range(150 if quick else 1000):
        yield _subsample_case(rng)
    for _ in range(160 if quick else 1500):
        yield _session_case(rng)


def search(rng, tier):
    """failing-input search: the same space, cheap kinds interleaved"""
    k = 0
    while True:
        k += 1
        yield _compare_case(rng, METHODS[k % len(METHODS)], MASKKINDS[(k // len(METHODS)) % len(MASKKINDS)]
                            if not METHODS[k % len(METHODS)].startswith('bures') or
                            MASKKINDS[(k // len(METHODS)) % len(MASKKINDS)] != 'bootstrap' else 'common', 5)
        yield _parse_case(rng)
        yield _mean_case(rng, ('none', 'rdm_array', 'rdm_desc', 'entry_array', 'entry_desc')[k % 5])
        if k % 3 == 0:
            yield _rescale_case(rng, ('evidence', 'setsize', 'simple')[(k // 3) % 3], k % 2 == 0, '1e-8')
            v = ('inf', 'pool')[(k // 3) % 2]
            yield _pool_case(rng, v, rng.choice(POOL_METHODS[v]), rng.choice(['common', 'none']))
            yield _pool_diff_case(rng, v, rng.choice(POOL_METHODS[v]), k % 2 == 0,
                                  'partials' if k % 4 == 0 else 'masks')
            yield _regress_case(rng, rng.choice(FIT_METHODS), k % 2 == 1,
                                rng.choice(['bootstrap', 'common', 'reject']))
            yield _subsample_case(rng)
        if k % 2 == 0:
            yield _session_case(rng)


# ------------------------------------------------------------------ implementation side

def _rdms_from_parts(n, parts, auto=False):
    """real from_partials on partial RDMs given as (pidx, vec); `auto`: all_patterns=None (the union of
    the partial RDMs' patterns in order of first appearance); the partial RDMs carry differing
    descriptors so that the descriptor merging runs too"""
    from rsatoolbox.rdm import RDMs
    labels = [f'c{i}' for i in range(n)]
    lst = []
    for k, p in enumerate(parts):
        lst.append(RDMs(dissimilarities=_arr([p['vec']]),
                        descriptors={'subj': k, 'study': 'a'} if k % 2 == 0 else {'subj': k, 'study': 'a', 'extra': 1},
                        rdm_descriptors={'run': [k]},
                        pattern_descriptors={'conds': [labels[i] for i in p['pidx']]}))
    return _comb.from_partials(lst, all_patterns=None if auto else labels)


def _expand_parts(n, parts, auto):
    """expected stack of from_partials (own transcription)"""
    if not auto:
        return [orc.expand_partial(n, p['pidx'], p['vec']) for p in parts]
    order = list(dict.fromkeys(i for p in parts for i in p['pidx']))
    pos = {i: k for k, i in enumerate(order)}
    return [orc.expand_partial(len(order), [pos[i] for i in p['pidx']], p['vec']) for p in parts]


def _nnls(a, y, ridge, V):
    from rsatoolbox.model import fitter
    import scipy.sparse
    r = _with_alarm(10.0, lambda: fitter._nn_least_squares(
        a.T, y, ridge_weight=ridge, V=None if V is None else scipy.sparse.csc_matrix(V)))
    if isinstance(r, dict):
        return np.full(a.shape[0], np.nan)
    return r[0]


def _impl_compare(case):
    from rsatoolbox.rdm import RDMs
    out = {}
    if 'boot' in case:
        b = case['boot']

        def go():
            rx = RDMs(_arr(b['full_x'])).subsample_pattern('index', b['idx'])
            ry = RDMs(_arr(b['full_y'])).subsample_pattern('index', b['idx'])
            return {'vx': _out(rx.get_vectors()), 'vy': _out(ry.get_vectors()),
                    'res': _out(_cmp.compare(rx, ry, method=case['method'], sigma_k=_sigma_np(case['sigma'])))}
        r = _quiet(go)
    elif 'parts' in case:
        p = case['parts']

        def go():
            rx = _rdms_from_parts(case['n'], [{'pidx': p['pidx'], 'vec': v} for v in p['part_x']])
            ry = _rdms_from_parts(case['n'], [{'pidx': p['pidx'], 'vec': v} for v in p['part_y']])
            return {'vx': _out(rx.get_vectors()), 'vy': _out(ry.get_vectors()),
                    'res': _out(_cmp.compare(rx, ry, method=case['method'], sigma_k=_sigma_np(case['sigma'])))}
        r = _quiet(go)
    else:
        r = _call(case['x'], case['y'], case['method'], case['sigma'], case['form'], case.get('layout', 'c'))
        r = r if isinstance(r, dict) else {'res': r}
        if case['method'] in ('cosine_cov', 'corr_cov') and 'res' in r:
            def direct():
                v1, v2, idx = _cmp._parse_input_rdms(_arr(case['x']), _arr(case['y']))
                if case['method'] == 'corr_cov':
                    v1 = v1 - v1.mean(1, keepdims=True)
                    v2 = v2 - v2.mean(1, keepdims=True)
                d = {}
                if case['sigma'] is None:
                    # the slow path is never taken by compare() for sigma_k=None: call it directly
                    d['slow_direct'] = _out(_cmp._cosine_cov_weighted_slow(v1, v2, None, idx))
                if case['maskkind'] == 'none':
                    d['direct_none'] = _out(_cmp._cosine_cov_weighted(v1, v2, _sigma_np(case['sigma']), None))
                return d
            d = _quiet(direct)
            if 'exc' not in d:
                r.update(d)
    out.update(r)
    return out


def _impl_parse(case):
    x, y = _lay(_arr(case['x']), case.get('layout', 'c')), _lay(_arr(case['y']), case.get('layout', 'c'))

    def one(fn, mask_row):
        def go():
            a, b, m = fn(x, y)
            m = np.asarray(m)
            return {'x': _out(a), 'y': _out(b), 'mask': [bool(t) for t in (m[0] if mask_row else m)]}
        return _quiet(go)
    def wrapper(a, b):
        from rsatoolbox.rdm import RDMs
        return _rdu._parse_input_rdms(RDMs(a), RDMs(b))
    return {'compare': one(_cmp._parse_input_rdms, False), 'utils': one(_rdu._parse_nan_vectors, True),
            'utils_rdms': one(wrapper, True)}


def _impl_mean(case):
    from rsatoolbox.rdm import RDMs

    def go():
        wk, w = case['wkind'], case['w']
        rd = {}
        if wk == 'rdm_desc':
            rd = {'wts': [_fl(a) for a in w]}
        elif wk == 'entry_desc':
            rd = {'wts': _arr(w)}
        if 'parts' in case:
            r = _rdms_from_parts(case['n'], case['parts'], case.get('auto', False))
            for k_, v_ in rd.items():
                r.rdm_descriptors[k_] = v_
        else:
            r = RDMs(_arr(case['v']), rdm_descriptors=rd, descriptors={'session': 1})
        if wk == 'none':
            mm = r.mean()
        elif wk in ('rdm_desc', 'entry_desc'):
            mm = r.mean(weights='wts')
        elif wk == 'rdm_array':
            mm = r.mean(weights=np.array([_fl(a) for a in w]))
        else:
            mm = r.mean(weights=_arr(w))
        return {'mean': _out(mm.get_vectors()[0]), 'desc_is_dict': isinstance(mm.descriptors, dict),
                'source': _out(r.get_vectors()), 'n_rdm': int(mm.n_rdm)}
    return _quiet(go)


def _impl_rescale(case):
    from rsatoolbox.rdm import RDMs
    calls = [0]
    orig = _comb._mean

    def counted(*a, **k):
        calls[0] += 1
        if calls[0] > 3000:
            raise _NoConvergence()
        return orig(*a, **k)

    def go():
        if 'parts' in case:
            r = _rdms_from_parts(case['n'], case['parts'], case.get('auto', False))
        else:
            r = RDMs(_arr(case['d']))
        _comb._mean = counted
        try:
            res = _comb.rescale(r, method=case['method'], threshold=float(case['thr']))
        finally:
            _comb._mean = orig
        return {'aligned': _out(res.get_vectors()), 'weights': _out(np.asarray(res.rdm_descriptors['rescalingWeights'])),
                'passes': calls[0] - 1, 'source': _out(r.get_vectors()), 'converged': True}
    return _quiet(go)


def _impl_pool(case):
    from rsatoolbox.rdm import RDMs
    from rsatoolbox.util import inference_util, pooling

    def go():
        if 'parts' in case:
            r = _rdms_from_parts(case['n'], case['parts'])
        else:
            r = RDMs(_arr(case['stack']))
        if case['variant'] == 'inf':
            p = inference_util.pool_rdm(r, method=case['method'])
        else:
            p = pooling.pool_rdm(r, method=case['method'], sigma_k=_sigma_np(case['sigma']))
        return {'pooled': _out(p.get_vectors()[0])}
    return _quiet(go)


def _impl_regress(case):
    from rsatoolbox.rdm import RDMs
    from rsatoolbox.model import ModelWeighted
    from rsatoolbox.model import fitter

    def go():
        fit = fitter.fit_regress_nn if case['nn'] else fitter.fit_regress
        kw = dict(method=case['method'], sigma_k=_sigma_np(case['sigma']),
                  ridge_weight=_fl(case['ridge']), normalize=case['normalize'])
        if 'boot' in case:
            b = case['boot']
            model = ModelWeighted('m', RDMs(_arr(b['model_full'])))
            data = RDMs(_arr(b['data_full'])).subsample_pattern('index', b['idx'])
            theta = fit(model, data, pattern_idx=np.array(b['idx']), pattern_descriptor='index', **kw)
        else:
            model = ModelWeighted('m', RDMs(_arr(case['A'])))
            theta = fit(model, RDMs(_arr(case['data'])), **kw)
        return {'theta': [float(t) for t in np.asarray(theta).ravel()]}
    return _with_alarm(10.0, lambda: _quiet(go)) if case['nn'] else _quiet(go)


def _impl_subsample(case):
    from rsatoolbox.rdm import RDMs

    def go():
        how = case.get('how', 'list')
        src = RDMs(_arr(case['v']))
        if how == 'by_none':
            r = src.subsample_pattern(None, case['idx'])
        elif how == 'scalar':
            r = src.subsample_pattern('index', case['idx'][0])
        else:
            r = src.subsample_pattern('index', case['idx'])
        return {'v': _out(r.get_vectors())}
    return _quiet(go)


def _impl_session(case):
    """all steps on shared objects, in order; one result per step in the format of the single-call kinds"""
    from rsatoolbox.rdm import RDMs
    from rsatoolbox.model import ModelWeighted, fitter
    from rsatoolbox.util import inference_util, pooling
    W = {'W2': _arr(case['weights']['W2']), 'W1': np.array([_fl(a) for a in case['weights']['W1']], dtype=float)}
    S = {'none': None}
    S.update({k_: _sigma_np(v_) for k_, v_ in case['sigmas'].items()})
    objs = {name: RDMs(_arr(st), rdm_descriptors={'w1': W['W1'], 'w2': W['W2']}, descriptors={'session': name})
            for name, st in case['stacks'].items()}
    model = ModelWeighted('m', objs['a'])
    out = []
    for s in case['steps']:
        op = s['op']
        if op == 'mean':
            def go(s=s):
                r = objs[s['stack']]
                if s['wform'] == 'none':
                    mm = r.mean()
                elif s['wform'] == 'desc':
                    mm = r.mean(weights='w2' if s['w'] == 'W2' else 'w1')
                elif s['wform'] == 'list':
                    mm = r.mean(weights=[[_fl(a) for a in row] for row in case['weights']['W2']] if s['w'] == 'W2'
                                else [_fl(a) for a in case['weights']['W1']])
                else:
                    mm = r.mean(weights=W[s['w']])
                return {'mean': _out(mm.get_vectors()[0]), 'desc_is_dict': isinstance(mm.descriptors, dict),
                        'source': _out(r.get_vectors()), 'n_rdm': int(mm.n_rdm)}
            out.append(_quiet(go))
        elif op == 'rescale':
            calls = [0]
            orig = _comb._mean

            def counted(*a, **k):
                calls[0] += 1
                if calls[0] > 3000:
                    raise _NoConvergence()
                return orig(*a, **k)

            def go(s=s, calls=calls, orig=orig, counted=counted):
                r = objs[s['stack']]
                _comb._mean = counted
                try:
                    res = _comb.rescale(r, method=s['method'], threshold=1e-8)
                finally:
                    _comb._mean = orig
                return {'aligned': _out(res.get_vectors()),
                        'weights': _out(np.asarray(res.rdm_descriptors['rescalingWeights'])),
                        'passes': calls[0] - 1, 'source': _out(r.get_vectors()), 'converged': True}
            out.append(_quiet(go))
        elif op == 'compare':
            def go(s=s):
                return {'res': _out(_cmp.compare(objs[s['x']], objs[s['y']], method=s['method'],
                                                 sigma_k=S[s['sigma']]))}
            out.append(_quiet(go))
        elif op == 'pool':
            def go(s=s):
                r = objs[s['stack']]
                if s['variant'] == 'inf':
                    p_ = inference_util.pool_rdm(r, method=s['method'])
                else:
                    p_ = pooling.pool_rdm(r, method=s['method'], sigma_k=S[s['sigma']])
                return {'pooled': _out(p_.get_vectors()[0])}
            out.append(_quiet(go))
        else:
            def go(s=s):
                fit = fitter.fit_regress_nn if s['nn'] else fitter.fit_regress
                theta = fit(model, objs['b'], method=s['method'], sigma_k=S[s['sigma']],
                            ridge_weight=_fl(s['ridge']), normalize=s['normalize'])
                return {'theta': [float(t) for t in np.asarray(theta).ravel()]}
            out.append(_with_alarm(10.0, lambda go=go: _quiet(go)) if s['nn'] else _quiet(go))
    # the shared inputs after the session (informative; judged by C12, not here)
    return {'steps': out}


_IMPL = {'compare': _impl_compare, 'parse': _impl_parse, 'mean': _impl_mean, 'rescale': _impl_rescale,
         'pool': _impl_pool, 'regress': _impl_regress, 'subsample': _impl_subsample,
         'session': _impl_session}


def run_impl(case):
    return _IMPL[case['kind']](case)


# ------------------------------------------------------------------ model side

def _encf(v):
    return None if v is None else fbits(_fl(v))


def _encq(v):
    return None if v is None else rat(unrat(v))


def _sigma_wire(sig, enc):
    if sig is None:
        return None
    if 'vec' in sig:
        return [enc(v) for v in sig['vec']]
    return [[enc(v) for v in row] for row in sig['mat']]


def _stack_wire(st, enc):
    return [[enc(v) for v in r] for r in st]


def _pool_wire(variant, method):
    """(model pool method, constant added after - nanmin)"""
    if method in ('euclid', 'neg_riem_dist'):
        return 'euclid', 0.0
    if method in ('spearman', 'rho-a', 'kendall', 'tau-b', 'tau-a'):
        return 'rank', 0.0
    return method, (0.0 if variant == 'inf' else 0.01)


def model_requests(case):
    k = case['kind']
    if k == 'compare':
        return [{'op': 'c13.compare', 'method': case['method'], 'n': case['n'],
                 'x': _stack_wire(case['x'], _encf), 'y': _stack_wire(case['y'], _encf),
                 'sigma': _sigma_wire(case['sigma'], _encf)}]
    if k == 'parse':
        return [{'op': 'c13.parse', 'x': _stack_wire(case['x'], _encq), 'y': _stack_wire(case['y'], _encq)}]
    if k == 'mean':
        wk = case['wkind']
        req = {'op': 'c13.mean', 'v': _stack_wire(case['v'], _encq)}
        if wk == 'none':
            req['wkind'] = 'none'
        elif wk in ('rdm_array', 'rdm_desc'):
            req['wkind'], req['w'] = 'rdm', [_encq(a) for a in case['w']]
        else:
            req['wkind'], req['w'] = 'entry', _stack_wire(case['w'], _encq)
        return [req]
    if k == 'rescale':
        return [{'op': 'c13.rescale', 'method': case['method'], 'thr': fbits(float(case['thr'])),
                 'd': _stack_wire(case['d'], _encf), 'fuel': 3000}]
    if k == 'pool':
        pm, c = _pool_wire(case['variant'], case['method'])
        return [{'op': 'c13.pool', 'pm': pm, 'copy': case['variant'], 'n': case['n'],
                 'sigma': _sigma_wire(case['sigma'], _encf), 'stack': _stack_wire(case['stack'], _encf)}]
    if k == 'regress':
        base = {'op': 'c13.regress', 'method': case['method'], 'n': case['n'],
                'sigma': _sigma_wire(case['sigma'], _encf), 'A': _stack_wire(case['A'], _encf),
                'data': _stack_wire(case['data'], _encf)}
        if case['nn']:
            # `fit_regress_nn`: C08's active-set model (`Rsa.Fit.nnls`) on the reduced normal equations
            return [dict(base, ridge=_encf(case['ridge']), normalize=case['normalize'], nn=True, eps=fbits(NN_EPS))]
        return [dict(base, ridge=_encf(case['ridge']), normalize=case['normalize'])]
    if k == 'subsample':
        return [{'op': 'c13.subsample', 'n': case['n'], 'sel': sorted(case['idx']), 'v': [_encq(a) for a in v]}
                for v in case['v']]
    if k == 'session':
        return [r for sub in _session_subcases(case) for r in model_requests(sub)]
    raise ValueError(k)


def _dec_f(x):
    if isinstance(x, list):
        return [_dec_f(a) for a in x]
    if x is None:
        return None
    if isinstance(x, str) and len(x) == 16:
        v = unfbits(x)
        return None if math.isnan(v) else v
    return x


def _dec_q(x):
    if isinstance(x, list):
        return [_dec_q(a) for a in x]
    return None if x is None else float(unrat(x))


def model_result(case, answers):
    for a in answers:
        if isinstance(a, dict) and 'model_error' in a:
            return a
    k = case['kind']
    if k == 'session':
        out, pos = [], 0
        for sub in _session_subcases(case):
            cnt = len(model_requests(sub))
            out.append(model_result(sub, answers[pos:pos + cnt]))
            pos += cnt
        return {'steps': out}
    a = answers[0]
    if k == 'compare':
        out = {}
        for key in ('coded', 'slow'):
            if key in a:
                out[key] = {'exc': a[key]['exc']} if 'exc' in a[key] else {'res': _dec_f(a[key]['res'])}
        return out
    if k == 'parse':
        out = {}
        for key in ('coded', 'utils', 'legacy'):
            r = a[key]
            out[key] = r if 'exc' in r else {'x': _dec_q(r['x']), 'y': _dec_q(r['y']), 'mask': r['mask']}
        return out
    if k == 'mean':
        return {'coded': _dec_q(a['coded']), 'spec': _dec_q(a['spec']), 'exact_equal': a['coded'] == a['spec']}
    if k == 'rescale':
        return {'aligned': _dec_f(a['aligned']), 'weights': _dec_f(a['weights']), 'passes': a['passes'],
                'converged': a['converged']}
    if k == 'pool':
        return {'coded': _dec_f(a['coded']), 'deleted': _dec_f(a['deleted'])}
    if k == 'regress':
        out = {'exc': a['exc']} if 'exc' in a else {'theta': _dec_f(a['theta'])}
        if 'exited' in a:
            out['exited'] = a['exited']
        return out
    if k == 'subsample':
        return {'v': [_dec_q(r['v']) for r in answers], 'mask': [r['mask'] for r in answers]}
    raise ValueError(k)


# ------------------------------------------------------------------ comparison

_MODEL_EXC = {'nanpos': 'ValueError', 'shape': 'ValueError'}


def _diff_matrix(a, b, rtol, atol, undefined_ok):
    """a = implementation, b = model; None = NaN / undefined"""
    if len(a) != len(b) or any(len(r) != len(s) for r, s in zip(a, b)):
        return f'shape {len(a)}x{len(a[0]) if a else 0} != {len(b)}x{len(b[0]) if b else 0}'
    for i, (r, s) in enumerate(zip(a, b)):
        for j, (u, v) in enumerate(zip(r, s)):
            if isinstance(v, str):
                return f'[{i}][{j}]: impl {u!r}, model {v}'
            if v is None:
                if u is None or (undefined_ok and u == 0.0):
                    continue
                return f'[{i}][{j}]: impl {u!r}, model undefined'
            if u is None:
                return f'[{i}][{j}]: impl nan, model {v!r}'
            if not close(u, v, rtol, atol):
                return f'[{i}][{j}]: impl {u!r} != model {v!r}'
    return None


def _diff_vec(a, b, rtol, atol, what):
    if a is None or b is None or len(a) != len(b):
        return f'{what}: {a} vs {b}'
    for k, (u, v) in enumerate(zip(a, b)):
        if isinstance(u, list):
            d = _diff_vec(u, v, rtol, atol, f'{what}[{k}]')
            if d:
                return d
            continue
        if (u is None) != (v is None):
            return f'{what}[{k}]: impl {u!r}, model {v!r}'
        if u is not None and not close(u, v, rtol, atol):
            return f'{what}[{k}]: impl {u!r} != model {v!r}'
    return None


def _cmp_tol(case):
    m = case['method']
    if m.startswith('bures'):
        return 1e-5, 1e-5
    if m in ('corr_cov', 'cosine_cov') and case['sigma'] is not None:
        return 2e-4, 2e-4
    return 1e-9, 1e-11


def _cmp_exc(impl, model_exc):
    want = _MODEL_EXC.get(model_exc, model_exc)
    return None if impl.get('exc') == want else f'impl {impl}, model raises {want} ({model_exc})'


def _bures_model(res):
    """the model marks 'reduced length is no RDM length' by the string ValueError in every cell"""
    return isinstance(res, list) and res and isinstance(res[0][0], str)


def compare(case, impl, model):
    if isinstance(model, dict) and 'model_error' in model:
        return f'model error {model}'
    k = case['kind']
    if k == 'session':
        for i, (sub, im, mo) in enumerate(zip(_session_subcases(case), impl['steps'], model['steps'])):
            d = compare(sub, im, mo)
            if d:
                return f'step {i} ({case["steps"][i]["op"]}): {d}'
        return None
    if k == 'compare':
        cx = [[_fl(v) for v in r] for r in case['x']]
        cy = [[_fl(v) for v in r] for r in case['y']]
        if 'vx' in impl and (impl['vx'] != cx or impl['vy'] != cy):
            return f'masked stacks produced by the library differ from the expected ones: {impl["vx"]} vs {cx}'
        coded = model['coded']
        if 'exc' in coded:
            return _cmp_exc(impl, coded['exc'])
        if _bures_model(coded['res']):
            if coded['res'][0][0] == 'reduced':
                # not modelled beyond the parser (Nelder-Mead): what the same call returns on the reduced arrays
                exp = _call([[v for v in r if v is not None] for r in case['x']],
                            [[v for v in r if v is not None] for r in case['y']], case['method'], None, 'array')
                if isinstance(exp, dict) or 'exc' in impl:
                    return None if impl.get('exc') == (exp.get('exc') if isinstance(exp, dict) else None) \
                        else f'impl {impl.get("exc", "values")}, reduced arrays give {exp if isinstance(exp, dict) else "values"}'
                return _diff_matrix(impl['res'], exp, 1e-6, 1e-8, False)
            return _cmp_exc(impl, 'ValueError')
        if 'exc' in impl:
            return f'impl raised {impl["exc"]}, model gives values'
        rtol, atol = _cmp_tol(case)
        und = case['method'] in ('corr_cov', 'cosine_cov')
        d = _diff_matrix(impl['res'], coded['res'], rtol, atol, und)
        if d:
            return f'{case["method"]} {d}'
        if 'slow' in model and 'res' in model['slow']:
            d = _diff_matrix(coded['res'], model['slow']['res'], 1e-7, 1e-9, True)
            if d:
                return f'model: fast path with missing values differs from the V sub-block formula: {d}'
            if 'slow_direct' in impl:
                d = _diff_matrix(impl['slow_direct'], model['slow']['res'], 2e-4, 2e-4, True)
                if d:
                    return f'_cosine_cov_weighted_slow(sigma_k=None, nan_idx) differs from the V sub-block formula: {d}'
        if 'direct_none' in impl:
            d = _diff_matrix(impl['direct_none'], coded['res'], 2e-4, 2e-4, und)
            if d:
                return f'_cosine_cov_weighted(nan_idx=None) differs: {d}'
        return None
    if k == 'parse':
        for which in ('compare', 'utils', 'utils_rdms'):
            r, c = impl[which], model['coded' if which == 'compare' else 'utils']
            if 'exc' in c:
                d = _cmp_exc(r, c['exc'])
                if d:
                    return f'{which}: {d}'
            elif r != c:
                return f'{which}: impl {r} != model {c}'
        return None
    if k == 'mean':
        if not model['exact_equal']:
            return 'model: _mean as coded differs from the specification'
        if 'exc' in impl:
            return f'impl raised {impl["exc"]}'
        if impl['source'] != [[_fl(v) for v in r] for r in case['v']]:
            return 'the RDMs object does not hold the expected vectors (from_partials output / source changed by an earlier call)'
        if not impl['desc_is_dict'] or impl['n_rdm'] != 1:
            return 'mean RDMs object malformed (descriptors not a dict / not one RDM)'
        return _diff_vec(impl['mean'], model['coded'], 1e-12, 1e-13, 'mean')
    if k == 'rescale':
        if 'exc' in impl:
            return f'impl raised {impl["exc"]}'
        if impl['source'] != [[_fl(v) for v in r] for r in case['d']]:
            return 'the RDMs object does not hold the expected vectors (from_partials output / source changed by an earlier call)'
        if not model['converged']:
            return 'model: loop did not stop within its fuel'
        if impl['passes'] != model['passes']:
            return f'number of passes: impl {impl["passes"]}, model {model["passes"]}'
        return (_diff_vec(impl['aligned'], model['aligned'], 1e-9, 1e-12, 'aligned') or
                _diff_vec(impl['weights'], model['weights'], 1e-12, 1e-14, 'weights'))
    if k == 'pool':
        if 'exc' in impl:
            return f'impl raised {impl["exc"]}'
        cov = case['variant'] == 'pool' and case['method'].endswith('_cov')
        rtol, atol = (2e-4, 2e-4) if cov else (1e-9, 1e-11)
        d = _diff_vec(impl['pooled'], model['coded'], rtol, atol, 'pooled')
        if d:
            return d
        masks = [[v is not None for v in r] for r in case['stack']]
        if all(m == masks[0] for m in masks):
            d = _diff_vec(model['coded'], model['deleted'], 1e-9, 1e-11, 'model coded vs reduced')
            if d:
                return 'model: pooling with a common mask differs from pooling the reduced rows: ' + d
        return None
    if k == 'regress':
        if 'exc' in model:
            return _cmp_exc(impl, model['exc'])
        if 'exc' in impl:
            return f'impl raised {impl["exc"]}, model gives theta'
        tol = 2e-3 if case['method'].endswith('_cov') else 1e-7
        if case['nn'] and not model.get('exited', True):
            return 'model: the active-set loop of fit_regress_nn stopped at its iteration bound'
        return _diff_vec(impl['theta'], model['theta'], tol, tol, 'theta (nn)' if case['nn'] else 'theta')
    if k == 'subsample':
        if 'exc' in impl:
            return f'impl raised {impl["exc"]}'
        if impl['v'] != model['v']:
            return f'subsample_pattern: impl {impl["v"]} != model {model["v"]}'
        return None
    raise ValueError(k)


# ------------------------------------------------------------------ features

def _sigma_kind(sig):
    if sig is None:
        return 'none'
    return 'vec' if 'vec' in sig else 'mat'


def _has_nan(st):
    return any(v is None for r in st for v in r)


def features(case, impl):
    k = case['kind']
    f = {'kind': k}
    br = []
    if k == 'session':
        f['branches'] = _session_branches(case, impl)
        f['n_steps'] = len(case['steps'])
        return f
    if k == 'compare':
        sk = _sigma_kind(case['sigma'])
        f.update(method=case['method'], maskkind=case['maskkind'], sigma=sk, form=case['form'], n=case['n'])
        br += ['method:' + case['method'], 'mask:' + case['maskkind'], 'input:' + case['form']]
        if 'boot' not in case and 'parts' not in case:
            f['layout'] = case.get('layout', 'c')
            br.append('layout:' + case.get('layout', 'c'))
            if (_has_nan(case['x']) or _has_nan(case['y'])) and case.get('layout', 'c') != 'c' \
                    and case['form'] in ('array', 'mixed', 'vector'):
                br.append('layout:noncontiguous_array_with_nan')
        nan = _has_nan(case['x']) or _has_nan(case['y'])
        if case['method'] in ('corr_cov', 'cosine_cov'):
            br.append('sigma:' + sk)
            if nan and case['maskkind'] in ('common', 'bootstrap', 'partials'):
                br.append('fast_path_nan' if case['sigma'] is None else 'slow_path_nan')
        if impl is not None:
            if 'slow_direct' in impl and nan:
                br.append('slow_path_sigma_none_direct')
            if 'direct_none' in impl:
                br.append('direct_nan_idx_none')
            if 'exc' in impl:
                br.append('rejected')
                f['rejected'] = True
            elif nan:
                br.append('accepted_with_nan')
    else:
        br.append('kind:' + k)
    if k == 'parse':
        f['maskkind'] = case['maskkind']
        br.append('parse:layout:' + case.get('layout', 'c'))
        if impl is not None and 'utils_rdms' in impl:
            br.append('parse:rdms_wrapper')
        if case['maskkind'] == 'shape':
            br.append('parse:shape')
    if k == 'subsample':
        if case.get('how') == 'by_none':
            br.append('subsample:by_none')
        if case.get('how') == 'scalar':
            br.append('subsample:scalar')
    if k == 'mean':
        f['wkind'] = case['wkind']
        br.append('w:' + case['wkind'])
        if any(all(r[j] is None for r in case['v']) for j in range(len(case['v'][0]))):
            br.append('mean:all_missing_entry')
        if 'parts' in case:
            br.append('mean:partials')
            if case.get('auto'):
                br.append('partials:auto_patterns')
    if k == 'rescale':
        f.update(method=case['method'], proportional='prop' in case, thr=case['thr'])
        br += ['rescale:' + case['method'], 'rescale:proportional' if 'prop' in case else 'rescale:nonproportional']
        if 'parts' in case:
            br.append('rescale:partials')
            if case.get('auto'):
                br.append('partials:auto_patterns')
    if k == 'pool':
        f.update(method=case['method'], variant=case['variant'], maskkind=case['maskkind'],
                 sigma=_sigma_kind(case['sigma']))
        br += ['pool:' + case['variant']]
        if case['maskkind'] in ('common', 'differing'):
            br.append('pool:' + case['maskkind'])
        pmasks = [[v is not None for v in r] for r in case['stack']]
        if any(mk != pmasks[0] for mk in pmasks):
            if len({sum(mk) for mk in pmasks}) == 1:
                br.append('pool:differing-masks-equal-count:' + case['variant'])
                br.append('pool:differing-masks-equal-count:' + case['variant'] + ':' + _pool_wire(case['variant'], case['method'])[0])
            else:
                br.append('pool:differing-masks-unequal-count')
                br.append('pool:differing-masks-unequal-count:' + case['variant'])
            if 'parts' in case:
                br.append('pool:differing-masks:from_partials')
            f['pool_masks'] = 'equal-count' if len({sum(mk) for mk in pmasks}) == 1 else 'unequal-count'
        if case['sigma'] is not None:
            br.append('pool:cov_sigma')
            if 'vec' in case['sigma']:
                br.append('pool:sigma_vec')
        if case.get('zero_row') is not None:
            br.append('pool:zero_norm')
    if k == 'regress':
        f.update(method=case['method'], nn=case['nn'], mode=case['mode'], sigma=_sigma_kind(case['sigma']))
        br.append('regress:nn' if case['nn'] else 'regress:ls')
        if case['mode'] == 'bootstrap':
            br.append('regress:bootstrap')
        if impl is not None and impl.get('exc') == 'Timeout':
            f['nn_timeout'] = True
        elif impl is not None and 'exc' in impl:
            br.append('regress:rejected')
        if str(case['ridge']) != '0':
            br.append('regress:ridge')
        if case['sigma'] is not None:
            br.append('regress:sigma')
            if 'vec' in case['sigma']:
                br.append('regress:sigma_vec')
    f['branches'] = br
    return f


def _session_branches(case, impl):
    br = ['kind:session']
    steps = case['steps']
    masks = {name: [[v is not None for v in r] for r in st] for name, st in case['stacks'].items()}
    for s_ in steps:
        br.append('session:op:' + s_['op'])
    # the same 2-D weight ndarray (argument or shared descriptor) in mean calls on stacks lacking other entries
    arr = [(i, s_) for i, s_ in enumerate(steps) if s_['op'] == 'mean' and s_['w'] == 'W2'
           and s_['wform'] in ('array', 'desc')]
    for (i, s1) in arr:
        later = [s2 for (j, s2) in enumerate(steps) if j > i and s2['op'] == 'mean' and s2['w'] == 'W2']
        if any(masks[s2['stack']] != masks[s1['stack']] for s2 in later):
            br.append('session:weights_reused_other_mask')
        if any(s2['wform'] == 'list' for s2 in later):
            br.append('session:weights_list_after_array')
        if any(s2['stack'] == s1['stack'] for s2 in later) and any(s2['stack'] != s1['stack'] for s2 in later):
            br.append('session:weights_back_to_first_stack')
    if sum(1 for s_ in steps if s_['op'] == 'mean' and s_['w'] == 'W1' and s_['wform'] in ('array', 'desc')) > 1:
        br.append('session:rdm_weights_reused')
    sig = [s_['sigma'] for s_ in steps if s_.get('sigma', 'none') != 'none']
    if any(sig.count(x) > 1 for x in set(sig)):
        br.append('session:sigma_reused')
    used = []
    for s_ in steps:
        used += [s_.get('stack'), s_.get('x'), s_.get('y')] + (['a', 'b'] if s_['op'] == 'fit' else [])
    used = [u for u in used if u]
    if any(used.count(x) > 1 for x in set(used)):
        br.append('session:rdms_reused')
    ops = [s_['op'] for s_ in steps]
    for a_, b_ in zip(ops, ops[1:]):
        if a_ != b_:
            br.append('session:mixed_ops')
            break
    if 'rescale' in ops and 'mean' in ops[ops.index('rescale'):]:
        br.append('session:mean_after_rescale')
    if impl is not None and isinstance(impl, dict) and 'steps' in impl:
        if any(isinstance(r, dict) and 'exc' in r for r in impl['steps']):
            br.append('session:step_rejected')
    return sorted(set(br))


def nontrivial_key(case, impl):
    k = case['kind']
    if k == 'compare' and not (_has_nan(case['x']) or _has_nan(case['y'])):
        return None
    if k == 'mean' and not _has_nan(case['v']) and case['wkind'] == 'none':
        return None
    return case


# ------------------------------------------------------------------ oracle, shrink

def _oracle_session(case):
    impl = run_impl(case)
    for i, (sub, im) in enumerate(zip(_session_subcases(case), impl['steps'])):
        k = sub['kind']
        if k == 'compare':
            obs = im['res'] if 'res' in im else im
            o = orc.check_compare(sub, lambda *a, obs=obs: obs)
        elif k == 'mean':
            o = orc.check_mean(sub, im)
        elif k == 'rescale':
            o = orc.check_rescale(sub, im)
        elif k == 'pool':
            o = orc.check_pool(sub, im)
        else:
            o = orc.check_regress(sub, im, _nnls)
        if o:
            st = case['steps'][i]
            o['what'] = f'call {i + 1} of {len(case["steps"])} ({st["op"]}) on reused objects: ' + o['what']
            o['features'] = dict(o.get('features', {}), kind='session', step=i, op=st['op'],
                                 first_call=(i == 0))
            return o
    return None


def oracle(case):
    k = case['kind']
    if k == 'session':
        return _oracle_session(case)
    if k == 'compare':
        if 'boot' in case or 'parts' in case:
            impl = run_impl(case)
            cx = [[_fl(v) for v in r] for r in case['x']]
            if 'vx' in impl and impl['vx'] != cx:
                return orc.fail(case, 'mask_source', 'subsample_pattern / from_partials produced other vectors',
                                impl['vx'], cx, maskkind=case['maskkind'])
        lay = case.get('layout', 'c')
        return orc.check_compare(case, lambda x, y, me, sg, fo: _call(x, y, me, sg, fo, lay if fo == case['form'] else 'c'))
    impl = run_impl(case)
    if k == 'parse':
        return orc.check_parse(case, impl)
    if k == 'mean':
        return orc.check_mean(case, impl)
    if k == 'rescale':
        return orc.check_rescale(case, impl)
    if k == 'pool':
        return orc.check_pool(case, impl)
    if k == 'regress':
        return orc.check_regress(case, impl, _nnls)
    if k == 'subsample':
        return orc.check_subsample(case, impl)
    raise ValueError(k)


def shrink(case, still_fails):
    best = case
    if case['kind'] == 'session':
        i = 0
        while i < len(best['steps']) and len(best['steps']) > 1:
            c = dict(best, steps=best['steps'][:i] + best['steps'][i + 1:])
            if still_fails(c):
                best = c
            else:
                i += 1
        return best
    if case['kind'] == 'compare' and 'boot' not in case and 'parts' not in case:
        if len(best['x']) > 1 or len(best['y']) > 1:
            done = False
            for xi in best['x']:
                for yi in best['y']:
                    c = dict(best, x=[xi], y=[yi])
                    if still_fails(c):
                        best, done = c, True
                        break
                if done:
                    break
        if best['form'] != 'array':
            c = dict(best, form='array')
            if still_fails(c):
                best = c
        f = lambda v: None if v is None else int(round(_fl(v)))   # noqa: E731
        c = dict(best, x=[[f(v) for v in r] for r in best['x']], y=[[f(v) for v in r] for r in best['y']])
        if c != best and still_fails(c):
            best = c
    if case['kind'] == 'mean' and 'parts' not in case:
        while len(best['v']) > 2:
            c = dict(best, v=best['v'][:-1], w=None if best['w'] is None else best['w'][:-1])
            if still_fails(c):
                best = c
            else:
                break
    return best
