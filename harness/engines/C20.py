"""C20 — importers recover exactly the structure encoded in external names and files.

Engine interface (see harness/run_check.py).  The work is split by importer:
  C20_bids.py     BIDS path parse / format / look-ups           (io/bids.py)
  C20_meadows.py  Meadows file names and .mat / .json loading   (io/meadows.py)
  C20_mne.py      MNE epochs -> TemporalDataset                 (io/mne.py)
  C20_dm.py       HRF design matrix                             (io/fmriprep.py, io/hrf.py)
  C20_spm.py      SPM high-pass filter, residuals, relocation, SPM.mat  (io/spm.py)
  C20_tree.py     fMRIPrep runs in a real BIDS tree             (io/bids.py, io/fmriprep.py)
  C20_session.py  many look-ups on ONE BidsLayout / its objects (io/bids.py, io/fmriprep.py)
Every case has a 'kind' that selects the sub-engine.
"""
import json
from lean import first_diff
from engines import C20_bids, C20_meadows, C20_mne, C20_dm, C20_spm, C20_tree, C20_session

PROPERTY = 'C20'
LEVEL = 'proof'
P = 'Rsa.Props.C20.'
THEOREMS = [P + n for n in (
    'split_join', 'join_split',
    'bids_roundtrip', 'bids_rebuild', 'lookup_changes_only',
    'meadows_segments', 'meadows_sort_labelled', 'meadows_components',
    'epochs_mapping', 'mne_descriptors',
    'columns_range_one_mean_zero', 'dm_dof', 'confounds_flagged', 'dm_one_column_per_condition',
    'spm_filter_projection', 'spm_filter_runs_independent', 'spm_filter_idempotent',
    'derivative_files_spec', 'dataset_descriptors_exact', 'normalise_scale_invariant',
    'reg_index_one_based', 'parse_reg_name',
    # round 3
    'fmriprep_accessor_files', 'hrf_sampling_grid', 'hrf_linear_in_events', 'hrf_linear_in_kernel',
    'hrf_zero_outside_support', 'hrf_shift_equivariant', 'epoch_times_grid', 'epochs_selection',
    'spm_residuals_annihilated', 'betas_resms_split', 'relocate_spec', 'meadows_rejections',
    'stem_padded', 'padStrs_spec', 'confound_selection', 'hrf_table_shape',
    'meadows_loader_syntax',
    # round 4
    'session_lookups_stateless', 'session_meta_own_sidecar',
    # round 5
    'meadows_json_task_values', 'meadows_mat_participant_values')]
RULE = ('cases come from one PRNG and seven sub-generators: BIDS paths built from entity records by '
        'an independent formatter (all 64 presence patterns of ses/task/run/space/desc/derivative x '
        'random and adversarial labels, plus normpath noise and out-of-grammar paths); Meadows names '
        'of the three shapes and files written by the harness (.mat single / multi participant, .json '
        'multi task; 2-6 stimuli, 1-4 RDMs, sort on/off) plus the rejected combinations; multi-task .json '
        'files whose later multi-arrangement tasks (2-4 in all, tasks of other types before / between / '
        'after) list the first task\'s stimuli in another order, other stimuli, a superset, a subset, '
        'the same stems with another extension or the same list, every task\'s rdm laid out in its own '
        'order with pairwise different values, judged from the file read back from disk; multi-participant '
        '.mat files whose 2-5 participants each have their own stimuli_<p> list (same / re-ordered / '
        'repeated other order / other set / superset / subset) and rdmutv_<p> in their own order, '
        'variables in mixed order, judged per participant from the file read back; real '
        'mne.EpochsArray objects (also through a FIF file; repeated event codes, event_id dicts in any '
        'order, selections by name, epochs starting before / at / after the event); event tables x '
        'dyadic TR x volumes x confound tables (with n/a columns), the model placing the tabulated '
        'response interpolant at every onset itself; SPM runs with exactly orthonormal rational filter bases '
        '(Householder columns); whole SPM.mat files written by the harness (1-3 sessions) through '
        'get_info_from_spm_mat / get_betas / get_residuals; BIDS trees written by the harness (1-5 runs, '
        'every presence pattern of ses/task/run/space, task filters) through find_fmriprep_runs and every '
        'FmriprepRun accessor, file contents being a function of the path (two sessions of one subject, '
        'the same file names in another derivative and in the raw tree, requested confound names none / '
        'empty / subset / reversed / missing); Meadows stimulus names with, without and with mixed '
        'extensions (blank-padded char matrices); look-up sessions: ONE BidsLayout and the file / FmriprepRun '
        'objects it hands out asked 6-30 questions in varying order (trees with identical file names '
        'under the raw root and 1-3 derivatives, several subjects / sessions, absent sidecars, objects '
        'made directly / by find_mri_derivative_files / by find_fmriprep_runs, second objects for one '
        'path, results kept and asked again, look-ups through layout / file / run), every call judged '
        'on its own (file found + content read).  Each sub-generator starts '
        'with a fixed skeleton of directed cases reaching every tag of BRANCHES, then the random stream.  '
        'A case is non-trivial unless it is an out-of-grammar name; '
        'distinct = distinct JSON of the case')
BRANCHES = (C20_bids.BRANCHES + C20_meadows.BRANCHES + C20_mne.BRANCHES + C20_dm.BRANCHES
            + C20_spm.BRANCHES + C20_tree.BRANCHES + C20_session.BRANCHES)
ASSUMPTIONS = [
    'os.path.normpath is the identity on relative paths without empty, "." or ".." components '
    '(the model drops empty and "." components, ".." is outside the BIDS grammar)',
    'scipy.io.loadmat / json.load return what savemat / json.dump wrote, char matrices blank-padded '
    'to the longest row (modelled: padStrs); labels of extension-less names in a .mat keep that '
    'padding and are compared modulo trailing blanks by the oracle',
    'the HRF (x) box convolution and the PCHIP resampling of make_design_matrix are a contract: the '
    'model receives the number of samples of the resampled response and a table of its PCHIP '
    'interpolant at the arguments it asks for (C20_dm.response, an independent transcription); '
    'placing the knots at onset + hrf_times shifts that interpolant by the onset (1e-9); TRs and '
    'onsets are dyadic so that the support test o <= t <= o + T is decided alike in floats and in Q',
    'epochs.times[k] = (first + k) / sfreq is mne\'s contract (modelled: epochTimes)',
    'numpy float64 evaluation of the projections / normalisations is within 1e-9 of exact arithmetic',
]
TRUSTED_EXTRA = [
    'mne.EpochsArray / Epochs.save / read_epochs, scipy.io.savemat/loadmat, pandas DataFrame semantics',
    'scipy.interpolate.pchip (shape-preserving interpolation) as used for the HRF predictors',
]

SUB = {'bids': C20_bids, 'meadows_name': C20_meadows, 'meadows_load': C20_meadows,
       'mne': C20_mne, 'mne_name': C20_mne, 'dm': C20_dm,
       'spm': C20_spm, 'spm_resid': C20_spm, 'relocate': C20_spm, 'spm_info': C20_spm,
       'tree': C20_tree, 'session': C20_session}


def generate(rng, tier):
    for mod in (C20_bids, C20_meadows, C20_mne, C20_dm, C20_spm, C20_tree, C20_session):
        yield from mod.gen(rng, tier)


def search(rng, tier):
    # failing-input search: the numeric importers first (cheap, most fragile), then the names
    for mod in (C20_spm, C20_dm, C20_meadows, C20_tree, C20_session, C20_mne, C20_bids):
        yield from mod.gen(rng, 'quick')


def run_impl(case):
    return SUB[case['kind']].impl(case)


def model_requests(case):
    return SUB[case['kind']].requests(case)


def model_result(case, answers):
    return SUB[case['kind']].result(case, answers)


def _strip_paths(x):
    """a failed construction reports only the exception"""
    if isinstance(x, dict):
        if 'exc' in x:
            return {'exc': x['exc']}
        return {k: _strip_paths(v) for k, v in x.items()}
    return x


def compare(case, impl, model):
    if isinstance(model, dict) and 'model_error' in model:
        return f'model error {model}'
    if case['kind'] == 'bids':
        impl, model = _strip_paths(impl), _strip_paths(model)
    return first_diff(impl, model, rtol=1e-9, atol=1e-9)


def oracle(case):
    return SUB[case['kind']].oracle(case)


def features(case, impl):
    return SUB[case['kind']].feats(case, impl)


def nontrivial_key(case, impl):
    if case['kind'] == 'bids' and not case.get('valid'):
        return None
    if case['kind'] in ('meadows_name', 'mne_name') and not case.get('expect'):
        return None
    return json.dumps(case, sort_keys=True, default=str)


def shrink(case, still_fails):
    if case['kind'] == 'spm':
        return C20_spm.shrink(case, still_fails)
    if case['kind'] == 'session':
        return C20_session.shrink(case, still_fails)
    return case
