"""C12 helper — the *static sharing graph* between the arguments and the result of one call.

Every mutable node reachable from the result (recursively through lists / tuples / dicts /
object-dtype arrays / the attributes of Result, model, RDMs, dataset and any other object with a
`__dict__`) is compared with every mutable node reachable from the arguments:

    same-object    the result node *is* an argument node (`result.attr is arg.attr`, `result is arg`)
                   and holds storage (an RDMs / dataset instance or an array somewhere below it)
    shared-array   a result array overlaps the memory of an argument array (identity, view, slice,
                   reshape, row view held in a descriptor list)
    shared-label   the same, but *both* arrays are values held in descriptor dictionaries (the float
                   time axis of a TemporalDataset, a per-RDM weight table): labels, like the 1-D
                   integer / string label arrays; the write alphabet of the property (and of the
                   Lean model: `heldInDict`) has no write through a descriptor dictionary;
                   information only
    same-dict / same-list
                   identity of a container without storage of its own class; information only
                   (no documented in-place operation or array write goes through it)

A record is `(argument path, result path, cause)`.  Paths are normalised: positions in lists /
tuples / object arrays are written `[*]` (container sizes rotate with the seed), dictionary keys
and attribute names are kept, so a record names *which attribute of which argument* shows through
*which attribute of the result*.  Only maximal nodes are recorded: below a node that is identical
to an argument node everything is trivially identical and is not listed again.

`confirm(...)` is the direct transcription of the property for one record: write the array (or an
array below the shared object) through one side, look at the other side.
"""
import numpy as np

import re

OBSERVABLE = ('same-object', 'shared-array')
_HELD = re.compile(r"descriptors'?\]?\[")


def held(path):
    """is the node a value held in a descriptor dictionary (`.obs_descriptors['x']`,
       `kw['time_descriptors']['time']`, `['rdm_descriptors']['wts'][*]`)?"""
    return bool(_HELD.search(path))


def _arr_cause(ap, rp):
    return 'shared-label' if held(ap) and held(rp) else 'shared-array'


def _is_obj(x):
    if isinstance(x, (np.ndarray, np.generic, dict, list, tuple, set, frozenset, str, bytes)):
        return False
    if callable(x) or isinstance(x, type):
        return False
    mod = type(x).__module__
    if mod.startswith(('pandas', 'scipy', 'numpy', 'builtins', 'pathlib', 'io', '_io')):
        return False
    return hasattr(x, '__dict__')


def _children(x):
    """(path suffix, child) of a container / object node"""
    if isinstance(x, np.ndarray):
        if x.dtype == object:
            for e in x.ravel().tolist():
                yield '[*]', e
        return
    if isinstance(x, dict):
        for k, v in x.items():
            yield f'[{str(k)!r}]', v
        return
    if isinstance(x, (list, tuple)):
        for e in x:
            yield '[*]', e
        return
    if _is_obj(x):
        for n, v in vars(x).items():
            yield '.' + n, v


def is_label_seq(x):
    """1-D integer / string / boolean arrays are label sequences (descriptor values, index vectors):
       compared by value everywhere in this engine (fingerprint does the same), not storage"""
    return x.ndim == 1 and x.dtype.kind in 'iuUSb'


def _node_kind(x):
    if isinstance(x, np.ndarray):
        if x.dtype == object:
            return 'objarr'
        # label sequences (1-D int / str / bool) are storage too: a result that *is* the caller's
        # descriptor array lets an array write (or a later in-place shuffle) relabel the argument;
        # whether a record counts is decided by `_arr_cause` (both ends held in descriptor
        # dictionaries: information only, as before)
        return 'array' if (x.size > 0 and x.dtype.kind in 'fiubcUS') else None
    if isinstance(x, dict):
        return 'dict'
    if isinstance(x, list):
        return 'list'
    if isinstance(x, tuple):
        return 'tuple'
    if _is_obj(x):
        return 'obj'
    return None


def nodes(x, path='', seen=None, out=None):
    """all mutable nodes below x: list of (normalised path, kind, object); every object once
       (first path wins, traversal order is deterministic)"""
    if out is None:
        out = []
    if seen is None:
        seen = set()
    k = _node_kind(x)
    if k is None or id(x) in seen:
        return out
    seen.add(id(x))
    if k != 'tuple':
        out.append((path, k, x))
    for suffix, c in _children(x):
        nodes(c, path + suffix, seen, out)
    return out


def has_storage(x, _seen=None):
    """does the node hold array storage (directly or below)?"""
    if _seen is None:
        _seen = set()
    if id(x) in _seen:
        return False
    _seen.add(id(x))
    if isinstance(x, np.ndarray) and x.dtype != object:
        return _node_kind(x) == 'array'
    return any(has_storage(c, _seen) for _, c in _children(x))


def _bounds(a):
    lo, hi = np.byte_bounds(a) if hasattr(np, 'byte_bounds') else np.lib.array_utils.byte_bounds(a)
    return lo, hi


def source_nodes(source):
    """nodes of the arguments; the argument *position* is kept (`args[0]`, `kw['noise']`, `self`)"""
    out, seen = [], set()
    if source.get('self') is not None:
        nodes(source['self'], 'self', seen, out)
    for i, a in enumerate(source.get('args', [])):
        nodes(a, f'args[{i}]', seen, out)
    for k, v in source.get('kwargs', {}).items():
        nodes(v, f'kw[{k!r}]', seen, out)
    return out


def sharing(source, result):
    """sorted list of [argument path, result path, cause] (deduplicated after normalisation)"""
    src_nodes = source_nodes(source)
    by_id = {}
    for p, k, o in src_nodes:
        by_id.setdefault(id(o), (p, k, o))
    src_arrays = [(p, o, _bounds(o)) for p, k, o in src_nodes if k == 'array']
    recs = set()

    def walk(x, path, seen):
        k = _node_kind(x)
        if k is None or id(x) in seen:
            return
        seen.add(id(x))
        if k != 'tuple' and id(x) in by_id:
            ap = by_id[id(x)][0]
            if k == 'array':
                recs.add((ap, path, _arr_cause(ap, path)))
                return
            if k == 'obj' or k == 'objarr':
                if has_storage(x):
                    recs.add((ap, path, 'same-object'))
                    return
            elif has_storage(x):
                # identical list / dict: information, and the storage below is listed as well
                recs.add((ap, path, 'same-' + k))
            else:
                recs.add((ap, path, 'same-' + k))
                return
        elif k == 'array':
            lo, hi = _bounds(x)
            for ap, a, (alo, ahi) in src_arrays:
                if lo < ahi and alo < hi and np.shares_memory(a, x):
                    recs.add((ap, path, _arr_cause(ap, path)))
            return
        for suffix, c in _children(x):
            walk(c, path + suffix, seen)

    walk(result, '', set())
    return sorted([list(r) for r in recs])


def key(fn, rec):
    return f'{fn}|{rec[0]}|{rec[1]}|{rec[2]}'


def _find(root, npath):
    """live nodes of a graph whose normalised path is npath"""
    ns = source_nodes(root) if isinstance(root, dict) and set(root) == {'self', 'args', 'kwargs'} else nodes(root)
    return [o for p, k, o in ns if p == npath]


def _first_array(x, _seen=None):
    if _seen is None:
        _seen = set()
    if id(x) in _seen:
        return None
    _seen.add(id(x))
    if isinstance(x, np.ndarray) and x.dtype != object:
        return x if _node_kind(x) == 'array' else None
    for _, c in _children(x):
        a = _first_array(c, _seen)
        if a is not None:
            return a
    return None


def _write(a):
    """array write: every element changes; returns False if numpy refuses (read-only view)"""
    if not a.flags.writeable:
        return False
    if a.dtype.kind == 'f':
        flat = np.asarray(a, dtype=float)
        a[...] = np.where(np.isfinite(flat), -flat - 1.0, 7.0)
    elif a.dtype.kind == 'b':
        a[...] = ~a
    elif a.dtype.kind in 'US':
        new = np.roll(a, 1)
        if (new == a).all():
            new = np.array(['~'] * a.size, dtype=a.dtype).reshape(a.shape)
        a[...] = new
    else:
        a[...] = a + 1
    return True


def confirm(source, result, rec, fingerprint):
    """the property, for one record: an array write through one side must not be visible through
       the other.  Returns a description of what was observed, or None (not observable: the arrays
       are read-only on both sides).  Destroys the objects."""
    ap, rp, cause = rec
    for on, here, there, hp, tp in (('result', result, source, rp, ap), ('source', source, result, ap, rp)):
        for node in _find(here, hp):
            a = node if isinstance(node, np.ndarray) and node.dtype != object else _first_array(node)
            if a is None:
                continue
            before = fingerprint(there)
            if not _write(a):
                continue
            after = fingerprint(there)
            if before != after:
                return {'on': on, 'written': hp or '<top>', 'changed': 'source' if on == 'result' else 'result',
                        'seen_at': tp or '<top>', 'cause': cause}
    return None
