"""C06 — reported uncertainties and p-values are coherent with the evaluations.

Engine interface (see harness/run_check.py):
  THEOREMS, LEVEL, RULE, BRANCHES, generate, run_impl, model_requests, model_result,
  compare, oracle, features, nontrivial_key, (search, shrink optional)
"""
from fractions import Fraction as F
import numpy as np
from lean import rat, unrat
from rsatoolbox.util import inference_util as iu

PROPERTY = 'C06'
LEVEL = 'proof'
P = 'Rsa.Props.C06.'
THEOREMS = [P + n for n in (
    'dual_le_two_factor', 'dual_ge_single', 'dualN_le_two_factor', 'dualN_ge_single',
    'correct1d_factor')]
RULE = ('cases are generated from one PRNG: op in {dual, correct1d}, variances small '
        'rationals (eighths), n_rdm / n_pattern None or 2..30; a case is non-trivial when the '
        'clamp is active or a correction is applied; distinct = distinct (op, inputs)')
BRANCHES = ['dual:plain', 'dual:small_sample', 'c1d:both', 'c1d:pattern', 'c1d:rdm', 'c1d:none']
ASSUMPTIONS = ['numpy float64 evaluation of the leaf formulas is within 1e-9 relative of the exact value']


def _q(rng, lo=0, hi=40):
    return F(rng.randint(lo, hi), 8)


def generate(rng, tier):
    n = 150 if tier == 'quick' else 5000
    for _ in range(n):
        nr = rng.choice([None, rng.randint(2, 30)])
        npat = rng.choice([None, rng.randint(2, 30)])
        if rng.random() < 0.5:
            v1, v2 = _q(rng), _q(rng)
            # the two-factor variance is usually, not always, the largest
            v0 = v1 + v2 + _q(rng, -16, 24)
            yield {'op': 'dual', 'v': [rat(v0), rat(v1), rat(v2)], 'n_rdm': nr, 'n_pattern': npat}
        else:
            yield {'op': 'correct1d', 'v': rat(_q(rng)), 'n_rdm': nr, 'n_pattern': npat}


def _fl(x):
    return float(unrat(x))


def run_impl(case):
    if case['op'] == 'dual':
        v = np.array([_fl(x) for x in case['v']])
        return float(iu._dual_bootstrap(v, case['n_rdm'], case['n_pattern']))
    return float(iu._correct_1d(np.array(_fl(case['v'])), case['n_pattern'], case['n_rdm']))


def model_requests(case):
    return [dict(case, op='c06.' + case['op'])]


def model_result(case, answers):
    return answers[0]


def compare(case, impl, model):
    if isinstance(model, dict):
        return f'model error {model}'
    m = float(unrat(model))
    if abs(impl - m) > 1e-12 + 1e-9 * max(abs(impl), abs(m)):
        return f'impl {impl!r} != model {model}'
    return None


def features(case, impl):
    if case['op'] == 'dual':
        b = 'dual:small_sample' if case['n_rdm'] and case['n_pattern'] else 'dual:plain'
    else:
        b = 'c1d:' + ('both' if case['n_rdm'] and case['n_pattern'] else
                      'pattern' if case['n_pattern'] else 'rdm' if case['n_rdm'] else 'none')
    return {'op': case['op'], 'branches': [b]}


def nontrivial_key(case, impl):
    if case['op'] == 'correct1d' and not (case['n_rdm'] or case['n_pattern']):
        return None
    return [case['op'], case['v'], case['n_rdm'], case['n_pattern']]


def oracle(case):
    """direct transcription of the C06 sentences about these helpers, on the real code"""
    tol = 1e-9
    if case['op'] == 'dual':
        v0, v1, v2 = (_fl(x) for x in case['v'])
        out = run_impl(case)
        nr, npat = case['n_rdm'], case['n_pattern']
        if out > v0 + tol:
            return {'what': 'dual bootstrap variance exceeds the two-factor variance',
                    'observed': out, 'bound': v0}
        if nr and npat:
            s1, s2 = nr / (nr - 1) * v1, npat / (npat - 1) * v2
        else:
            s1, s2 = v1, v2
        for s in (s1, s2):
            if s <= v0 + tol and out < s - tol:
                return {'what': 'dual bootstrap variance below a (corrected) single-factor variance',
                        'observed': out, 'bound': s}
        return None
    v = _fl(case['v'])
    out = run_impl(case)
    ns = [n for n in (case['n_rdm'], case['n_pattern']) if n]
    want = v if not ns else min(ns) / (min(ns) - 1) * v
    if abs(out - want) > tol:
        return {'what': 'variance correction is not n/(n-1) with the documented n',
                'observed': out, 'expected': want}
    return None
