"""C06 — reported uncertainties and p-values are coherent with the evaluations.

Engine interface (see harness/run_check.py):
  THEOREMS, LEVEL, RULE, BRANCHES, generate, run_impl, model_requests, model_result,
  compare, oracle, features, nontrivial_key, shrink

Case kinds (`op`):
  dual, correct1d  the two generated leaves on single numbers (exact)
  contrast         util.matrix.pairwise_contrast(np.arange(m))
  extract          util.inference_util.extract_variances on 0/1/2/3-D input (exact, Rat)
  result           inference.result.Result accessors with the t-test (means, SEM, error bars,
                   CI, variances, test_pairwise / test_zero / test_noise / test_all), on the
                   models as given and in a permuted order
  boot             the same accessors with test_type='bootstrap'
  ranksum          ... with test_type='ranksum' (scipy.stats.wilcoxon is applied by the
                   harness to the model's reduced data: contract)
  evaluator        the evaluation functions of inference.evaluate (fixed, bootstrap, bootstrap_rdm,
                   bootstrap_pattern, dual_bootstrap, bootstrap_crossval x 3 boot types) run on
                   small seeded data: the variances / SEM of the returned Result against the
                   stored covariance, corrected with the count(s) of the resampled factor(s) only
  fixed            inference.evaluate.eval_fixed end to end (rsatoolbox.rdm.compare and the
                   noise ceiling are replaced by the prescribed per-subject evaluations),
                   optionally followed by Result.to_dict -> result_from_dict
  session          (round 4) ONE Result object queried repeatedly, in a random order, through every
                   public route (test_all / test_pairwise / test_zero / test_noise with each test
                   type, get_means / get_sem / get_ci / get_errorbars, the inference_util wrappers
                   called with the object's own arrays, extract_variances with 1-D / 2-D / 3-D input
                   for the same model count, to_dict -> result_from_dict, a second Result from the
                   same input arrays): every answer is judged on its own against the stand-alone
                   value on the ORIGINAL numbers; evaluations / variances / noise ceiling / derived
                   variances / the arrays handed to the constructor are bit-identical after every
                   call; answers handed out earlier do not change afterwards
"""
import copy
import itertools
import json
import math
import os
import random
import subprocess
import sys
import warnings
from fractions import Fraction as F

import numpy as np
import scipy.stats as sst

from lean import rat, unrat, fbits, unfbits, deep, first_diff, close
from rsatoolbox.util import inference_util as iu
from rsatoolbox.util import matrix as rmatrix
from rsatoolbox.inference import result as rresult
from rsatoolbox.inference import evaluate as revaluate
from rsatoolbox.model import ModelFixed
from rsatoolbox.rdm import RDMs

PROPERTY = 'C06'
LEVEL = 'proof'
P = 'Rsa.Props.C06.'
THEOREMS = [P + n for n in (
    # generated leaves: clamp bounds and the documented factor
    'dual_le_two_factor', 'dual_ge_single', 'dualN_le_two_factor', 'dualN_ge_single',
    'correct1d_factor', 'correct_eq_factor', 'dual_bounds_all_branches',
    # variances are contrasts of the stored covariance
    'diff_var_contrast', 'nc_var_contrast', 'extract2_spec', 'extract1_spec', 'extract3_bounds',
    'evaluator_factor',
    # fixed evaluation = classical across-subject statistics
    'fixed_sem_is_classical', 'fixed_vars_classical', 'fixed_vars_classical_one', 'fixed_dof',
    'fixed_t_is_classical',
    # p-values for an abstract CDF
    'p_range', 'pairwise_symm', 'pairwise_diag_one', 'p_antitone_in_effect',
    # bootstrap tests
    'bootstrap_p_range', 'bootPairP_swap', 'bootstrap_pair_swap', 'bootstrap_mat_symm_diag',
    'bootstrap_perm_equivariant', 'bootstrap_one_sided_range',
    # means, standard errors
    'means_nan_aware', 'means_drop_nan_rows', 'means_fixed_single_row', 'sem_nonneg',
    # model permutations
    'model_perm_equivariant', 'pairwise_perm_equivariant',
    # rank-sum tests (partial for an arbitrary external test; full with the modelled statistic)
    'ranksum_mat_symm_diag_partial',
    # round 3: formula / call-site / dispatch leaves
    't_stat_formulas', 'p_value_formulas', 'routes_forward_dof_and_variances', 'dispatch_coherent',
    'boot_leaves_agree',
    # round 3: the Wilcoxon signed-rank statistic behind the rank-sum tests
    'signedrank_swap', 'signedrank_subject_perm', 'signedrank_value_perm', 'signedrank_zero_discarded',
    'signedrank_total', 'wilcoxon_pair_symm', 'wilcoxon_pair_subject_perm', 'ranksum_mat_modelled',
    # round 3: confidence intervals, error bars, bootstrap tests on > 2-D evaluations
    'ci_prop_cut', 'result_ci_ordered_symmetric', 'util_errorbars', 'bootstrap_nd_one_sided',
    # round 4: sessions (state that survives a call)
    'input_write_leaves', 'no_hidden_state_leaves', 'call_stateless', 'session_calls_independent',
    'session_call_at', 'session_order_irrelevant', 'session_sem_nonneg', 'inplace_write_breaks_later_call',
    'coarse_memo_goes_stale',
    # round 7: per-model specification of get_means (a model without values, any position)
    'means_spec_model_local', 'means_spec_nan_iff', 'means_fixed_eq_spec', 'strictMean_filter_isSome',
    'means_boot_eq_spec_of_whole_rows', 'means_spec_perm_equivariant')]
RULE = ('cases come from one PRNG. dual/correct1d: variances in eighths, n_rdm/n_pattern None or '
        '2..30. contrast: m = 1..7. extract: covariance input 0/1/2/3-D (symmetric PSD in '
        'eighths, sometimes arbitrary), with/without the two noise-ceiling rows, 1..6 models. '
        'result/boot/ranksum: Result objects with evaluation arrays of 2..5 dimensions (whole-row '
        'NaN = failed bootstrap samples, NaN folds inside the trailing axes), every kind of '
        'variance input or none, noise ceilings (2,) or (2,N), dof 2..30 (1 in 5 %), every public '
        'route to the p-values (Result.test_all, the three accessors, inference_util.all_tests and '
        'pair/zero/nc_tests), a random model '
        'permutation. fixed: eval_fixed with 1..4 models, 2..9 subjects, optionally reloaded '
        'from its dict. evaluator: every evaluation function on 3..9 RDMs of 4..6 conditions '
        '(both orders of the two counts), 1..3 fixed models, 6..10 bootstrap samples, seeded. '
        'Round 3: result cases carry a confidence level (default or 50..99.9 %), a model with a negative '
        'effect in 25 %, variances at / below the eps clamp in 6 %; boot cases have 2..5-D evaluations with '
        'scalar, per-sample (2,N) and evaluator-shaped (2,N,n_cv[,3]) ceilings, all three bootstrap tests '
        'compared for every dimension; ranksum cases have 2..11 subjects, generic values (exact null) or a '
        'dyadic grid with tied |differences| and zero differences, subjects without values (NaN p). '
        'Round 4: sessions - one Result (hand-built 2..5-D bootstrap result incl. exactly 2-D float64 '
        'evaluations, 3-D rank-sum data, or the object eval_fixed returns; counts recorded after construction '
        'as the evaluators do in 30 %) queried by 8..16 calls drawn from every public route, test type, two '
        'or more confidence levels, 1-D / 2-D / 3-D covariance inputs of the same model count, reload and '
        'rebuild, in random order with repeats. '
        'Round 7: results in which ONE model (first / middle / last) has no value at all or values in some '
        'samples / subjects only, for fixed, crossvalidation and every bootstrap cv_method: hand-built, and '
        'the Result objects eval_fixed / crossval / eval_bootstrap_rdm / eval_bootstrap_pattern return for a '
        'model list that contains a constant-RDM model under kendall (NaN) / tau-a (0); means, SEM, CI and '
        'tests judged per model and under a model permutation. '
        'A case is non-trivial unless it is an uncorrected single number or has '
        'one model without variances; distinct = distinct full input.')
BRANCHES = ['dual:plain', 'dual:small_sample', 'dual:one_n', 'c1d:both', 'c1d:pattern', 'c1d:rdm',
            'c1d:none', 'contrast', 'extract:0d', 'extract:1d', 'extract:1d_nc', 'extract:2d',
            'extract:2d_nc', 'extract:3d', 'extract:3d_nc', 'extract:3d_small_sample',
            'result:var_none', 'result:var_0d', 'result:var_1d', 'result:var_2d', 'result:var_3d',
            'result:nc_rows', 'result:nan_rows', 'result:nan_folds', 'result:ndim2',
            'result:ndim3', 'result:ndim4', 'result:ndim5', 'result:fixed', 'result:perm',
            'boot:nan_rows', 'boot:nc_per_sample', 'boot:nc_scalar', 'boot:ndim3', 'ranksum',
            'fixed:one_model', 'fixed:multi', 'fixed:reload',
            'evaluator:fixed', 'evaluator:bootstrap', 'evaluator:bootstrap_rdm',
            'evaluator:bootstrap_pattern', 'evaluator:dual_bootstrap', 'evaluator:bootstrap_crossval',
            'evaluator:bootstrap_crossval_rdm', 'evaluator:bootstrap_crossval_pattern',
            'evaluator:n_cond_lt_n_rdm', 'evaluator:n_rdm_lt_n_cond',
            # round 3
            'ranksum:generic', 'ranksum:ties', 'ranksum:zeros', 'ranksum:nan_subject', 'ranksum:small_n',
            'boot:ndim_onesided', 'boot:nc_nd', 'boot:ndim4', 'boot:ndim5', 'boot:ties',
            'result:ci_default', 'result:ci_pct', 'result:neg_effect', 'result:m_ge4_cov2d',
            'result:dof1', 'result:tiny_var',
            # round 4: one tag per kind of session step / precondition
            'session:test_all', 'session:test_pairwise', 'session:test_zero', 'session:test_noise',
            'session:util_all', 'session:util_single', 'session:get_means', 'session:get_sem', 'session:get_ci',
            'session:errorbars', 'session:util_errorbars', 'session:fields', 'session:extract_1d',
            'session:extract_2d', 'session:extract_3d', 'session:reload', 'session:rebuild',
            'session:ttest', 'session:bootstrap', 'session:ranksum', 'session:fixed', 'session:late_count',
            'session:evals_2d_f64', 'session:nc_per_sample', 'session:repeat', 'session:two_levels',
            'session:after_extract_1d', 'session:after_test_noise_bootstrap', 'session:after_reload',
            'session:late_reload_sem', 'session:ttest_then_bootstrap_nc',
            # round 7: one model without (or with only some) values
            'nan-model:first:fixed', 'nan-model:first:crossval', 'nan-model:first:boot', 'nan-model:other',
            'nan-model:all', 'nan-model:partial', 'nan-model:evaluator:fixed', 'nan-model:evaluator:crossval',
            'nan-model:evaluator:bootstrap', 'nan-model:kendall', 'nan-model:tau-a']
ASSUMPTIONS = [
    'numpy float64 evaluation of the closed-form formulas is within 1e-9 relative of the exact value',
    'scipy.stats.t.cdf / t.ppf (contract: monotone, F(0)=1/2, range [0,1]) are applied by the '
    'harness to the t statistics of the model; the contract is sampled in the oracle',
    'rank-sum tests: the model computes the signed-rank statistic (differences, zeros discarded, '
    'tie-averaged ranks of |d|, W+, W-); the null distribution is a contract (IsSignedRankNull: a function '
    'of W+, W- and the multiset of ranks, symmetric in W+ / W-, values in [0,1]) instantiated in the '
    'harness by the exact sign-flip distribution over the model\'s ranks (= scipy.stats.wilcoxon '
    'method="auto" for at most 13 subjects, checked against scipy 1.18 on 900 random samples with ties / zeros)',
    'evaluation arrays: a failed bootstrap sample is a whole row of NaN (as every evaluator '
    'writes it); NaN inside the trailing axes leaves at least one value per (sample, model)']
TRUSTED_EXTRA = ['scipy.stats.t.cdf, t.ppf, ttest_1samp, ttest_rel, sem (reference in the oracle)',
                 'scipy.stats.wilcoxon: only its null distribution (the .statistic is compared with the model)',
                 'harness/leaves/C06.py: source-to-leaf derivations (clamps, call-site bindings, dispatch codes)']

EPS = float(np.finfo(float).eps)
RTOL, ATOL = 1e-9, 1e-12
PRTOL, PATOL = 1e-7, 1e-12      # p-values: 1 - cdf amplifies rounding of t


# ---------------------------------------------------------------- small helpers

def _q(rng, lo=0, hi=40, den=8):
    return rng.randint(lo, hi) / den


def _opt_n(rng):
    return rng.choice([None, rng.randint(2, 30)])


def _arr(x):
    """nested list with None -> float array with NaN"""
    return np.array(deep(lambda v: np.nan if v is None else float(v), x), dtype=float)


def _lst(a):
    """array -> nested list, NaN -> None (JSON-serialisable, exact for doubles)"""
    if a is None:
        return None
    a = np.asarray(a, dtype=float)
    return deep(lambda v: None if (isinstance(v, float) and math.isnan(v)) else float(v), a) \
        if a.ndim else (None if math.isnan(float(a)) else float(a))


def _psd(rng, k, den=8):
    a = np.array([[rng.randint(-3, 3) for _ in range(k)] for _ in range(k)], dtype=float)
    return (a @ a.T) / den


def _catch(fn):
    with warnings.catch_warnings():
        warnings.simplefilter('ignore')
        try:
            return fn()
        except (ValueError, TypeError, AssertionError, IndexError, ZeroDivisionError) as exc:
            return {'exc': type(exc).__name__}


def _canon(x):
    if isinstance(x, dict):
        return x
    if x is None:
        return None
    if isinstance(x, (tuple, list)):
        return [_canon(y) for y in x]
    return _lst(x)


def _perm_var(var, perm, nc):
    """covariance input with the models permuted (noise-ceiling rows stay last)"""
    if var is None:
        return None
    v = np.asarray(var, dtype=float)
    if v.ndim == 0:
        return v
    idx = list(perm) + ([len(perm), len(perm) + 1] if nc else [])
    if v.ndim == 1:
        return v[idx]
    if v.ndim == 2:
        return v[np.ix_(idx, idx)]
    return v[:, idx][:, :, idx]


def _models(m):
    return [ModelFixed(f'm{i}', np.arange(3.0) + i) for i in range(m)]


# ---------------------------------------------------------------- generators

def _gen_var(rng, m, kind, nc):
    k = m + (2 if nc else 0)
    if kind == 'none':
        return None
    if kind == '0d':
        return _q(rng, 1, 40)
    if kind == '1d':
        return [_q(rng, 1, 40) for _ in range(k)]
    if kind == '2d':
        if rng.random() < 0.2:      # arbitrary (not symmetric) matrix: the code does not require symmetry
            return [[_q(rng, -16, 40) for _ in range(k)] for _ in range(k)]
        return _psd(rng, k).tolist()
    v1, v2 = _psd(rng, k), _psd(rng, k)
    r = rng.random()
    if r < 0.5:
        v0 = v1 + v2 + _psd(rng, k) / 2
    elif r < 0.75:
        v0 = v1 + v2 - _psd(rng, k) / 4
    else:
        v0 = _psd(rng, k)
    return [v0.tolist(), v1.tolist(), v2.tolist()]


def _gen_evals(rng, nB, m, shape, nan_rows=True, nan_folds=True, den=16, lo=-8, hi=16):
    a = np.array([rng.randint(lo, hi) / den for _ in range(nB * m * int(np.prod(shape or [1])))],
                 dtype=float).reshape([nB, m] + list(shape))
    if nan_folds and shape and rng.random() < 0.5:
        flat = a.reshape(nB, m, -1)
        for r in range(nB):
            for j in range(m):
                for t in range(flat.shape[2]):
                    if rng.random() < 0.15:
                        flat[r, j, t] = np.nan
                if np.all(np.isnan(flat[r, j])):
                    flat[r, j, rng.randrange(flat.shape[2])] = rng.randint(lo, hi) / den
        # every slice along each trailing axis keeps a value so that nested nanmeans exist
        a = flat.reshape([nB, m] + list(shape))
    if nan_rows and nB >= 3 and rng.random() < 0.5:
        for r in rng.sample(range(nB), rng.randint(1, max(1, nB // 3))):
            a[r] = np.nan
    return a


def _gen_result(rng, tier, force_cv=None, m_min=1):
    m = max(rng.randint(1, 5), m_min)
    cv = rng.choice(['fixed', 'crossvalidation', 'bootstrap', 'bootstrap_rdm', 'bootstrap_pattern',
                     'bootstrap_crossval', 'dual_bootstrap'])
    if force_cv is not None:
        cv = force_cv
    if cv in ('fixed', 'crossvalidation'):
        nB, shape = 1, [rng.randint(2, 7)]
        ev = _gen_evals(rng, nB, m, shape, nan_rows=False)
    else:
        nB = rng.randint(3, 10)
        nd = rng.choice([2, 3, 4, 5]) if cv in ('bootstrap_crossval', 'dual_bootstrap') else rng.choice([2, 2, 3])
        shape = [[], [rng.randint(1, 4)], [rng.randint(1, 3), rng.randint(1, 2)],
                 [rng.randint(1, 3), rng.randint(1, 2), 3]][nd - 2]
        ev = _gen_evals(rng, nB, m, shape)
    kinds = ['0d', '0d', '1d', '2d', '3d'] if m == 1 else ['1d', '2d', '2d', '3d']
    kind = 'none' if cv == 'crossvalidation' or rng.random() < 0.06 else rng.choice(kinds)
    nc = kind in ('1d', '2d', '3d') and rng.random() < 0.5
    var = _gen_var(rng, m, kind, nc)
    if rng.random() < 0.5 and nB > 1:
        ncl = np.array([[rng.randint(0, 16) / 16 for _ in range(nB)],
                        [rng.randint(16, 24) / 16 for _ in range(nB)]])
        ncl[:, np.isnan(ev.reshape(nB, -1)[:, 0])] = np.nan
        if np.all(np.isnan(ncl)):
            ncl = np.array([0.5, 0.75])
    else:
        ncl = np.array([rng.randint(0, 16) / 16, rng.randint(16, 24) / 16])
    if rng.random() < 0.25:
        ev[:, rng.randrange(m)] -= 1.0          # a model with a clearly negative effect
    if var is not None and rng.random() < 0.06:
        # variances at / below the eps clamp of the t statistics (exact scaling by a power of two)
        var = (np.asarray(var, dtype=float) * rng.choice([0.0, 2.0 ** -70])).tolist()
    perm = list(range(m))
    rng.shuffle(perm)
    return {'op': 'result', 'cv_method': cv, 'evals': _lst(ev), 'var': var, 'var_kind': kind,
            'ci_pct': rng.choice([None, None, 50, 68.27, 90, 95, 99, 99.9]),
            'nc_rows': nc, 'noise_ceiling': _lst(ncl),
            'dof': 1 if rng.random() < 0.05 else rng.randint(2, 30),
            'n_rdm': _opt_n(rng), 'n_pattern': _opt_n(rng), 'perm': perm}


def _gen_boot(rng, tier):
    m = rng.randint(1, 5)
    nB = rng.randint(3, 12)
    shape = rng.choice([[], [], [], [rng.randint(1, 3)], [2, 2], [rng.randint(1, 4), rng.randint(1, 2)],
                        [rng.randint(1, 3), 2, 3]])
    # a coarse grid makes ties between models frequent; shifting decides how often all
    # samples lie on one side of zero / of the noise ceiling
    lo = rng.choice([-8, -8, -2, 1, -12])
    hi = rng.choice([8, 4, -1]) if lo == -12 else lo + rng.choice([6, 12, 20])
    ev = _gen_evals(rng, nB, m, shape, den=rng.choice([2, 4, 16]), lo=lo, hi=hi,
                    nan_folds=rng.random() < 0.5)
    r = rng.random()
    failed = np.all(np.isnan(ev.reshape(nB, -1)), axis=1)
    if r < 0.35:
        ncl = np.array([[rng.randint(-4, 12) / 8 for _ in range(nB)],
                        [rng.randint(12, 20) / 8 for _ in range(nB)]])
        ncl[:, failed] = np.nan
    elif r < 0.6 and len(shape) >= 2:
        # bootstrap_crossval / eval_dual_bootstrap: the ceiling has the repetition axes of the
        # evaluations but not their fold axis: evaluations (N, m, folds, n_cv[, 3]), ceiling (2, N, n_cv[, 3])
        tail = shape[1:]
        ncl = np.array([rng.randint(-4, 20) / 8 for _ in range(2 * nB * int(np.prod(tail)))],
                       dtype=float).reshape([2, nB] + tail)
        ncl[1] += 2.0
        ncl[:, failed] = np.nan
    else:
        ncl = np.array([rng.randint(-12, 12) / 8, 2.0])
    perm = list(range(m))
    rng.shuffle(perm)
    return {'op': 'boot', 'evals': _lst(ev), 'noise_ceiling': _lst(ncl), 'perm': perm}


def _gen_ranksum(rng, tier):
    m = rng.randint(1, 4)
    nB = rng.randint(1, 4)
    mode = rng.choice(['generic', 'generic', 'ties', 'ties', 'zeros', 'zeros', 'coarse'])
    n = rng.randint(2, 5) if rng.random() < 0.2 else rng.randint(6, 11)
    if mode == 'generic':
        # generic (non-dyadic) values: no exact ties / zeros, scipy's exact null distribution
        ev = np.array([rng.uniform(-0.3, 0.9) for _ in range(nB * m * n)]).reshape(nB, m, n)
        c = rng.uniform(0.2, 0.6)
    else:
        # a coarse dyadic grid, identical over the bootstrap rows so that the reduced data stay on
        # the grid: tied |differences|, zero differences (equal values of two models in a subject,
        # a value equal to the ceiling / to zero)
        den = {'ties': 8, 'zeros': 2, 'coarse': 1}[mode]
        base = np.array([rng.randint(-2 * den // 2 - 1, 3 * den // 2 + 1) / den for _ in range(m * n)],
                        dtype=float).reshape(m, n)
        if mode == 'zeros' and m >= 2:
            for sidx in rng.sample(range(n), max(1, n // 3)):
                base[1, sidx] = base[0, sidx]
        ev = np.repeat(base[None], nB, axis=0)
        c = rng.randint(0, den) / den
    if nB >= 3 and rng.random() < 0.5:
        ev[rng.randrange(nB)] = np.nan
    if rng.random() < 0.2:
        ev[:, rng.randrange(m), rng.randrange(n)] = np.nan     # a subject without any value: NaN p-values
    perm = list(range(m))
    rng.shuffle(perm)
    return {'op': 'ranksum', 'evals': _lst(ev), 'noise_ceiling': [c, 2.0], 'perm': perm, 'mode': mode}


def _gen_fixed(rng, tier):
    m = rng.choice([1, 2, 2, 3, 4])
    n = 2 if rng.random() < 0.08 else rng.randint(3, 9)
    x = [[rng.randint(-16, 48) / 64 for _ in range(n)] for _ in range(m)]
    if rng.random() < 0.08:
        x[0] = [x[0][0]] * n        # a model with identical evaluations in all subjects
    return {'op': 'fixed', 'x': x, 'n_cond': rng.randint(3, 12),
            'nc': [rng.randint(16, 48) / 64, rng.randint(48, 64) / 64],
            'reload': rng.random() < 0.3}


EVALUATORS = ['fixed', 'bootstrap', 'bootstrap_rdm', 'bootstrap_pattern', 'dual_bootstrap',
              'bootstrap_crossval', 'bootstrap_crossval_rdm', 'bootstrap_crossval_pattern']


def _gen_evaluator(rng, tier):
    which = rng.choice(EVALUATORS)
    n_cond = rng.randint(4, 6)
    n_rdm = rng.choice([3, 4, 5, 7, 8, 9])
    npair = n_cond * (n_cond - 1) // 2
    return {'op': 'evaluator', 'which': which, 'n_rdm': n_rdm, 'n_cond': n_cond,
            'data': [[rng.randint(1, 32) / 8 for _ in range(npair)] for _ in range(n_rdm)],
            'models': [[rng.randint(1, 32) / 8 for _ in range(npair)] for _ in range(rng.randint(1, 3))],
            'N': rng.randint(6, 10), 'seed': rng.randint(0, 10 ** 6)}


NAN_POS = ('first', 'middle', 'last')
NAN_CV = ('fixed', 'crossvalidation', 'boot')


def _gen_nan_model(rng, tier, k):
    """round 7: a hand-built Result in which ONE model (first / middle / last) has no value at all or
    values in some samples (bootstrap) / subjects (fixed, crossvalidation) only.  The combination is
    taken from the running index so that every (position, cv_method, all / partly) is met in every run."""
    pos, cvk, kind = NAN_POS[k % 3], NAN_CV[(k // 3) % 3], ('all', 'partial')[(k // 9) % 2]
    cv = cvk if cvk != 'boot' else rng.choice(['bootstrap', 'bootstrap_rdm', 'bootstrap_pattern',
                                                'bootstrap_crossval', 'dual_bootstrap'])
    case = _gen_result(rng, tier, force_cv=cv, m_min=3 if pos == 'middle' else 2)
    ev = _arr(case['evals'])
    nB, m = ev.shape[:2]
    j = {'first': 0, 'middle': rng.randint(1, m - 2) if m >= 3 else 0, 'last': m - 1}[pos]
    if kind == 'all':
        ev[:, j] = np.nan
    elif nB == 1:
        n = ev.shape[2]
        for sidx in rng.sample(range(n), rng.randint(1, n - 1)):
            ev[0, j, sidx] = np.nan
    else:
        for r in rng.sample(range(nB), rng.randint(1, nB - 1)):
            ev[r, j] = np.nan
    case['evals'] = _lst(ev)
    case['nan_model'] = {'pos': pos, 'index': j, 'kind': kind, 'how': 'hand-built'}
    return case


NAN_EVALUATORS = ('fixed', 'crossval', 'bootstrap_rdm', 'bootstrap_pattern')


def _nan_source_run(src):
    """the real evaluator on a model list that contains one constant-RDM model (rank correlations of a
    constant vector are undefined: 'kendall' gives NaN in every subject / sample, 'tau-a' gives 0)"""
    import rsatoolbox.inference as rcrossval
    data = RDMs(np.array(src['data'], dtype=float))
    models = [ModelFixed(f'm{k}', np.array(v, dtype=float)) for k, v in enumerate(src['models'])]
    state = np.random.get_state()
    np.random.seed(src['seed'])
    try:
        with warnings.catch_warnings():
            warnings.simplefilter('ignore')
            if src['which'] == 'fixed':
                r = revaluate.eval_fixed(models, data, method=src['method'])
            elif src['which'] == 'crossval':
                tr, te, ce = rcrossval.sets_k_fold(data, k_pattern=1, k_rdm=src['k_rdm'], random=False)
                r = revaluate.crossval(models, data, tr, te, ce, method=src['method'])
            elif src['which'] == 'bootstrap_rdm':
                r = revaluate.eval_bootstrap_rdm(models, data, method=src['method'], N=src['N'])
            else:
                r = revaluate.eval_bootstrap_pattern(models, data, method=src['method'], N=src['N'])
    finally:
        np.random.set_state(state)
    return r


def _gen_nan_evaluator(rng, tier, k):
    """round 7: the same class through the real evaluators: a constant-RDM model first / in the middle /
    last among 2..3 random models, 'kendall' (NaN) or 'tau-a' (0); the Result's own arrays become a
    `result` case (judged like a hand-built one) and `run_impl` re-runs the evaluator (`source`)."""
    pos, which = NAN_POS[k % 3], NAN_EVALUATORS[(k // 3) % 4]
    method = 'kendall' if (k // 12) % 3 != 2 else 'tau-a'
    n_cond, n_rdm = rng.randint(5, 6), rng.choice([4, 5, 6])
    npair = n_cond * (n_cond - 1) // 2
    others = [[rng.randint(1, 64) / 8 for _ in range(npair)] for _ in range(rng.randint(2, 3))]
    j = {'first': 0, 'middle': rng.randint(1, len(others) - 1), 'last': len(others)}[pos]
    models = others[:j] + [[1.0] * npair] + others[j:]
    src = {'which': which, 'method': method, 'n_cond': n_cond, 'k_rdm': 2, 'N': rng.randint(5, 8),
           'seed': rng.randint(0, 10 ** 6), 'models': models,
           'data': [[rng.randint(1, 64) / 8 for _ in range(npair)] for _ in range(n_rdm)]}
    r = _nan_source_run(src)
    m = len(models)
    var = None if r.variances is None else np.asarray(r.variances, dtype=float)
    if var is not None and np.any(np.isnan(var)):
        # an undefined covariance entry: numpy's NaN-propagating maximum / sqrt are IEEE facts outside the
        # model (an ordered field); the rebuilt Result then carries no variances (means, permutation and the
        # evaluator's own accessors are still judged; the oracle checks SEM NaN <-> variance NaN there)
        var = None
    kind = 'none' if var is None else f'{var.ndim}d'
    perm = list(range(m))
    rng.shuffle(perm)
    allnan = bool(np.all(np.isnan(np.asarray(r.evaluations, dtype=float)[:, j])))
    return {'op': 'result', 'cv_method': r.cv_method, 'evals': _lst(r.evaluations),
            'var': None if var is None else _lst_nan(var), 'var_kind': kind, 'ci_pct': None,
            'nc_rows': bool(var is not None and var.ndim >= 1 and var.shape[-1] == m + 2),
            'noise_ceiling': _lst(r.noise_ceiling), 'dof': int(r.dof) if r.dof is not None else 1,
            'n_rdm': r.n_rdm, 'n_pattern': r.n_pattern, 'perm': perm, 'source': src,
            'nan_model': {'pos': pos, 'index': j, 'kind': 'all' if allnan else 'none', 'how': which,
                          'method': method}}


def _lst_nan(a):
    """array -> nested list keeping NaN as float('nan') is not JSON; NaN -> None (`_arr` restores it)"""
    return _lst(a)


def _gen_extract(rng, tier):
    kind = rng.choice(['0d', '1d', '1d', '2d', '2d', '2d', '3d', '3d', '3d'])
    m = 1 if kind == '0d' else rng.randint(1, 6)
    nc = kind != '0d' and rng.random() < 0.5
    return {'op': 'extract', 'var': _gen_var(rng, m, kind, nc), 'var_kind': kind, 'nc': nc, 'm': m,
            'n_rdm': _opt_n(rng), 'n_pattern': _opt_n(rng)}


def generate(rng, tier):
    mult = 2 if tier == 'quick' else 60
    # sessions first: their replays are self-contained (a whole call sequence), and they run before the
    # single-call cases could have warmed any hidden cache.  Own PRNG stream (derived from the run's
    # stream without consuming it) so that the single-call cases of a seed are the ones of round 3.
    srng = random.Random('C06-sessions-' + repr(rng.getstate()[1][:4]))
    for _ in range(64 if tier == 'quick' else 1500):
        yield _gen_session(srng, tier)
    for _ in range(50 * mult):
        nr, npat = _opt_n(rng), _opt_n(rng)
        if rng.random() < 0.5:
            v1, v2 = F(rng.randint(0, 40), 8), F(rng.randint(0, 40), 8)
            v0 = v1 + v2 + F(rng.randint(-16, 24), 8)
            yield {'op': 'dual', 'v': [rat(v0), rat(v1), rat(v2)], 'n_rdm': nr, 'n_pattern': npat}
        else:
            yield {'op': 'correct1d', 'v': rat(F(rng.randint(0, 40), 8)), 'n_rdm': nr, 'n_pattern': npat}
    for m in range(1, 8 if tier == 'quick' else 13):
        yield {'op': 'contrast', 'm': m}
    for _ in range(120 * mult):
        yield _gen_extract(rng, tier)
    for _ in range(130 * mult):
        yield _gen_result(rng, tier)
    for _ in range(70 * mult):
        yield _gen_boot(rng, tier)
    for _ in range(48 if tier == 'quick' else 600):     # every route re-runs scipy's permutation test
        yield _gen_ranksum(rng, tier)
    for _ in range(50 * mult):
        yield _gen_fixed(rng, tier)
    for _ in range(40 * mult):
        yield _gen_evaluator(rng, tier)
    # round 7 (last in the stream: the earlier cases of a seed stay the ones of round 6)
    nrng = random.Random('C06-nan-model-' + repr(rng.getstate()[1][:4]))
    for k in range(36 if tier == 'quick' else 720):
        yield _gen_nan_model(nrng, tier, k)
    for k in range(36 if tier == 'quick' else 360):
        yield _gen_nan_evaluator(nrng, tier, k)


def search(rng, tier):
    """failing-input search: the Result-level kinds first (they exercise every leaf too)"""
    gens = [_gen_session, _gen_boot, _gen_result, _gen_session, _gen_fixed, _gen_extract, _gen_evaluator,
            _gen_ranksum]
    k = 0
    while True:
        yield gens[k % len(gens)](rng, tier)
        yield _gen_nan_model(rng, tier, k)
        if k % 3 == 0:
            yield _gen_nan_evaluator(rng, tier, k // 3)
        k += 1
        if k % 7 == 0:
            nr, npat = _opt_n(rng), _opt_n(rng)
            v1, v2 = F(rng.randint(0, 40), 8), F(rng.randint(0, 40), 8)
            yield {'op': 'dual', 'v': [rat(v1 + v2 + F(rng.randint(-16, 24), 8)), rat(v1), rat(v2)],
                   'n_rdm': nr, 'n_pattern': npat}
            yield {'op': 'correct1d', 'v': rat(F(rng.randint(1, 40), 8)), 'n_rdm': nr, 'n_pattern': npat}


# ---------------------------------------------------------------- implementation side

def _fl(x):
    return float(unrat(x))


def _mk_result(case, perm=None):
    ev = _arr(case['evals'])
    m = ev.shape[1]
    var = None if case.get('var') is None else np.array(case['var'], dtype=float)
    if perm is not None:
        ev = ev[:, perm]
        var = _perm_var(var, perm, case.get('nc_rows', False))
    ncl = _arr(case['noise_ceiling'])
    return rresult.Result(_models(m), ev, 'cosine', case.get('cv_method', 'bootstrap'), ncl,
                          variances=var, dof=case.get('dof', 1),
                          n_rdm=case.get('n_rdm'), n_pattern=case.get('n_pattern'))


ROUTES = ('accessors', 'test_all', 'util.all_tests', 'util.single')
FAMILIES = ('p_pair', 'p_zero', 'p_nc')


def _routes(r, test_type):
    """the three p-value families through every public route: Result.test_pairwise/test_zero/
    test_noise, Result.test_all, inference_util.all_tests, inference_util.pair_tests/zero_tests/
    nc_tests (called the way the plotting code calls them, with the Result's own fields)"""
    def split(x):
        return list(x) if isinstance(x, list) and len(x) == 3 else [x, x, x]

    def fields():
        return (np.array(r.evaluations, dtype=float), np.array(r.noise_ceiling, dtype=float))

    def util_all():
        E, nc = fields()
        return list(iu.all_tests(E, nc, test_type, model_var=r.model_var, diff_var=r.diff_var,
                                 noise_ceil_var=r.noise_ceil_var, dof=r.dof))
    out = {'accessors': [_canon(_catch(lambda: r.test_pairwise(test_type))),
                         _canon(_catch(lambda: r.test_zero(test_type))),
                         _canon(_catch(lambda: r.test_noise(test_type)))],
           'test_all': split(_canon(_catch(lambda: list(r.test_all(test_type))))),
           'util.all_tests': split(_canon(_catch(util_all))),
           'util.single': [
               _canon(_catch(lambda: iu.pair_tests(fields()[0], test_type, r.diff_var, r.dof))),
               _canon(_catch(lambda: iu.zero_tests(fields()[0], test_type, r.model_var, r.dof))),
               _canon(_catch(lambda: iu.nc_tests(fields()[0], fields()[1], test_type,
                                                 r.noise_ceil_var, r.dof)))]}
    return out


def _result_obs(case, test_type, perm=None):
    """everything C06 speaks about, read off one Result object"""
    def build():
        r = _mk_result(case, perm)
        out = {'means': _canon(_catch(r.get_means)),
               'sem': _canon(_catch(r.get_sem)),
               'errorbars': _canon(_catch(lambda: r.get_errorbars('sem'))),
               'model_var': _canon(r.model_var), 'diff_var': _canon(r.diff_var),
               'nc_var': _canon(r.noise_ceil_var)}
        if test_type == 't-test':
            pct = case.get('ci_pct')
            level = 0.95 if pct is None else float(pct) / 100
            eb = 'ci' if pct is None else f'ci{pct}'
            has = r.model_var is not None
            out['ci'] = _canon(_catch(lambda: r.get_ci(level, 't-test'))) if has else None
            out['errorbars_ci'] = _canon(_catch(lambda: r.get_errorbars(eb, 't-test'))) if has else None
            # the helper the plotting code uses for the same error bars
            out['errorbars_util'] = _canon(_catch(lambda: iu.get_errorbars(
                r.model_var, r.evaluations, r.dof, 'sem', 't-test'))) if has else None
            out['errorbars_util_ci'] = _canon(_catch(lambda: iu.get_errorbars(
                r.model_var, r.evaluations, r.dof, eb, 't-test'))) if has else None
            nc_in = _arr(case['noise_ceiling'])
            got_nc = r.get_noise_ceil()
            out['noise_ceil_kept'] = bool(np.shape(got_nc) == nc_in.shape
                                          and np.array_equal(got_nc, nc_in, equal_nan=True))
            out['model_var_kept'] = bool(r.get_model_var() is r.model_var)
            # an unknown test type is rejected by every wrapper (the final `else` of the dispatch)
            E_, nc_ = np.array(r.evaluations, dtype=float), np.array(r.noise_ceiling, dtype=float)
            tries = [lambda: r.test_all('perm-test'), lambda: r.test_pairwise('perm-test'),
                     lambda: r.test_zero('perm-test'), lambda: r.test_noise('perm-test'),
                     lambda: iu.all_tests(E_, nc_, 'perm-test', r.model_var, r.diff_var, r.noise_ceil_var, r.dof),
                     lambda: iu.pair_tests(E_, 'perm-test', r.diff_var, r.dof),
                     lambda: iu.zero_tests(E_, 'perm-test', r.model_var, r.dof),
                     lambda: iu.nc_tests(E_, nc_, 'perm-test', r.noise_ceil_var, r.dof)]
            got_ = [_catch(f) for f in tries]
            out['rejects_unknown'] = [bool(isinstance(g, dict) and g.get('exc') == 'ValueError') for g in got_]
        out['p_pair'] = _canon(_catch(lambda: r.test_pairwise(test_type)))
        out['p_zero'] = _canon(_catch(lambda: r.test_zero(test_type)))
        out['p_nc'] = _canon(_catch(lambda: r.test_noise(test_type)))
        # test_all must report the same three things
        out['p_all'] = _canon(_catch(lambda: list(r.test_all(test_type))))
        out['routes'] = _routes(r, test_type)
        return out
    return _catch(build)


class _FixedPatch:
    """eval_fixed with the per-subject evaluations prescribed: `compare` returns the row of
    the model it is called with, `boot_noise_ceiling` the prescribed ceiling."""

    def __init__(self, x, nc):
        self.x, self.nc = x, nc

    def __enter__(self):
        self.saved = (revaluate.compare, revaluate.boot_noise_ceiling)
        x = self.x
        revaluate.compare = lambda pred, data, method=None: np.array(
            x[int(round(float(pred.dissimilarities[0, 0])))], dtype=float)
        revaluate.boot_noise_ceiling = lambda data, method=None, rdm_descriptor=None: (self.nc[0], self.nc[1])
        return self

    def __exit__(self, *a):
        revaluate.compare, revaluate.boot_noise_ceiling = self.saved


def _fixed_obs(case):
    def build():
        x = case['x']
        m, n, c = len(x), len(x[0]), case['n_cond']
        npair = c * (c - 1) // 2
        data = RDMs(np.arange(n * npair, dtype=float).reshape(n, npair) + 1)
        models = [ModelFixed(f'm{k}', np.full(npair, float(k))) for k in range(m)]
        with _FixedPatch(x, case['nc']):
            r = revaluate.eval_fixed(models, data, method='cosine')
        if case.get('reload'):
            r = rresult.result_from_dict(copy.deepcopy(r.to_dict()))
        return {'evaluations': _canon(r.evaluations), 'dof': int(r.dof),
                'variances': _canon(r.variances),
                'means': _canon(_catch(r.get_means)), 'sem': _canon(_catch(r.get_sem)),
                'model_var': _canon(r.model_var), 'diff_var': _canon(r.diff_var),
                'nc_var': _canon(r.noise_ceil_var),
                'p_pair': _canon(_catch(lambda: r.test_pairwise('t-test'))),
                'p_zero': _canon(_catch(lambda: r.test_zero('t-test'))),
                'p_nc': _canon(_catch(lambda: r.test_noise('t-test'))),
                'routes': _routes(r, 't-test')}
    return _catch(build)


_EVAL_CACHE = {}


def _run_evaluator(case):
    """the real evaluation function on the case's data; returns the Result (seeded draws)"""
    key = repr(sorted(case.items()))
    if key in _EVAL_CACHE:
        return copy.deepcopy(_EVAL_CACHE[key])      # never hand the same mutable object to two readers
    data = RDMs(np.array(case['data'], dtype=float))
    models = [ModelFixed(f'm{k}', np.array(v, dtype=float)) for k, v in enumerate(case['models'])]
    which, N = case['which'], case['N']
    state = np.random.get_state()
    np.random.seed(case['seed'])
    try:
        with warnings.catch_warnings():
            warnings.simplefilter('ignore')
            if which == 'fixed':
                r = revaluate.eval_fixed(models, data, method='cosine')
            elif which == 'bootstrap':
                r = revaluate.eval_bootstrap(models, data, method='cosine', N=N)
            elif which == 'bootstrap_rdm':
                r = revaluate.eval_bootstrap_rdm(models, data, method='cosine', N=N)
            elif which == 'bootstrap_pattern':
                r = revaluate.eval_bootstrap_pattern(models, data, method='cosine', N=N)
            elif which == 'dual_bootstrap':
                r = revaluate.eval_dual_bootstrap(models, data, method='cosine', N=N)
            else:
                bt = {'bootstrap_crossval': 'both', 'bootstrap_crossval_rdm': 'rdm',
                      'bootstrap_crossval_pattern': 'pattern'}[which]
                r = revaluate.bootstrap_crossval(models, data, method='cosine', N=N, k_rdm=2,
                                                 k_pattern=1, n_cv=2, boot_type=bt)
    finally:
        np.random.set_state(state)
    if len(_EVAL_CACHE) > 20000:
        _EVAL_CACHE.clear()
    _EVAL_CACHE[key] = r
    return copy.deepcopy(r)


def _evaluator_obs(case):
    def build():
        r = _run_evaluator(case)
        return {'variances': _canon(r.variances), 'n_rdm': r.n_rdm, 'n_pattern': r.n_pattern,
                'model_var': _canon(r.model_var), 'diff_var': _canon(r.diff_var),
                'nc_var': _canon(r.noise_ceil_var), 'sem': _canon(_catch(r.get_sem))}
    return _catch(build)


def _source_obs(case):
    """round 7: the object the real evaluator returns (re-run, seeded): does it hold the case's arrays, and
    what do its own accessors report"""
    def build():
        r = _nan_source_run(case['source'])
        return {'same_evals': _lst(r.evaluations) == case['evals'], 'cv_method': r.cv_method,
                'means': _canon(_catch(r.get_means)), 'sem': _canon(_catch(r.get_sem)),
                'p_zero': _canon(_catch(r.test_zero)) if r.model_var is not None else None}
    return _catch(build)


def run_impl(case):
    op = case['op']
    if op == 'dual':
        v = np.array([_fl(x) for x in case['v']])
        return float(iu._dual_bootstrap(v, case['n_rdm'], case['n_pattern']))
    if op == 'correct1d':
        return float(iu._correct_1d(np.array(_fl(case['v'])), case['n_pattern'], case['n_rdm']))
    if op == 'contrast':
        return _canon(rmatrix.pairwise_contrast(np.arange(case['m'])))
    if op == 'extract':
        def f():
            mv, dv, nv = iu.extract_variances(np.array(case['var'], dtype=float), case['nc'],
                                              case['n_rdm'], case['n_pattern'])
            return {'model': _canon(mv), 'diff': _canon(dv), 'nc': _canon(nv)}
        return _catch(f)
    if op in ('result', 'boot', 'ranksum'):
        tt = {'result': 't-test', 'boot': 'bootstrap', 'ranksum': 'ranksum'}[op]
        out = {'id': _result_obs(case, tt), 'perm': _result_obs(case, tt, case['perm'])}
        if case.get('source'):
            out['source'] = _source_obs(case)
        return out
    if op == 'fixed':
        return _fixed_obs(case)
    if op == 'evaluator':
        return _evaluator_obs(case)
    if op == 'session':
        return _session_impl(case)
    raise ValueError(op)


# ---------------------------------------------------------------- model side

def _enc(x):
    return deep(fbits, x)


def _shape_of(ev):
    s = []
    while isinstance(ev, list):
        s.append(len(ev))
        ev = ev[0] if ev else None
    return s


def _var_req(case, var, m):
    v = np.asarray(var, dtype=float)
    return {'var': _enc(v.tolist()) if v.ndim else fbits(float(v)), 'ndim': int(v.ndim),
            'last_dim': int(v.shape[-1]) if v.ndim else 0,
            'n_rdm': fbits(case.get('n_rdm')), 'n_pattern': fbits(case.get('n_pattern'))}


def _result_req(case, perm=None):
    ev = _arr(case['evals'])
    var = None if case.get('var') is None else np.array(case['var'], dtype=float)
    if perm is not None:
        ev = ev[:, perm]
        var = _perm_var(var, perm, case.get('nc_rows', False))
    sh = list(ev.shape)
    ncl = _arr(case['noise_ceiling'])
    req = {'evals': _enc(_lst(ev)), 'nB': sh[0], 'm': sh[1], 'shape': sh[2:]}
    if case['op'] == 'result':
        pct = case.get('ci_pct')
        req.update(op='c06.result', cv_method=case['cv_method'],
                   nc_lower=_enc(_lst(np.atleast_1d(ncl[0]).ravel())),
                   nc_upper=_enc(_lst(np.atleast_1d(ncl[1]).ravel())),
                   dof=int(case.get('dof', 1)), pct=fbits(None if pct is None else float(pct)),
                   q=fbits(_q_of(case)))
        if var is not None:
            req.update(_var_req(case, var, sh[1]))
    elif case['op'] == 'boot':
        low = np.asarray(ncl[0], dtype=float)
        req.update(op='c06.boot', nc_lower=_enc(_lst(low)) if low.ndim else fbits(float(low)),
                   nc_scalar=bool(low.ndim == 0), nc_shape=list(low.shape[1:]))
    else:
        req.update(op='c06.ranksum', n=sh[2], nc_value=fbits(float(np.nanmean(ncl[0]))))
    return req


def _prop_cut(case):
    """the tail cut off on each side, transcribed independently of the source: (1 - level) / 2"""
    pct = case.get('ci_pct')
    level = 0.95 if pct is None else float(pct) / 100
    return (1 - level) / 2


def _q_of(case):
    """contract: scipy's Student-t quantile at the lower tail"""
    return float(sst.t.ppf(_prop_cut(case), case.get('dof', 1)))


def model_requests(case):
    op = case['op']
    if op == 'session':
        return _session_requests(case)
    if op in ('dual', 'correct1d', 'contrast'):
        return [dict(case, op='c06.' + op)]
    if op == 'extract':
        v = np.array(case['var'], dtype=float)
        return [{'op': 'c06.extract', 'var': deep(rat, v.tolist()) if v.ndim else rat(float(v)),
                 'ndim': int(v.ndim), 'm': case['m'], 'nc': case['nc'],
                 'n_rdm': case['n_rdm'], 'n_pattern': case['n_pattern']}]
    if op in ('result', 'boot', 'ranksum'):
        return [_result_req(case), _result_req(case, case['perm'])]
    if op == 'evaluator':
        # the stored covariance is an output of the seeded run; it is the model's input
        o = _evaluator_obs(case)
        if _is_exc(o) or o['variances'] is None or _has_none(o['variances']):
            return [{'op': 'c06.evaluator', 'cv': 'unavailable', 'var': None, 'ndim': 0, 'last_dim': 0,
                     'm': 0, 'n_rdm': 0, 'n_cond': 0}]
        v = np.asarray(_arr(o['variances']), dtype=float)
        return [{'op': 'c06.evaluator', 'cv': case['which'],
                 'var': _enc(_lst(v)) if v.ndim else fbits(float(v)), 'ndim': int(v.ndim),
                 'last_dim': int(v.shape[-1]) if v.ndim else 0, 'm': len(case['models']),
                 'n_rdm': fbits(case['n_rdm']), 'n_cond': fbits(case['n_cond'])}]
    if op == 'fixed':
        x = case['x']
        return [{'op': 'c06.fixed', 'x': _enc(x), 'm': len(x), 'n': len(x[0]),
                 'nc_lower': fbits(case['nc'][0]), 'nc_upper': fbits(case['nc'][1])}]
    raise ValueError(op)


def _un(x):
    return deep(unfbits, x)


def _p_from_t(t, dof):
    """the contract: scipy's Student-t CDF applied to the model's statistics; `dof` one number or
    the three numbers (pair, zero, ceiling) that reach the three tests through one route"""
    if t is None:
        return {'exc': 'ValueError'}
    d = [dof] * 3 if not isinstance(dof, (list, tuple)) else list(dof)
    with warnings.catch_warnings():
        warnings.simplefilter('ignore')
        pair = (2 * (1 - sst.t.cdf(np.array(_un(t['pair']), dtype=float), d[0]))).tolist() \
            if t['pair'] is not None else None
        zero = (1 - sst.t.cdf(np.array(_un(t['zero']), dtype=float), d[1])).tolist() \
            if t['zero'] is not None else None
        nc = (2 * (1 - sst.t.cdf(np.array(_un(t['nc']), dtype=float), d[2]))).tolist() \
            if t.get('nc') is not None else None
    return pair, zero, nc


# which dof list of the driver's `dof` answer belongs to which public route
ROUTE_DOF = {'accessors': 'single', 'test_all': 'all', 'util.all_tests': 'util_all', 'util.single': 'util_single'}


def _sr_null(st):
    """contract of the external null distribution (scipy.stats.wilcoxon, method='auto', at most 13
    subjects): the exact two-sided p-value under independent fair sign flips of the ranks —
    computed here from the MODEL's statistic (W+, the ranks), never from the data."""
    if st is None:
        return None                     # a missing value: scipy propagates NaN
    plus = unfbits(st['plus'])
    ranks = [int(round(2 * unfbits(x))) for x in st['ranks']]      # half-integers, doubled
    target = int(round(2 * plus))
    counts = {0: 1}
    for r in ranks:
        nxt = {}
        for w, k in counts.items():
            nxt[w] = nxt.get(w, 0) + k
            nxt[w + r] = nxt.get(w + r, 0) + k
        counts = nxt
    tot = 2 ** len(ranks)
    le = sum(k for w, k in counts.items() if w <= target)
    ge = sum(k for w, k in counts.items() if w >= target)
    return min(1.0, 2 * min(le, ge) / tot)


def _vars_model(v):
    return {'model_var': _un(v['model']), 'diff_var': _un(v['diff']), 'nc_var': _un(v['nc'])}


def _result_model(case, a):
    if isinstance(a, dict) and 'model_error' in a:
        return a
    op = case['op']
    if op == 'result':
        out = {'means': _un(a['means'])}
        if a.get('vars') is None:
            no = {'exc': 'ValueError'}
            out.update(sem=None, errorbars=[None, None], errorbars_util=None, model_var=None, diff_var=None, nc_var=None,
                       ci=None, errorbars_ci=None, errorbars_util_ci=None, p_pair=no, p_zero=no, p_nc=no, p_all=no)
            return out
        out.update(_vars_model(a['vars']))
        sem = _un(a['sem'])
        out.update(sem=sem, errorbars=[sem, sem], errorbars_util=_un(a['util_eb_sem']))
        # the quantile was taken at the harness' transcription of the tail; the model's tail
        # (leaves ciPropCut / ebCiPercent / ebCiDefault / utilPropCut / utilCiDefault) must be that one
        pc = _un(a['propcut'])
        if not all(close(x, _prop_cut(case), 1e-12, 1e-15) for x in pc):
            return {'model_error': f'tail of the confidence interval {pc} != {_prop_cut(case)}'}
        out['ci'] = _un(a['ci']) if a.get('ci') is not None else None
        out['errorbars_ci'] = _un(a['eb_ci']) if a.get('eb_ci') is not None else None
        if out['errorbars_ci'] is not None and any(
                isinstance(v, float) and math.isnan(v) for row in out['errorbars_ci'] for v in row):
            # as coded: Result.get_errorbars('ci…') rejects undefined limits (a model without values)
            out['errorbars_ci'] = {'exc': 'ValueError'}
        out['errorbars_util_ci'] = _un(a['util_eb_ci'])
        routes = {}
        for route, key in ROUTE_DOF.items():
            routes[route] = list(_p_from_t(a['t'], a['dof'][key])) if a['t'] is not None else None
        pair, zero, nc = routes['accessors']
        out.update(p_pair=pair, p_zero=zero, p_nc=nc, p_all=routes['test_all'], p_routes=routes)
        return out
    if op == 'boot':
        pair = _un(a['pair'])
        zero = _un(a['zero']) if 'zero' in a else None
        nc = _un(a['nc']) if 'nc' in a else None
        return {'p_pair': pair, 'p_zero': zero, 'p_nc': nc, 'p_all': [pair, zero, nc]}
    # ranksum: the model computes the signed-rank statistic (W+, W-, ranks); only the null
    # distribution is external (`_sr_null`, applied to the model's statistic)
    m = len(a['data'])
    pair = [[1.0 if i == j else _sr_null(a['pair'][min(i, j)][max(i, j)]) for j in range(m)] for i in range(m)]
    zero = [_sr_null(x) for x in a['zero']]
    nc = [_sr_null(x) for x in a['nc']]
    stat = {'pair': [[None if a['pair'][i][j] is None else
                      min(unfbits(a['pair'][i][j]['plus']), unfbits(a['pair'][i][j]['minus']))
                      for j in range(m)] for i in range(m)],
            'plus_zero': [None if x is None else unfbits(x['plus']) for x in a['zero']]}
    return {'p_pair': pair, 'p_zero': zero, 'p_nc': nc, 'p_all': [pair, zero, nc], 'stat': stat,
            'data': _un(a['data'])}


def model_result(case, answers):
    op = case['op']
    if op == 'session':
        return _session_model(case, answers)
    a = answers[0]
    if op in ('dual', 'correct1d', 'contrast'):
        return a
    if op == 'evaluator' and isinstance(a, dict) and 'model_error' in a \
            and 'unavailable' in str(a['model_error']):
        return {'unavailable': True}      # the run produced no defined covariance
    if isinstance(a, dict) and 'model_error' in a:
        return a
    if op == 'extract':
        return {k: deep(lambda z: float(unrat(z)), a[k]) for k in ('model', 'diff', 'nc')}
    if op in ('result', 'boot', 'ranksum'):
        return {'id': _result_model(case, answers[0]), 'perm': _result_model(case, answers[1])}
    if op == 'evaluator':
        if isinstance(a, dict) and 'model_error' in a:
            return {'unavailable': True}
        out = _vars_model(a['vars'])
        out['sem'] = _un(a['sem'])
        return out
    if op == 'fixed':
        n = len(case['x'][0])
        out = {'dof': a['dof'], 'means': _un(a['means']), 'sem': _un(a['sem']), 'cov': _un(a['cov'])}
        out.update(_vars_model(a['vars']))
        routes = {route: list(_p_from_t(a['t'], a['dof_routes'][key])) for route, key in ROUTE_DOF.items()}
        pair, zero, nc = routes['accessors']
        out.update(p_pair=pair, p_zero=zero, p_nc=nc, p_routes=routes)
        return out
    raise ValueError(op)


# ---------------------------------------------------------------- comparison

RESULT_KEYS = {'result': ['means', 'sem', 'errorbars', 'errorbars_util', 'model_var', 'diff_var', 'nc_var', 'ci',
                          'errorbars_ci', 'errorbars_util_ci', 'p_pair', 'p_zero', 'p_nc', 'p_all'],
               'boot': ['p_pair', 'p_zero', 'p_nc', 'p_all'],
               'ranksum': ['p_pair', 'p_zero', 'p_nc', 'p_all']}


def _abs(x):
    return deep(lambda v: None if v is None else abs(v), x)


def _cmp_obs(op, impl, model, where):
    if isinstance(impl, dict) and 'exc' in impl:
        return f'{where}: implementation raised {impl["exc"]} building the Result'
    for k in RESULT_KEYS[op]:
        a, b = impl.get(k), model.get(k)
        if _is_exc(a) and _is_exc(b):
            continue        # both refuse (no variance estimates); the exception type is not compared
        if k == 'errorbars_util_ci' and not _is_exc(a) and a is not None and b is not None:
            # the plotting helper's CI limits: magnitudes (the coded sign is a documented defect of
            # the helper, outside the property statement; see notes)
            a, b = _abs(a), _abs(b)
        tol = (PRTOL, PATOL) if k.startswith('p_') else (RTOL, ATOL)
        d = first_diff(a, b, *tol, path=f'{where}.{k}')
        if d:
            return d
    if op == 'result' and model.get('sem') is not None:
        if impl.get('noise_ceil_kept') is not True:
            return f'{where}: get_noise_ceil() is not the stored noise ceiling'
        if impl.get('model_var_kept') is not True:
            return f'{where}: get_model_var() is not the stored model variance'
        if not all(impl.get('rejects_unknown', [False])):
            return (f'{where}: an unknown test_type is not rejected with ValueError by every wrapper '
                    f'{impl.get("rejects_unknown")}')
    if op == 'ranksum':
        d = _cmp_ranksum_stat(model, where)
        if d:
            return d
    return _cmp_routes(op, impl, model, where)


def _cmp_ranksum_stat(model, where):
    """the model's statistic against scipy's own (`.statistic`: min(W+, W-) two-sided, W+ for
    alternative='greater') on the model's reduced data — a reference check of the model"""
    data = [np.array([np.nan if v is None else v for v in row], dtype=float) for row in model['data']]
    m = len(data)
    with warnings.catch_warnings():
        warnings.simplefilter('ignore')
        for i in range(m):
            if np.any(np.isnan(data[i])) or len(data[i]) < 2:
                continue
            want = float(sst.wilcoxon(data[i], alternative='greater').statistic)
            got = model['stat']['plus_zero'][i]
            if got is None or abs(got - want) > 1e-9:
                return f'{where}: model W+ of model {i} against zero {got} != scipy {want}'
            for j in range(i + 1, m):
                if np.any(np.isnan(data[j])):
                    continue
                want = float(sst.wilcoxon(data[i], data[j]).statistic)
                got = model['stat']['pair'][i][j]
                if got is None or abs(got - want) > 1e-9:
                    return f'{where}: model signed-rank statistic of pair {i},{j} {got} != scipy {want}'
    return None


def _route_plan(pair_only=False):
    """(route, families) to look at: every family through every public route"""
    return [(r, FAMILIES) for r in ROUTES]


def _cmp_routes(op, impl, model, where):
    """every public route must give the model's p-values (for the t-tests: computed with the
    degrees of freedom that reach the test through that very route)"""
    for route, fams in _route_plan():
        got = impl['routes'][route]
        per_route = model.get('p_routes', {}).get(route)
        for k, (fam, a) in enumerate(zip(FAMILIES, got)):
            b = model.get(fam) if per_route is None else per_route[k]
            if b is None or fam not in fams:
                continue
            if _is_exc(a) and _is_exc(b):
                continue
            d = first_diff(a, b, PRTOL, PATOL, f'{where}.{route}.{fam}')
            if d:
                return d
    return None


def compare(case, impl, model):
    op = case['op']
    if isinstance(model, dict) and 'model_error' in model:
        return f'model error {model}'
    if op == 'session':
        return _session_compare(case, impl, model)
    if op in ('dual', 'correct1d'):
        m = float(unrat(model))
        return None if close(impl, m, RTOL, ATOL) else f'impl {impl!r} != model {model}'
    if op == 'contrast':
        return first_diff(impl, [[float(x) for x in r] for r in model], 0, 0, 'C')
    if op == 'extract':
        if isinstance(impl, dict) and 'exc' in impl:
            return f'implementation raised {impl["exc"]}'
        return first_diff(impl, model, RTOL, ATOL, 'extract')
    if op in ('result', 'boot', 'ranksum'):
        for w in ('id', 'perm'):
            if isinstance(model[w], dict) and 'model_error' in model[w]:
                return f'model error {model[w]}'
            d = _cmp_obs(op, impl[w], model[w], w)
            if d:
                return d
        if case.get('source'):
            so = impl.get('source')
            if _is_exc(so) or not so.get('same_evals'):
                return f'the evaluator run of the case is not reproducible: {str(so)[:120]}'
            # (the evaluators record n_rdm / n_pattern after construction, so the SEM of their own object is
            # the `evaluator` kind's business; the rebuilt Result's SEM is compared above)
            d = first_diff(so['means'], model['id']['means'], RTOL, ATOL, 'source.means')
            if d:
                return d
        return None
    if op == 'evaluator':
        if 'exc' in impl:
            return f'implementation raised {impl["exc"]}'
        if impl['variances'] is None or _has_none(impl['variances']):
            return None         # no (defined) covariance estimate: nothing to compare
        for k in ('model_var', 'diff_var', 'nc_var', 'sem'):
            d = first_diff(impl[k], model[k], RTOL, ATOL, k)
            if d:
                return d
        return None
    if op == 'fixed':
        if 'exc' in impl:
            return f'implementation raised {impl["exc"]}'
        if impl['evaluations'] != [case['x']]:
            return 'eval_fixed did not store the prescribed evaluations'
        if impl['dof'] != model['dof']:
            return f'dof {impl["dof"]} != {model["dof"]}'
        m = len(case['x'])
        want_var = model['cov'][0][0] if m == 1 else model['cov']
        d = first_diff(impl['variances'], want_var, RTOL, ATOL, 'variances')
        if d:
            return d
        for k in ('means', 'sem', 'model_var', 'diff_var', 'nc_var', 'p_pair', 'p_zero', 'p_nc'):
            tol = (PRTOL, PATOL) if k.startswith('p_') else (RTOL, ATOL)
            d = first_diff(impl[k], model[k], *tol, path=k)
            if d:
                return d
        return _cmp_routes(op, impl, model, 'fixed')
    raise ValueError(op)


# ---------------------------------------------------------------- features

def features(case, impl):
    op = case['op']
    br = []
    f = {'op': op}
    if op == 'session':
        return _session_features(case)
    if op == 'dual':
        k = (case['n_rdm'] is not None) + (case['n_pattern'] is not None)
        br.append(['dual:plain', 'dual:one_n', 'dual:small_sample'][k])
    elif op == 'correct1d':
        br.append('c1d:' + ('both' if case['n_rdm'] and case['n_pattern'] else
                            'pattern' if case['n_pattern'] else 'rdm' if case['n_rdm'] else 'none'))
    elif op == 'contrast':
        br.append('contrast')
    elif op == 'extract':
        k = case['var_kind']
        br.append(f'extract:{k}' + ('_nc' if case['nc'] else ''))
        if k == '3d' and case['n_rdm'] and case['n_pattern']:
            br.append('extract:3d_small_sample')
        f.update(var_kind=k, nc=case['nc'], m=case['m'])
    elif op in ('result', 'boot', 'ranksum'):
        ev = _arr(case['evals'])
        nan_rows = bool(np.any(np.all(np.isnan(ev.reshape(ev.shape[0], -1)), axis=1)))
        flat = ev.reshape(ev.shape[0], -1)
        nan_folds = bool(np.any(np.isnan(flat[~np.all(np.isnan(flat), axis=1)])))
        nc_per_sample = np.asarray(_arr(case['noise_ceiling'])).ndim > 1
        f.update(m=ev.shape[1], ndim=ev.ndim, nan_rows=nan_rows, nan_folds=nan_folds, ndim_gt2=bool(ev.ndim > 2),
                 nc_per_sample=bool(nc_per_sample), identity_perm=case['perm'] == sorted(case['perm']))
        if op == 'result':
            f.update(cv_method=case['cv_method'], var_kind=case['var_kind'], nc_rows=case['nc_rows'])
            br.append('result:var_' + case['var_kind'])
            br.append(f'result:ndim{ev.ndim}')
            if case['nc_rows']:
                br.append('result:nc_rows')
            if nan_rows:
                br.append('result:nan_rows')
            if nan_folds:
                br.append('result:nan_folds')
            if case['cv_method'] == 'fixed':
                br.append('result:fixed')
            if not f['identity_perm']:
                br.append('result:perm')
            br.append('result:ci_default' if case.get('ci_pct') is None else 'result:ci_pct')
            with warnings.catch_warnings():
                warnings.simplefilter('ignore')
                mu = np.nanmean(ev.reshape(ev.shape[0], ev.shape[1], -1), axis=(0, 2))
            if np.any(mu < 0):
                br.append('result:neg_effect')
            if ev.shape[1] >= 4 and case['var_kind'] == '2d':
                br.append('result:m_ge4_cov2d')
            if case.get('dof') == 1:
                br.append('result:dof1')
            if case.get('var') is not None and np.max(np.abs(np.asarray(case['var'], dtype=float))) < 1e-15:
                br.append('result:tiny_var')
            f.update(ci_pct=case.get('ci_pct'), dof=case.get('dof'))
            nm = case.get('nan_model')
            if nm:
                cvk = {'fixed': 'fixed', 'crossvalidation': 'crossval'}.get(case['cv_method'], 'boot')
                undefined = nm['kind'] in ('all', 'partial')
                if undefined:
                    br.append(f'nan-model:first:{cvk}' if nm['pos'] == 'first' else 'nan-model:other')
                    br.append('nan-model:' + nm['kind'])
                if nm['how'] != 'hand-built':
                    br.append('nan-model:evaluator:' + {'fixed': 'fixed', 'crossval': 'crossval'}.get(
                        nm['how'], 'bootstrap'))
                    br.append('nan-model:' + nm['method'])
                f.update(nan_model_pos=nm['pos'], nan_model_kind=nm['kind'], nan_model_how=nm['how'])
        elif op == 'boot':
            br.append('boot:nc_per_sample' if nc_per_sample else 'boot:nc_scalar')
            if nan_rows:
                br.append('boot:nan_rows')
            if ev.ndim >= 3:
                br.append('boot:ndim3')
                br.append('boot:ndim_onesided')
            if ev.ndim in (4, 5):
                br.append(f'boot:ndim{ev.ndim}')
            if np.asarray(_arr(case['noise_ceiling'])).ndim > 2:
                br.append('boot:nc_nd')
            with warnings.catch_warnings():
                warnings.simplefilter('ignore')
                cells = np.nanmean(ev.reshape(ev.shape[0], ev.shape[1], -1), axis=2)
            ok = cells[~np.any(np.isnan(cells), axis=1)]
            if ok.shape[1] >= 2 and any(np.any(ok[:, i] == ok[:, j]) and np.any(ok[:, i] != ok[:, j])
                                        for i in range(ok.shape[1]) for j in range(i + 1, ok.shape[1])):
                br.append('boot:ties')
        else:
            br.append('ranksum')
            mode = case.get('mode', 'generic')
            f['mode'] = mode
            with warnings.catch_warnings():
                warnings.simplefilter('ignore')
                red = np.nanmean(ev, axis=0)
            if mode == 'generic':
                br.append('ranksum:generic')
            if np.any(np.isnan(red)):
                br.append('ranksum:nan_subject')
            else:
                c = float(np.nanmean(_arr(case['noise_ceiling'])[0]))
                ds = [red[i] - red[j] for i in range(len(red)) for j in range(i + 1, len(red))] \
                    + [red[i] for i in range(len(red))] + [red[i] - c for i in range(len(red))]
                if any(np.any(d == 0) for d in ds):
                    br.append('ranksum:zeros')
                if any(len(set(np.abs(d[d != 0]).tolist())) < np.sum(d != 0) for d in ds):
                    br.append('ranksum:ties')
            if ev.shape[2] <= 5:
                br.append('ranksum:small_n')
    elif op == 'evaluator':
        f.update(which=case['which'], n_rdm=case['n_rdm'], n_cond=case['n_cond'], m=len(case['models']),
                 n_cond_lt_n_rdm=case['n_cond'] < case['n_rdm'])
        br.append('evaluator:' + case['which'])
        if case['n_cond'] < case['n_rdm']:
            br.append('evaluator:n_cond_lt_n_rdm')
        if case['n_rdm'] < case['n_cond']:
            br.append('evaluator:n_rdm_lt_n_cond')
    elif op == 'fixed':
        m, n = len(case['x']), len(case['x'][0])
        f.update(m=m, n_rdm=n, n_cond=case['n_cond'], reload=bool(case.get('reload')),
                 n_cond_lt_n_rdm=case['n_cond'] < n)
        br.append('fixed:one_model' if m == 1 else 'fixed:multi')
        if case.get('reload'):
            br.append('fixed:reload')
    f['branches'] = br
    return f


def nontrivial_key(case, impl):
    op = case['op']
    if op == 'correct1d' and not (case['n_rdm'] or case['n_pattern']):
        return None
    if op == 'contrast' and case['m'] < 2:
        return None
    if op in ('result', 'boot', 'ranksum') and len(case['perm']) == 1 and case.get('var') is None \
            and op == 'result':
        return None
    return case


# ---------------------------------------------------------------- oracle
#
# A direct transcription of the sentences of C06, evaluated on the real code only.

def _bad(what, observed=None, expected=None, **feat):
    return {'what': what, 'observed': observed, 'expected': expected, 'features': feat}


def _has_none(x):
    if isinstance(x, list):
        return any(_has_none(y) for y in x)
    return x is None


def _is_exc(x):
    return isinstance(x, dict) and 'exc' in x


def _in01(p):
    """every defined p-value lies in [0,1] (an all-ties bootstrap pair or an all-NaN effect has
    no defined p-value: NaN)"""
    a = np.asarray(deep(lambda v: np.nan if v is None else v, p), dtype=float)
    a = a[~np.isnan(a)]
    return bool(np.all((a >= -1e-12) & (a <= 1 + 1e-12)))


def _same(a, b, rtol=1e-9, atol=1e-12):
    if a is None or b is None:
        return a is None and b is None
    return close(a, b, rtol, atol)


def _nan_aware_mean(ev, cv):
    """plain loops: the average of a model's evaluations, NaN entries skipped (nested, last axis
    first); failed bootstrap samples (NaN rows) dropped"""
    def red(x):
        if not isinstance(x, list):
            return x
        vals = [red(y) for y in x]
        vals = [v for v in vals if v is not None]
        return sum(vals) / len(vals) if vals else None
    out = []
    nB, m = len(ev), len(ev[0])
    for j in range(m):
        if cv in ('fixed', 'crossvalidation'):
            # one row: average over subjects / folds
            out.append(red([ev[r][j] for r in range(nB)]) if nB == 1 else None)
        else:
            rows = [red(ev[r][j]) for r in range(nB)]
            rows = [v for v in rows if v is not None]
            out.append(sum(rows) / len(rows) if rows else None)
    return out


def _check_perm(obs_id, obs_perm, perm, keys, what):
    """permuting the models permutes every output accordingly"""
    for k in keys:
        a, b = obs_id.get(k), obs_perm.get(k)
        if a is None or b is None:
            if (a is None) != (b is None):
                return _bad(f'{what}: {k} exists only for one order of the models')
            continue
        if _is_exc(a) or _is_exc(b):
            if a != b:
                return _bad(f'{what}: {k} raises for one order of the models only', b, a)
            continue
        A = np.asarray(a, dtype=float)
        B = np.asarray(b, dtype=float)
        if k == 'diff_var':
            from scipy.spatial.distance import squareform
            if A.size == 0:
                continue
            A, B = squareform(A), squareform(B)
        want = A[np.ix_(perm, perm)] if (A.ndim == 2 and k in ('p_pair', 'diff_var')) else A[perm]
        if want.shape != B.shape or not np.allclose(want, B, rtol=1e-7, atol=1e-10, equal_nan=True):
            return _bad(f'{what}: {k} is not permuted with the models', _lst(B), _lst(want),
                        violated='permutation')
    return None


def _oracle_pvals(obs, what, m, keys=('p_pair', 'p_zero', 'p_nc')):
    if len(keys) == 3 and all(_is_exc(obs.get(k)) for k in keys):
        # a combined route (test_all / all_tests) that raises as a whole
        p = obs.get(keys[0])
        return _bad(f'{what}: the three tests cannot be computed together ({p["exc"]})', p,
                    'p-values in [0,1]', violated='exception', key='all')
    for k in keys:
        p = obs.get(k)
        if p is None:
            continue
        if _is_exc(p):
            return _bad(f'{what}: {k} cannot be computed ({p["exc"]})', p, 'p-values in [0,1]',
                        violated='exception', key=k)
        if not _in01(p):
            return _bad(f'{what}: {k} outside [0,1]', p, '[0,1]', violated='range', key=k)
        if k != 'p_pair' and np.shape(np.asarray(deep(lambda v: np.nan if v is None else v, p),
                                                 dtype=float)) != (m,):
            return _bad(f'{what}: {k} is not one p-value per model', p, f'{m} p-values',
                        violated='shape', key=k)
    pp = obs.get('p_pair') if 'p_pair' in keys else None
    if pp is not None and not _is_exc(pp):
        A = np.asarray(deep(lambda v: np.nan if v is None else v, pp), dtype=float)
        if A.shape != (m, m) or not np.allclose(A, A.T, equal_nan=True):
            return _bad(f'{what}: pairwise p-values not symmetric', pp, violated='symmetry')
        if not np.allclose(np.diag(A), 1):
            return _bad(f'{what}: pairwise p-values without unit diagonal', pp, violated='diagonal')
    return None


def _route_obs(obs, route):
    """the observation with the three p-value families taken from one route"""
    return dict(obs, **dict(zip(FAMILIES, obs['routes'][route])))


def _oracle_routes_agree(obs, what, pair_only=False):
    """Result.test_all, the three single accessors and the inference_util wrappers are routes to
    the same p-values"""
    ref = obs['routes']['accessors']
    for route, fams in _route_plan(pair_only)[1:]:
        for k, fam in enumerate(FAMILIES):
            if fam not in fams:
                continue
            a, b = ref[k], obs['routes'][route][k]
            if _is_exc(a) and _is_exc(b):
                continue
            if _is_exc(a) != _is_exc(b):
                return _bad(f'{what}: {fam} raises through one route only ({route} vs the accessor)',
                            b, a, violated='routes', key=fam, route=route)
            d = first_diff(b, a, 1e-9, 1e-12, fam)
            if d:
                return _bad(f'{what}: {fam} through {route} differs from Result.test_'
                            + {'p_pair': 'pairwise', 'p_zero': 'zero', 'p_nc': 'noise'}[fam],
                            b, a, violated='routes', key=fam, route=route, diff=d)
    return None


def _oracle_exchange(case, tt, o_id, m):
    """symmetry of the bootstrap pair test itself: exchanging two models must not change their p-value"""
    for i, j in itertools.combinations(range(m), 2):
        tr = list(range(m))
        tr[i], tr[j] = j, i
        o_tr = _result_obs(case, tt, tr)
        a, b = o_id['p_pair'], o_tr.get('p_pair') if not _is_exc(o_tr) else None
        if b is None or _is_exc(a) or _is_exc(b):
            continue
        if not _same(a[i][j], b[i][j]):
            return _bad(f'bootstrap pair test of models {i},{j} changes when the two are exchanged',
                        b[i][j], a[i][j], violated='permutation')
    return None


def _oracle_result(case):
    op = case['op']
    tt = {'result': 't-test', 'boot': 'bootstrap', 'ranksum': 'ranksum'}[op]
    perm = case['perm']
    ev = case['evals']
    m = len(ev[0])
    o_id = _result_obs(case, tt)
    o_pm = _result_obs(case, tt, perm)
    if _is_exc(o_id) or _is_exc(o_pm):
        return _bad('Result cannot be built', o_id, violated='exception')
    has_var = case.get('var') is not None
    if op == 'boot' and len(_shape_of(ev)) > 2:
        # the pair test first and completely (range, symmetry, diagonal, permutation, exchange of two
        # models), so that the known finding about the one-sided tests on > 2-D arrays cannot hide a
        # defect of the pair test
        for what, o in (('given order', o_id), ('permuted order', o_pm)):
            for route in ('accessors', 'util.single'):      # the routes that run the pair test alone
                r = _oracle_pvals(_route_obs(o, route), f'{tt} ({what}, {route})', m, keys=('p_pair',))
                if r:
                    return r
        r = _check_perm(o_id, o_pm, perm, ['means', 'p_pair'], tt) or _oracle_exchange(case, tt, o_id, m)
        if r:
            return r
    for what, o in (('given order', o_id), ('permuted order', o_pm)):
        if op == 'result' and not has_var:
            continue
        for route, fams in _route_plan():
            o_r = _route_obs(o, route)
            r = _oracle_pvals(o_r, f'{tt} ({what}, {route})', m)
            if r:
                return r
        r = _oracle_routes_agree(o, f'{tt} ({what})')
        if r:
            return r
    keys = ['means', 'sem', 'model_var', 'diff_var', 'p_pair', 'p_zero', 'p_nc']
    if op == 'result' and not has_var:
        keys = ['means']
    r = _check_perm(o_id, o_pm, perm, keys, tt)
    if r:
        return r
    if op == 'boot':
        r = _oracle_exchange(case, tt, o_id, m)
        if r:
            return r
    # means are the NaN-aware averages
    want = _nan_aware_mean(ev, case.get('cv_method', 'bootstrap'))
    got = o_id['means']
    if _is_exc(got) or not isinstance(got, list) or len(got) != m:
        return _bad('get_means does not report one mean per model', got, want, violated='means')
    for jm in range(m):
        # per model: a model without any value has mean NaN (None), every other model its own average
        if (got[jm] is None) != (want[jm] is None) or \
                (want[jm] is not None and not close(got[jm], want[jm], 1e-9, 1e-12)):
            return _bad(f'get_means of model {jm} is not the NaN-aware average of its evaluations', got, want,
                        violated='means', model=jm, undefined_models=[k for k in range(m) if want[k] is None])
    if case.get('source'):
        so = _source_obs(case)
        if not _is_exc(so) and so.get('same_evals'):
            if first_diff(so['means'], want, 1e-9, 1e-12):
                return _bad('get_means of the evaluator\'s own Result is not the per-model NaN-aware average',
                            so['means'], want, violated='means', route='evaluator')
    if op != 'result' or not has_var:
        return None
    # standard errors non-negative and equal to sqrt(model_var)
    sem = np.asarray(o_id['sem'], dtype=float)
    var_nan = _has_none(case['var']) or bool(np.any(np.isnan(np.asarray(case['var'], dtype=float))))
    if np.any(sem < 0) or (np.any(np.isnan(sem)) and not var_nan):
        return _bad('negative / undefined standard error', o_id['sem'], violated='sem')
    if var_nan:
        # an undefined covariance entry (a model without values in a real evaluation): the standard error is
        # undefined for exactly the models whose variance is; the exact-contrast checks below need numbers
        mvv = np.asarray(o_id['model_var'], dtype=float)
        if np.any(np.isnan(sem) != np.isnan(mvv)):
            return _bad('standard error undefined for a model with a defined variance (or vice versa)',
                        o_id['sem'], o_id['model_var'], violated='sem')
        return None
    # every route to the standard-error bars reports that standard error on both sides
    for key in ('errorbars', 'errorbars_util'):
        eb = o_id.get(key)
        if eb is None or _is_exc(eb) or _has_none(eb):
            continue
        eb = np.asarray(eb, dtype=float)
        if eb.shape != (2, m) or not np.allclose(eb, np.array([sem, sem]), rtol=1e-9, atol=1e-12):
            return _bad(f"the 'sem' error bars ({key}) are not the standard error on both sides",
                        _lst(eb), _lst(np.array([sem, sem])), violated='sem_routes', key=key)
    # confidence limits of the Result: ordered around the mean, symmetric, half-width sem * |t quantile|,
    # and the 'ci' error bars are that non-negative half-width on both sides
    ci, ebc, mm = o_id.get('ci'), o_id.get('errorbars_ci'), o_id.get('means')
    if ci is not None and not _is_exc(ci) and not _is_exc(mm) and not _has_none(mm) and not _has_none(ci):
        lo, hi, mu = (np.asarray(x, dtype=float) for x in (ci[0], ci[1], mm))
        half = sem * abs(_q_of(case))
        tol = 1e-9 * (1 + np.abs(mu) + half)
        if np.any(lo > mu + tol) or np.any(hi < mu - tol) or np.any(np.abs((mu - lo) - (hi - mu)) > tol) \
                or np.any(np.abs((hi - lo) / 2 - half) > tol):
            return _bad('confidence limits are not mean -/+ sem * |t quantile|', _lst(np.array([lo, hi])),
                        _lst(np.array([mu - half, mu + half])), violated='ci')
        if ebc is not None and not _is_exc(ebc) and not _has_none(ebc):
            eb = np.asarray(ebc, dtype=float)
            if np.any(eb < -tol) or np.any(np.abs(eb - half) > tol):
                return _bad("Result.get_errorbars('ci') is not the non-negative half-width on both sides",
                            _lst(eb), _lst(np.array([half, half])), violated='ci')
    # the variances are the contrasts of the stored covariance
    r = _oracle_extract({'var': case['var'], 'nc': case['nc_rows'], 'm': m, 'n_rdm': case['n_rdm'],
                         'n_pattern': case['n_pattern']},
                        {'model': o_id['model_var'], 'diff': o_id['diff_var'], 'nc': o_id['nc_var']})
    if r:
        return r
    # the three t-tests use the effect and the variance that belong to them: model variance
    # (one-sided, against 0), pair-difference variance (two-sided), model-versus-LOWER-ceiling
    # variance (two-sided, against the mean lower ceiling)
    flat = _arr(ev).reshape(len(ev), -1)
    if not np.any(np.isnan(flat[~np.all(np.isnan(flat), axis=1)])) and all(w is not None for w in want):
        eff = np.array(want, dtype=float)
        mv = np.asarray(o_id['model_var'], dtype=float)
        dv = np.asarray(o_id['diff_var'], dtype=float)
        nv = np.asarray(o_id['nc_var'], dtype=float)
        dof = case['dof']
        with warnings.catch_warnings():
            warnings.simplefilter('ignore')
            c = float(np.nanmean(_arr(case['noise_ceiling'])[0]))
            e_zero = 1 - sst.t.cdf(eff / np.sqrt(np.maximum(mv, EPS)), dof)
            e_nc = 2 * (1 - sst.t.cdf(np.abs(eff - c) / np.sqrt(np.maximum(nv[:, 0], EPS)), dof))
            e_pair = np.ones((m, m))
            for k, (i, j) in enumerate(itertools.combinations(range(m), 2)):
                e_pair[i, j] = e_pair[j, i] = 2 * (1 - sst.t.cdf(
                    abs(eff[i] - eff[j]) / math.sqrt(max(dv[k], EPS)), dof))
        for route in ROUTES:
            o_r = _route_obs(o_id, route)
            for k, e in (('p_zero', e_zero), ('p_nc', e_nc), ('p_pair', e_pair)):
                d = first_diff(o_r[k], e.tolist(), PRTOL, 1e-10, k)
                if d:
                    return _bad(f'{k} ({route}) is not the t-test of the effect with its own variance '
                                f'and the dof of the result ({dof})', o_r[k], e.tolist(),
                                violated='t_formula', key=k, route=route, diff=d)
    # a larger effect at equal variance never yields a larger p-value
    res = _mk_result(case)
    E = res.evaluations
    with warnings.catch_warnings():
        warnings.simplefilter('ignore')
        c = float(np.nanmean(res.noise_ceiling[0]))
        checks = [
            ('t_test_0', iu.t_test_0(E, res.model_var, res.dof), iu.t_test_0(E + 0.25, res.model_var, res.dof)),
            ('t_tests', iu.t_tests(E, res.diff_var, res.dof), iu.t_tests(E * 1.5, res.diff_var, res.dof)),
            ('t_test_nc', iu.t_test_nc(E, res.noise_ceil_var[:, 0], c, res.dof),
             iu.t_test_nc(c + 1.5 * (E - c), res.noise_ceil_var[:, 0], c, res.dof))]
    for name, p0, p1 in checks:
        # tolerance of a p-value (PRTOL): with a variance at the eps clamp the rounding noise of an effect
        # that is zero up to rounding is amplified by 1/sqrt(eps) in t, i.e. ~1e-8 in p
        if np.any(np.asarray(p1) > np.asarray(p0) + 1e-7):
            return _bad(f'{name}: a larger effect at equal variance gives a larger p-value',
                        _lst(p1), _lst(p0), violated='monotone')
    # contract of the external CDF, sampled
    ts = np.linspace(-6, 6, 25)
    cd = sst.t.cdf(ts, case['dof'])
    if np.any(np.diff(cd) < 0) or abs(sst.t.cdf(0, case['dof']) - 0.5) > 1e-12 or cd.min() < 0 or cd.max() > 1:
        return _bad('scipy t CDF contract broken')
    return None


def _oracle_extract(case, got=None):
    """contrasts of the stored covariance by plain loops over Fractions"""
    var = np.array(case['var'], dtype=float)
    nc, m = case['nc'], case['m']
    if got is None:
        got = run_impl(dict(case, op='extract'))
        if _is_exc(got):
            return _bad('extract_variances raises', got, violated='exception')
    ns = [n for n in (case['n_rdm'], case['n_pattern']) if n]
    fac = F(min(ns), min(ns) - 1) if ns else F(1)

    def contrasts(V):
        """V: Fraction matrix (m or m+2 square) -> model, diff, nc contrasts"""
        mod = [V[i][i] for i in range(m)]
        dif = [V[i][i] + V[j][j] - V[i][j] - V[j][i] for i in range(m) for j in range(i + 1, m)]
        if nc:
            ncv = [[V[i][i] - 2 * V[i][m + c] + V[m + c][m + c] for c in (0, 1)] for i in range(m)]
        else:
            ncv = [[V[i][i], V[i][i]] for i in range(m)]
        return mod, dif, ncv

    def frac_mat(a):
        return [[F(x) for x in row] for row in a.tolist()]

    if var.ndim <= 1:
        v = [F(x) for x in np.atleast_1d(var).tolist()]
        V = [[v[i] if i == j else F(0) for j in range(len(v))] for i in range(len(v))]
        want = contrasts(V)
    elif var.ndim == 2:
        want = contrasts(frac_mat(var))
    else:
        c0, c1, c2 = (contrasts(frac_mat(var[k])) for k in range(3))
        both = case['n_rdm'] and case['n_pattern']
        f1 = F(case['n_rdm'], case['n_rdm'] - 1) if both else F(1)
        f2 = F(case['n_pattern'], case['n_pattern'] - 1) if both else F(1)
        for name, k in (('model', 0), ('diff', 1), ('nc', 2)):
            g = np.asarray(got[name], dtype=float).ravel()
            a0 = np.array([float(x) for x in np.array(c0[k], dtype=object).ravel()])
            a1 = np.array([float(f1 * x) for x in np.array(c1[k], dtype=object).ravel()])
            a2 = np.array([float(f2 * x) for x in np.array(c2[k], dtype=object).ravel()])
            if g.shape != a0.shape:
                return _bad(f'dual bootstrap {name} variances have the wrong shape', g.shape, a0.shape)
            tol = 1e-9 * (1 + np.abs(a0))
            if np.any(g > a0 + tol):
                return _bad(f'dual bootstrap {name} variance exceeds the two-factor contrast',
                            _lst(g), _lst(a0), violated='dual_upper')
            for a in (a1, a2):
                if np.any((a <= a0 + tol) & (g < a - tol)):
                    return _bad(f'dual bootstrap {name} variance below a corrected single-factor '
                                'variance that is below the two-factor one', _lst(g), _lst(a),
                                violated='dual_lower')
        return None
    for name, w in zip(('model', 'diff', 'nc'), want):
        wf = deep(lambda x: float(fac * x), w)
        d = first_diff(got[name], wf, 1e-9, 1e-12, name)
        if d:
            return _bad(f'{name} variance is not the n/(n-1)-corrected contrast of the stored covariance',
                        got[name], wf, violated='contrast', diff=d)
    return None


def _oracle_fixed(case):
    """eval_fixed against the classical across-subject t statistics (scipy as reference)"""
    o = _fixed_obs(case)
    if _is_exc(o):
        return _bad('eval_fixed raises', o, violated='exception')
    x = np.array(case['x'], dtype=float)
    m, n = x.shape
    if o['dof'] != n - 1:
        return _bad('dof of the fixed evaluation is not n_subjects - 1', o['dof'], n - 1, violated='dof')
    if first_diff(o['means'], x.mean(axis=1).tolist(), 1e-9, 1e-12):
        return _bad('means of the fixed evaluation', o['means'], x.mean(axis=1).tolist(), violated='means')
    c = case['nc'][0]
    with warnings.catch_warnings():
        warnings.simplefilter('ignore')
        sem = sst.sem(x, axis=1)
        ok = sem ** 2 > 1e-12        # the code clamps variances at machine epsilon; classical t undefined at 0
        d = first_diff(o['sem'], sem.tolist(), 1e-9, 1e-12)
        if d:
            return _bad('SEM of the fixed evaluation is not the classical s/sqrt(n)', o['sem'], sem.tolist(),
                        violated='fixed_sem', reload=bool(case.get('reload')))
        for route in ROUTES:
            o_r = _route_obs(o, route)
            feat = dict(violated='fixed_p', route=route, reload=bool(case.get('reload')))
            for fam in FAMILIES:
                if _is_exc(o_r[fam]):
                    return _bad(f'{fam} of the fixed evaluation cannot be computed through {route}',
                                o_r[fam], violated='exception', key=fam, route=route)
            for i in range(m):
                if not ok[i]:
                    continue
                p0 = sst.ttest_1samp(x[i], 0, alternative='greater').pvalue
                if not close(o_r['p_zero'][i], p0, 1e-7, 1e-12):
                    return _bad(f'p against zero ({route}) is not the one-sided one-sample t-test',
                                o_r['p_zero'][i], float(p0), **feat)
                pc = sst.ttest_1samp(x[i], c).pvalue
                if not close(o_r['p_nc'][i], pc, 1e-7, 1e-12):
                    return _bad(f'p against the noise ceiling ({route}) is not the two-sided one-sample '
                                f't-test with n - 1 = {n - 1} degrees of freedom',
                                o_r['p_nc'][i], float(pc), **feat)
                for j in range(i + 1, m):
                    if np.var(x[i] - x[j]) < 1e-12:
                        continue
                    pr = sst.ttest_rel(x[i], x[j]).pvalue
                    for a_, b_ in ((i, j), (j, i)):
                        if not close(o_r['p_pair'][a_][b_], pr, 1e-7, 1e-12):
                            return _bad(f'pairwise p ({route}) is not the paired t-test',
                                        o_r['p_pair'][a_][b_], float(pr), **feat)
            for i in range(m):
                if not close(o_r['p_pair'][i][i], 1.0):
                    return _bad(f'pairwise p-values ({route}) without unit diagonal', o_r['p_pair'],
                                violated='diagonal', route=route)
    return _oracle_routes_agree(o, 'fixed evaluation')


# the count(s) each evaluation function resamples over, hence corrects for (docstring of
# extract_variances: "If you bootstrapped only one factor only pass the N for that factor!")
RESAMPLED = {'fixed': 'rdm', 'bootstrap_rdm': 'rdm', 'bootstrap_crossval_rdm': 'rdm',
             'bootstrap_pattern': 'pattern', 'bootstrap_crossval_pattern': 'pattern',
             'bootstrap': 'both', 'bootstrap_crossval': 'both', 'dual_bootstrap': 'both'}


def _oracle_evaluator(case):
    o = _evaluator_obs(case)
    if _is_exc(o):
        return _bad('evaluation function raises', o, violated='exception')
    if o['variances'] is None or _has_none(o['variances']):
        return None         # too few valid bootstrap samples: the covariance itself is undefined
    f = RESAMPLED[case['which']]
    m = len(case['models'])
    var = np.asarray(_arr(o['variances']), dtype=float)
    sub = {'var': var.tolist() if var.ndim else float(var), 'm': m,
           'nc': bool(var.ndim) and var.shape[-1] != m,
           'n_rdm': case['n_rdm'] if f in ('rdm', 'both') else None,
           'n_pattern': case['n_cond'] if f in ('pattern', 'both') else None}
    r = _oracle_extract(sub, {'model': o['model_var'], 'diff': o['diff_var'], 'nc': o['nc_var']})
    if r:
        r['what'] = f"{case['which']}: " + r['what'] + ' (n of the resampled factor)'
        r['features'] = dict(r.get('features', {}), evaluator=case['which'])
        return r
    sem = np.asarray(o['sem'], dtype=float)
    want = np.sqrt(np.maximum(np.asarray(o['model_var'], dtype=float), 0))
    if np.any(sem < 0) or not np.allclose(sem, want, rtol=1e-9, atol=1e-12):
        return _bad('SEM is not the square root of the model variance', o['sem'], want.tolist(), violated='sem')
    return None


def oracle(case):
    op = case['op']
    tol = 1e-9
    if op == 'dual':
        v0, v1, v2 = (_fl(x) for x in case['v'])
        out = run_impl(case)
        nr, npat = case['n_rdm'], case['n_pattern']
        if out > v0 + tol:
            return _bad('dual bootstrap variance exceeds the two-factor variance', out, v0)
        s1, s2 = (nr / (nr - 1) * v1, npat / (npat - 1) * v2) if nr and npat else (v1, v2)
        for s in (s1, s2):
            if s <= v0 + tol and out < s - tol:
                return _bad('dual bootstrap variance below a (corrected) single-factor variance', out, s)
        return None
    if op == 'correct1d':
        v = _fl(case['v'])
        out = run_impl(case)
        ns = [n for n in (case['n_rdm'], case['n_pattern']) if n]
        want = v if not ns else min(ns) / (min(ns) - 1) * v
        if abs(out - want) > tol:
            return _bad('variance correction is not n/(n-1) with the documented n', out, want)
        return None
    if op == 'contrast':
        m = case['m']
        got = run_impl(case)
        want = [[(1.0 if k == i else -1.0 if k == j else 0.0) for k in range(m)]
                for i in range(m) for j in range(i + 1, m)]
        if got != want:
            return _bad('pairwise_contrast rows are not e_i - e_j in triu order', got, want)
        return None
    if op == 'extract':
        return _oracle_extract(case)
    if op in ('result', 'boot', 'ranksum'):
        return _oracle_result(case)
    if op == 'fixed':
        return _oracle_fixed(case)
    if op == 'evaluator':
        return _oracle_evaluator(case)
    if op == 'session':
        return _session_oracle(case)
    raise ValueError(op)


# ---------------------------------------------------------------- shrinking

def shrink(case, still_fails):
    """fewer bootstrap samples / subjects, the identity permutation, simpler ceilings"""
    op = case['op']
    cur = case
    if op == 'session':
        return _session_shrink(case, still_fails)
    if op in ('result', 'boot', 'ranksum'):
        if cur['perm'] != sorted(cur['perm']):
            c = dict(cur, perm=sorted(cur['perm']))
            if still_fails(c):
                cur = c
        changed = True
        while changed and len(cur['evals']) > 2:
            changed = False
            for r in range(len(cur['evals'])):
                c = copy.deepcopy(cur)
                del c['evals'][r]
                nc = c['noise_ceiling']
                if isinstance(nc[0], list):
                    del nc[0][r]
                    del nc[1][r]
                if len(c['evals']) >= 2 and still_fails(c):
                    cur, changed = c, True
                    break
        if isinstance(cur['noise_ceiling'][0], list):
            c = copy.deepcopy(cur)
            flat = np.asarray(_arr(c['noise_ceiling'][0]), dtype=float).ravel()
            vals = [float(v) for v in flat if not math.isnan(v)] or [0.5]
            c['noise_ceiling'] = [vals[0], 2.0]
            if still_fails(c):
                cur = c
    elif op == 'fixed':
        changed = True
        while changed and len(cur['x'][0]) > 2:
            changed = False
            for s in range(len(cur['x'][0])):
                c = copy.deepcopy(cur)
                for row in c['x']:
                    del row[s]
                if still_fails(c):
                    cur, changed = c, True
                    break
        while len(cur['x']) > 1:
            c = copy.deepcopy(cur)
            c['x'].pop()
            if still_fails(c):
                cur = c
            else:
                break
    return cur


# ================================================================ round 4: sessions
#
# One Result object is queried by a list of calls.  Every call is judged on its own: the oracle compares
# it with the stand-alone call on a FRESH object built from pristine copies of the case's numbers (and
# runs the single-call oracle of the base case, so that the stand-alone values are the classical
# statistics / contrasts the property demands); the correspondence compares it with the model's
# stand-alone value (justified by `session_calls_independent`).  Content of the object, the arrays handed
# to the constructor and every answer handed out earlier must be bit-identical after every call.

import rsatoolbox.util.rdm_utils as _rdm_utils  # noqa: E402

TT_CODE = {'t-test': 0, 'bootstrap': 1, 'ranksum': 2}
_STATE_MODULES = [iu, rmatrix, rresult, _rdm_utils]


def _containers():
    for mod in _STATE_MODULES:
        for name, v in list(vars(mod).items()):
            if name.startswith('__'):
                continue
            yield mod.__name__ + '.' + name, v
            if isinstance(v, type) and getattr(v, '__module__', None) == mod.__name__:
                for n2, v2 in list(vars(v).items()):
                    if not n2.startswith('__'):
                        yield f'{mod.__name__}.{name}.{n2}', v2


_BASELINE = {k: copy.deepcopy(v) for k, v in _containers() if isinstance(v, (dict, list, set))}


def _reset_state():
    """best effort: bring module-level caches of the anchored modules back to their state at import, so
    that a session (and its replay in a fresh process) is self-contained.  Only sessions do this; the
    single-call cases keep running in whatever state the process is in."""
    for k, v in _containers():
        f = getattr(v, 'cache_clear', None)
        if callable(f):
            try:
                f()
            except Exception:  # noqa: BLE001
                pass
        if isinstance(v, (dict, list, set)):
            base = _BASELINE.get(k)
            try:
                v.clear()
                if base:
                    (v.update if isinstance(v, (dict, set)) else v.extend)(copy.deepcopy(base))
            except Exception:  # noqa: BLE001
                pass


def _gen_session(rng, tier):
    flavour = rng.choice(['result', 'result', 'result', 'ranksum', 'fixed'])
    if flavour == 'fixed':
        m = rng.choice([2, 2, 3, 4])
        n = rng.randint(3, 9)
        generic = rng.random() < 0.5
        if generic:
            x = [[rng.uniform(-0.25, 0.75) for _ in range(n)] for _ in range(m)]
            nc = [rng.uniform(0.25, 0.7), rng.uniform(0.75, 1.0)]
        else:
            x = [[rng.randint(-16, 48) / 64 for _ in range(n)] for _ in range(m)]
            nc = [rng.randint(16, 48) / 64, rng.randint(48, 64) / 64]
        base = {'flavour': 'fixed', 'x': x, 'n_cond': rng.randint(3, 12), 'nc': nc}
        tts = ['t-test'] + (['ranksum'] if generic else [])
    elif flavour == 'result':
        while True:
            base = _gen_result(rng, tier)
            if base['var'] is not None and base['cv_method'] not in ('fixed', 'crossvalidation'):
                break
        base.pop('op')
        base.pop('perm')
        base.pop('ci_pct')
        ev = _arr(base['evals'])
        if rng.random() < 0.35 and ev.ndim > 2:
            # exactly 2-D float64 evaluations (eval_bootstrap*, hand-built results): np.asarray hands
            # the stored array itself to the tests
            whole = np.all(np.isnan(ev.reshape(ev.shape[0], -1)), axis=1)
            ev = ev.reshape(ev.shape[0], ev.shape[1], -1)[:, :, 0].copy()
            ev[np.isnan(ev)] = 0.25               # a NaN fold: some value (2-D arrays have no folds)
            if np.sum(~whole) >= 2:
                ev[whole] = np.nan                # failed bootstrap samples stay whole NaN rows
            base['evals'] = _lst(ev)
        failed = np.all(np.isnan(ev.reshape(ev.shape[0], -1)), axis=1)
        ncl = _arr(base['noise_ceiling'])
        if ncl.ndim == 2:
            # per-sample ceiling: undefined exactly for the failed bootstrap samples
            fill = np.array([[0.5], [1.25]])
            ncl = np.where(np.isnan(ncl), fill, ncl)
            ncl[:, failed] = np.nan
            base['noise_ceiling'] = _lst(ncl)
        base['flavour'] = 'result'
        tts = ['t-test', 'bootstrap']
    else:
        while True:
            rs = _gen_ranksum(rng, tier)
            if len(rs['perm']) >= 2:
                break
        m = len(rs['perm'])
        kind = rng.choice(['1d', '2d', '3d'])
        nc_rows = rng.random() < 0.5
        nB = len(rs['evals'])
        base = {'flavour': 'ranksum', 'evals': rs['evals'], 'noise_ceiling': rs['noise_ceiling'],
                'mode': rs['mode'], 'cv_method': 'fixed' if nB == 1 else 'bootstrap_crossval',
                'var': _gen_var(rng, m, kind, nc_rows), 'var_kind': kind, 'nc_rows': nc_rows,
                'dof': rng.randint(2, 30), 'n_rdm': _opt_n(rng), 'n_pattern': _opt_n(rng)}
        tts = ['t-test', 'ranksum']
    m = len(base['x']) if flavour == 'fixed' else len(base['evals'][0])
    if flavour != 'fixed' and rng.random() < 0.3:
        # the evaluators record a count AFTER the variances were extracted (eval_bootstrap_rdm:
        # result.n_pattern = data.n_cond): the reported variances stay the extracted ones
        which = rng.choice(['n_rdm', 'n_pattern'])
        base[which] = None
        base['late'] = {which: rng.randint(2, 30)}
    # covariance inputs of every kind for the same model count (extract steps)
    base['extract'] = {}
    for kind in ('1d', '2d', '3d'):
        nc = rng.random() < 0.5
        base['extract'][kind] = {'var': _gen_var(rng, m, kind, nc), 'nc': nc,
                                 'n_rdm': _opt_n(rng), 'n_pattern': _opt_n(rng)}
    pool = []
    for tt in tts:
        pool += [['test_all', tt], ['test_pairwise', tt], ['test_zero', tt], ['test_noise', tt],
                 ['util.all_tests', tt], ['util.pair_tests', tt], ['util.zero_tests', tt], ['util.nc_tests', tt]]
    pool += [['get_means'], ['get_sem'], ['get_errorbars', 'sem'], ['util.get_errorbars', 'sem'],
             ['get_model_var'], ['get_noise_ceil'], ['reload'], ['rebuild'],
             ['extract', '1d'], ['extract', '2d'], ['extract', '3d']]
    if flavour != 'fixed':
        for lv in rng.sample([None, 50, 68.27, 90, 95, 99, 99.9], 2):
            pool += [['get_ci', lv], ['get_errorbars', lv], ['util.get_errorbars', lv]]
    steps = [list(rng.choice(pool)) for _ in range(rng.randint(8, 14))]

    def weave(pattern):
        pos = sorted(rng.sample(range(len(steps) + 1), len(pattern)))
        for off, (p_, st) in enumerate(zip(pos, pattern)):
            steps.insert(p_ + off, list(st))
    if 'bootstrap' in tts and rng.random() < 0.6:
        # the ceiling test first, then something that reads the evaluations
        weave([[rng.choice(['test_noise', 'test_all', 'util.nc_tests', 'util.all_tests']), 'bootstrap'],
               rng.choice([['get_means'], ['test_zero', 't-test'], ['test_noise', 'bootstrap'],
                           ['test_zero', 'bootstrap']])])
    if rng.random() < 0.6:
        # a 1-D covariance input, then the same model count with a covariance matrix / the pair test
        weave([['extract', '1d'], rng.choice([['extract', '2d'], ['extract', '3d'], ['test_pairwise', 't-test'],
                                              ['rebuild'], ['reload']])])
    if flavour != 'fixed' and rng.random() < 0.5:
        lv = rng.sample([None, 50, 68.27, 90, 99], 2)
        route = rng.choice(['get_ci', 'get_errorbars', 'util.get_errorbars'])
        weave([[route, lv[0]], [route, lv[1]]])
    if rng.random() < 0.5:
        weave([['reload'], rng.choice([['get_sem'], ['test_zero', 't-test'], ['get_errorbars', 'sem']])])
    if rng.random() < 0.7:
        steps.append(list(steps[rng.randrange(len(steps))]))      # the same question again
    # the rank-sum tests re-run scipy's exact test per pair: a few are enough
    seen_rs = 0
    kept = []
    for st in steps:
        if len(st) > 1 and st[1] == 'ranksum':
            seen_rs += 1
            if seen_rs > 4:
                continue
        kept.append(st)
    return {'op': 'session', 'base': base, 'steps': kept}


# ---------------------------------------------------------------- running a session on the real code

def _bit_same(a, b):
    if a is None or b is None:
        return a is None and b is None
    a, b = np.asarray(a), np.asarray(b)
    return bool(a.dtype == b.dtype and a.shape == b.shape and np.array_equal(a, b, equal_nan=True))


def _deep_same(a, b):
    if isinstance(a, dict) and isinstance(b, dict):
        return a.keys() == b.keys() and all(_deep_same(a[k], b[k]) for k in a)
    if isinstance(a, (list, tuple)) and isinstance(b, (list, tuple)):
        return len(a) == len(b) and all(_deep_same(x, y) for x, y in zip(a, b))
    if isinstance(a, np.ndarray) or isinstance(b, np.ndarray):
        return _bit_same(a, b)
    return a is b or a == b or (isinstance(a, float) and isinstance(b, float) and math.isnan(a) and math.isnan(b))


def _session_core(base):
    """the base as a single-call case (no permutation, default confidence level)"""
    m = len(base['x']) if base['flavour'] == 'fixed' else len(base['evals'][0])
    core = {k: v for k, v in base.items() if k not in ('extract', 'late', 'flavour')}
    core['perm'] = list(range(m))
    core.setdefault('ci_pct', None)
    return core


def _session_new(base):
    """a fresh object from pristine copies of the case's numbers; returns the object, the arrays that
    were handed to the constructor and pristine copies of them (never passed to the library)"""
    if base['flavour'] == 'fixed':
        x = base['x']
        m, n, c = len(x), len(x[0]), base['n_cond']
        npair = c * (c - 1) // 2
        data = RDMs(np.arange(n * npair, dtype=float).reshape(n, npair) + 1)
        models = [ModelFixed(f'm{k}', np.full(npair, float(k))) for k in range(m)]
        with _FixedPatch(copy.deepcopy(x), list(base['nc'])):
            r = revaluate.eval_fixed(models, data, method='cosine')
        return r, {}, {'evaluations': np.array([x], dtype=float),
                       'noise_ceiling': np.array(base['nc'], dtype=float), 'variances': None}
    ev_in, nc_in = _arr(base['evals']), _arr(base['noise_ceiling'])
    var_in = np.array(base['var'], dtype=float)
    with warnings.catch_warnings():
        warnings.simplefilter('ignore')
        r = rresult.Result(_models(ev_in.shape[1]), ev_in, 'cosine', base['cv_method'], nc_in,
                           variances=var_in, dof=base['dof'], n_rdm=base['n_rdm'], n_pattern=base['n_pattern'])
    for k, v in (base.get('late') or {}).items():
        setattr(r, k, v)
    inputs = {'evaluations': ev_in, 'noise_ceiling': nc_in, 'variances': var_in}
    pristine = {'evaluations': _arr(base['evals']), 'noise_ceiling': _arr(base['noise_ceiling']),
                'variances': np.array(base['var'], dtype=float)}
    return r, inputs, pristine


def _eb_name(lv):
    return 'sem' if lv == 'sem' else ('ci' if lv is None else f'ci{lv}')


def _summary_of(r):
    return {'model_var': r.model_var, 'diff_var': r.diff_var, 'nc_var': r.noise_ceil_var,
            'sem': r.get_sem(), 'means': r.get_means()}


def _do_step(r, step, base, inputs):
    """one call; returns (object to go on with, raw answer)"""
    route = step[0]
    a = step[1] if len(step) > 1 else None
    if route == 'test_all':
        return r, list(r.test_all(a))
    if route == 'test_pairwise':
        return r, r.test_pairwise(a)
    if route == 'test_zero':
        return r, r.test_zero(a)
    if route == 'test_noise':
        return r, r.test_noise(a)
    # the wrappers as the plotting code calls them: with the object's own arrays
    if route == 'util.all_tests':
        return r, list(iu.all_tests(r.evaluations, r.noise_ceiling, a, model_var=r.model_var, diff_var=r.diff_var,
                                    noise_ceil_var=r.noise_ceil_var, dof=r.dof))
    if route == 'util.pair_tests':
        return r, iu.pair_tests(r.evaluations, a, r.diff_var, r.dof)
    if route == 'util.zero_tests':
        return r, iu.zero_tests(r.evaluations, a, r.model_var, r.dof)
    if route == 'util.nc_tests':
        return r, iu.nc_tests(r.evaluations, r.noise_ceiling, a, r.noise_ceil_var, r.dof)
    if route == 'get_means':
        return r, r.get_means()
    if route == 'get_sem':
        return r, r.get_sem()
    if route == 'get_ci':
        return r, list(r.get_ci(0.95 if a is None else float(a) / 100, 't-test'))
    if route == 'get_errorbars':
        return r, list(r.get_errorbars(_eb_name(a), 't-test'))
    if route == 'util.get_errorbars':
        return r, iu.get_errorbars(r.model_var, r.evaluations, r.dof, _eb_name(a), 't-test')
    if route == 'get_model_var':
        return r, r.get_model_var()
    if route == 'get_noise_ceil':
        return r, r.get_noise_ceil()
    if route == 'extract':
        e = base['extract'][a]
        mv, dv, nv = iu.extract_variances(np.array(e['var'], dtype=float), e['nc'], e['n_rdm'], e['n_pattern'])
        return r, {'model': mv, 'diff': dv, 'nc': nv}
    if route == 'reload':
        r2 = rresult.result_from_dict(r.to_dict())
        return r2, _summary_of(r2)
    if route == 'rebuild':
        # a second Result from the very arrays the first one was built from
        if base['flavour'] == 'fixed':
            # eval_fixed passes n_rdm only; it records n_pattern after the variances were extracted
            r2 = rresult.Result(r.models, r.evaluations, r.method, r.cv_method, r.noise_ceiling,
                                variances=r.variances, dof=r.dof, n_rdm=len(base['x'][0]), n_pattern=None)
        else:
            r2 = rresult.Result(r.models, inputs['evaluations'], 'cosine', base['cv_method'],
                                inputs['noise_ceiling'], variances=inputs['variances'], dof=base['dof'],
                                n_rdm=base['n_rdm'], n_pattern=base['n_pattern'])
        return r, _summary_of(r2)
    raise ValueError(route)


def _canon_ans(x):
    if isinstance(x, dict) and 'exc' not in x:
        return {k: _canon(v) for k, v in x.items()}
    return _canon(x)


def _standalone(base, step):
    """the call on a fresh object of its own"""
    def f():
        r, inputs, _ = _session_new(base)
        return _canon_ans(_do_step(r, step, base, inputs)[1])
    return _catch(f)


CONTENT = ('evaluations', 'noise_ceiling', 'variances', 'model_var', 'diff_var', 'noise_ceil_var')


def _run_session(base, steps):
    """the calls one after the other on ONE object.  Per step: canonical answer, what changed in the
    object / in the constructor's arguments, which earlier answers changed."""
    _reset_state()

    def build():
        r0, _, _ = _session_new(base)               # reference object: only its derived fields are read, once
        derived = {k: copy.deepcopy(getattr(r0, k)) for k in ('variances', 'model_var', 'diff_var', 'noise_ceil_var')}
        scal0 = (int(r0.dof) if r0.dof is not None else None)
        r, inputs, pristine = _session_new(base)
        pristine = dict(pristine)
        if pristine.get('variances') is None:
            pristine['variances'] = derived['variances']
        for k in ('model_var', 'diff_var', 'noise_ceil_var'):
            pristine[k] = derived[k]
        out, handed = [], []
        for k, step in enumerate(steps):
            with warnings.catch_warnings():
                warnings.simplefilter('ignore')
                try:
                    r_next, raw = _do_step(r, step, base, inputs)
                    ans = _canon_ans(raw)
                except (ValueError, TypeError, AssertionError, IndexError, ZeroDivisionError) as exc:
                    r_next, raw, ans = r, None, {'exc': type(exc).__name__}
            r = r_next
            changed = [f for f in CONTENT if not _bit_same(getattr(r, f, None), pristine[f])]
            changed += ['argument ' + f for f, v in inputs.items() if not _bit_same(v, pristine[f])]
            if (int(r.dof) if r.dof is not None else None) != scal0:
                changed.append('dof')
            stale = [j for j, (rw, snap) in enumerate(handed) if not _deep_same(rw, snap)]
            handed.append((raw, copy.deepcopy(raw)))
            out.append({'ans': ans, 'changed': changed, 'stale': stale})
        return out
    return _catch(build)


def _session_impl(case):
    return _run_session(case['base'], case['steps'])


# ---------------------------------------------------------------- model side of a session

def _levels(case):
    lv = []
    for st in case['steps']:
        if st[0] in ('get_ci', 'get_errorbars', 'util.get_errorbars') and st[1] != 'sem' and st[1] not in lv:
            lv.append(st[1])
    return lv or [None]


def _session_plan(case):
    """(tag, driver request) in a fixed order"""
    base, steps = case['base'], case['steps']
    core = _session_core(base)
    m = len(core['perm'])
    plan = []
    if base['flavour'] == 'fixed':
        flat_ev = [v for row in base['x'] for v in row]
        flat_nc = list(base['nc'])
        nvars = m * m
    else:
        flat_ev = np.asarray(_arr(base['evals'])).ravel().tolist()
        flat_nc = np.asarray(_arr(base['noise_ceiling'])).ravel().tolist()
        nvars = int(np.asarray(base['var'], dtype=float).size)
    calls = []
    for st in steps:
        a = st[1] if len(st) > 1 else None
        arg = TT_CODE[a] if a in TT_CODE else {'1d': 1, '2d': 2, '3d': 3, 'sem': 0}.get(a, 0) if (a is None or isinstance(a, str)) \
            else int(round(float(a) * 100))
        calls.append({'route': st[0], 'arg': arg, 'key': m})
    plan.append(('session', {'op': 'c06.session',
                             'evals': [None if (isinstance(v, float) and math.isnan(v)) else k for k, v in enumerate(flat_ev)],
                             'vars': list(range(nvars)),
                             'ceil': [None if (isinstance(v, float) and math.isnan(v)) else k for k, v in enumerate(flat_nc)],
                             'calls': calls}))
    tts = {st[1] for st in steps if len(st) > 1 and st[1] in TT_CODE}
    if base['flavour'] == 'fixed':
        plan.append(('fixed', model_requests(dict(core, op='fixed'))[0]))
        core_rs = {'evals': [base['x']], 'noise_ceiling': [base['nc'][0], base['nc'][1]], 'perm': core['perm']}
    else:
        for lv in _levels(case):
            plan.append((('t', lv), _result_req(dict(core, op='result', ci_pct=lv))))
        if 'bootstrap' in tts:
            plan.append(('boot', _result_req(dict(core, op='boot'))))
        core_rs = core
    if 'ranksum' in tts:
        plan.append(('ranksum', _result_req(dict(core_rs, op='ranksum'))))
    for kind in ('1d', '2d', '3d'):
        if ['extract', kind] in steps:
            e = base['extract'][kind]
            plan.append((('extract', kind), model_requests(
                {'op': 'extract', 'var': e['var'], 'm': m, 'nc': e['nc'], 'n_rdm': e['n_rdm'],
                 'n_pattern': e['n_pattern']})[0]))
    return plan


def _session_requests(case):
    return [req for _, req in _session_plan(case)]


_SINGLE_IDX = {'test_pairwise': 0, 'test_zero': 1, 'test_noise': 2,
               'util.pair_tests': 0, 'util.zero_tests': 1, 'util.nc_tests': 2}


def _session_model(case, answers):
    base, steps = case['base'], case['steps']
    core = _session_core(base)
    tags = [t for t, _ in _session_plan(case)]
    got = dict(zip(tags, answers))
    for t, a in got.items():
        if isinstance(a, dict) and 'model_error' in a:
            return {'model_error': f'{t}: {a["model_error"]}'}
    sess = got['session']
    if sess['cells'] != 0:
        return {'model_error': f"hidden state cells in the anchored source: {sess['cells']}"}
    for k, fl in enumerate(sess['calls']):
        if not (fl['seen_pristine'] and fl['after_pristine'] and fl['memo_empty']) or fl['writes'] != 0:
            return {'model_error': f'model session: call {k} {steps[k]} does not see / leave the original content '
                                   f'(in-place writes on its path: {fl["writes"]})'}
    # stand-alone values (licensed by Rsa.Props.C06.session_calls_independent)
    tm = {}
    if base['flavour'] == 'fixed':
        fx = model_result(dict(core, op='fixed'), [got['fixed']])
        tm[None] = fx
    else:
        for lv in _levels(case):
            tm[lv] = _result_model(dict(core, op='result', ci_pct=lv), got[('t', lv)])
            if isinstance(tm[lv], dict) and 'model_error' in tm[lv]:
                return tm[lv]
    t0 = tm[_levels(case)[0]] if base['flavour'] != 'fixed' else tm[None]
    bm = _result_model(dict(core, op='boot'), got['boot']) if 'boot' in got else None
    rm = _result_model(dict(core, op='ranksum'), got['ranksum']) if 'ranksum' in got else None
    out = []
    for st in steps:
        route = st[0]
        a = st[1] if len(st) > 1 else None
        if route in ('test_all', 'util.all_tests', 'test_pairwise', 'test_zero', 'test_noise',
                     'util.pair_tests', 'util.zero_tests', 'util.nc_tests'):
            whole = route in ('test_all', 'util.all_tests')
            idx = None if whole else _SINGLE_IDX[route]
            if a == 't-test':
                rk = {'test_all': 'test_all', 'util.all_tests': 'util.all_tests'}.get(
                    route, 'util.single' if route.startswith('util') else 'accessors')
                fam = t0['p_routes'][rk]
            else:
                src = bm if a == 'bootstrap' else rm
                fam = [src['p_pair'], src['p_zero'], src['p_nc']]
            out.append(list(fam) if whole else fam[idx])
        elif route == 'get_means':
            out.append(t0['means'])
        elif route == 'get_sem':
            out.append(t0['sem'])
        elif route == 'get_model_var':
            out.append(t0['model_var'])
        elif route == 'get_noise_ceil':
            out.append(_lst(_arr(base['noise_ceiling'])) if base['flavour'] != 'fixed' else list(base['nc']))
        elif route == 'get_ci':
            out.append(tm[a]['ci'])
        elif route == 'get_errorbars':
            out.append([t0['sem'], t0['sem']] if a == 'sem' else tm[a]['errorbars_ci'])
        elif route == 'util.get_errorbars':
            out.append([t0['sem'], t0['sem']] if a == 'sem' else tm[a]['errorbars_util_ci'])
        elif route == 'extract':
            out.append(model_result({'op': 'extract'}, [got[('extract', a)]]))
        elif route in ('reload', 'rebuild'):
            out.append({'model_var': t0['model_var'], 'diff_var': t0['diff_var'], 'nc_var': t0['nc_var'],
                        'sem': t0['sem'], 'means': t0['means']})
        else:
            raise ValueError(route)
    return {'steps': out}


def _step_tol(step):
    return (PRTOL, PATOL) if (len(step) > 1 and step[1] in TT_CODE) else (RTOL, ATOL)


def _session_compare(case, impl, model):
    if _is_exc(impl):
        return f'implementation raised {impl["exc"]} building the session object'
    for k, (st, got, want) in enumerate(zip(case['steps'], impl, model['steps'])):
        where = f'call {k} {st[0]}({", ".join(str(x) for x in st[1:])})'
        a, b = got['ans'], want
        if got['changed']:
            return f'{where}: after the call the object is not the original any more: {got["changed"]}'
        if got['stale']:
            return f'{where}: answers handed out by calls {got["stale"]} changed afterwards'
        if b is None:
            continue
        if _is_exc(a):
            return f'{where}: implementation raised {a["exc"]}'
        if st[0] == 'util.get_errorbars' and st[1] != 'sem':
            a, b = _abs(a), _abs(b)         # sign of the plotting helper's CI bars: see notes (round 3)
        d = first_diff(a, b, *_step_tol(st), path=where)
        if d:
            return d
    return None


def _session_features(case):
    base, steps = case['base'], case['steps']
    br = set()
    f = {'op': 'session', 'flavour': base['flavour'], 'n_steps': len(steps), 'late': bool(base.get('late'))}
    names = {'test_all': 'test_all', 'test_pairwise': 'test_pairwise', 'test_zero': 'test_zero',
             'test_noise': 'test_noise', 'util.all_tests': 'util_all', 'util.pair_tests': 'util_single',
             'util.zero_tests': 'util_single', 'util.nc_tests': 'util_single', 'get_means': 'get_means',
             'get_sem': 'get_sem', 'get_ci': 'get_ci', 'get_errorbars': 'errorbars',
             'util.get_errorbars': 'util_errorbars', 'get_model_var': 'fields', 'get_noise_ceil': 'fields',
             'reload': 'reload', 'rebuild': 'rebuild'}
    seen = []
    levels = set()
    for st in steps:
        a = st[1] if len(st) > 1 else None
        br.add('session:' + (f'extract_{a}' if st[0] == 'extract' else names[st[0]]))
        if a in TT_CODE:
            br.add('session:' + {'t-test': 'ttest', 'bootstrap': 'bootstrap', 'ranksum': 'ranksum'}[a])
        if st in seen:
            br.add('session:repeat')
        if ['extract', '1d'] in seen and (st in (['extract', '2d'], ['extract', '3d'], ['test_pairwise', 't-test'],
                                                 ['test_all', 't-test'], ['rebuild'], ['reload'])):
            br.add('session:after_extract_1d')
        if any(s in seen for s in (['test_noise', 'bootstrap'], ['test_all', 'bootstrap'], ['util.nc_tests', 'bootstrap'],
                                   ['util.all_tests', 'bootstrap'])):
            br.add('session:after_test_noise_bootstrap')
        if ['reload'] in seen:
            br.add('session:after_reload')
            if (base.get('late') or base['flavour'] == 'fixed') and st[0] in ('get_sem', 'get_errorbars', 'get_ci'):
                br.add('session:late_reload_sem')       # a count recorded late, a reload, then the SEM
        if a == 'bootstrap' and st[0] in ('test_noise', 'test_all', 'util.nc_tests', 'util.all_tests') \
                and base['flavour'] == 'result' and np.asarray(_arr(base['noise_ceiling'])).ndim > 1 \
                and any(s_ in seen for s_ in (['test_noise', 't-test'], ['util.nc_tests', 't-test'],
                                              ['test_all', 't-test'], ['util.all_tests', 't-test'])):
            br.add('session:ttest_then_bootstrap_nc')   # per-sample ceiling: t-test first, bootstrap test later
        if st[0] in ('get_ci', 'get_errorbars', 'util.get_errorbars') and a != 'sem':
            levels.add((st[0], a))
        seen.append(st)
    if any(len({lv for r_, lv in levels if r_ == route}) >= 2 for route in ('get_ci', 'get_errorbars', 'util.get_errorbars')):
        br.add('session:two_levels')
    if base['flavour'] == 'fixed':
        br.add('session:fixed')
        br.add('session:late_count')        # eval_fixed records n_pattern after the extraction
        f['m'] = len(base['x'])
    else:
        ev = _arr(base['evals'])
        f.update(m=ev.shape[1], ndim=ev.ndim)
        if ev.ndim == 2:
            br.add('session:evals_2d_f64')
        if np.asarray(_arr(base['noise_ceiling'])).ndim > 1:
            br.add('session:nc_per_sample')
    if base.get('late'):
        br.add('session:late_count')
    f['branches'] = sorted(br)
    return f


# ---------------------------------------------------------------- oracle of a session

def _session_base_oracle(case):
    """the stand-alone values are what the property demands: the single-call oracle on the base"""
    base = case['base']
    core = _session_core(base)
    tts = {st[1] for st in case['steps'] if len(st) > 1 and st[1] in TT_CODE}
    if base['flavour'] == 'fixed':
        r = _oracle_fixed(dict(core, op='fixed', reload=False))
        if not r and 'ranksum' in tts:
            r = _oracle_result({'op': 'ranksum', 'evals': [base['x']], 'noise_ceiling': [base['nc'][0], base['nc'][1]],
                                'perm': core['perm']})
        return r
    r = _oracle_result(dict(core, op='result'))
    if not r and 'bootstrap' in tts:
        r = _oracle_result(dict(core, op='boot'))
    if not r and 'ranksum' in tts:
        r = _oracle_result(dict(core, op='ranksum'))
    for kind in ('1d', '2d', '3d'):
        if not r and ['extract', kind] in case['steps']:
            e = base['extract'][kind]
            r = _oracle_extract({'var': e['var'], 'nc': e['nc'], 'm': len(core['perm']), 'n_rdm': e['n_rdm'],
                                 'n_pattern': e['n_pattern']})
    return r


def _direct_step_check(base, step, ans):
    """sentences of the property that can be read off one answer without the library"""
    if _is_exc(ans) or ans is None:
        return None
    route = step[0]
    a = step[1] if len(step) > 1 else None
    m = len(base['x']) if base['flavour'] == 'fixed' else len(base['evals'][0])
    if route == 'get_means':
        if base['flavour'] == 'fixed':
            want = [sum(row) / len(row) for row in base['x']]
        else:
            want = _nan_aware_mean(base['evals'], base['cv_method'])
        if all(w is not None for w in want) and first_diff(ans, want, 1e-9, 1e-12):
            return _bad('get_means is not the NaN-aware average of the original evaluations', ans, want, violated='means')
    if route in ('get_sem',) and np.any(np.asarray(ans, dtype=float) < 0):
        return _bad('negative standard error', ans, violated='sem')
    if a in TT_CODE:
        fam = route.split('.')[-1]
        if fam in ('test_all', 'all_tests'):
            obs = dict(zip(FAMILIES, ans))
            return _oracle_pvals(obs, f'{a} ({route})', m)
        key = {'test_pairwise': 'p_pair', 'pair_tests': 'p_pair', 'test_zero': 'p_zero', 'zero_tests': 'p_zero',
               'test_noise': 'p_nc', 'nc_tests': 'p_nc'}[fam]
        return _oracle_pvals({key: ans}, f'{a} ({route})', m, keys=(key,))
    return None


def _session_oracle(case):
    base, steps = case['base'], case['steps']
    got = _run_session(base, steps)
    if _is_exc(got):
        return _bad('the session object cannot be built', got, violated='exception')
    for k, (st, g) in enumerate(zip(steps, got)):
        where = f'call {k} of the session, {st[0]}({", ".join(str(x) for x in st[1:])})'
        before = [s_[0] for s_ in steps[:k]]
        feat = dict(violated='session', step=st[0], call=k)
        if g['changed']:
            return _bad(f'{where}: the object no longer holds the original data afterwards: {g["changed"]}',
                        g['changed'], 'evaluations, variances, noise ceiling, derived variances and the '
                        'constructor arguments bit-identical', after=before, **feat)
        if g['stale']:
            return _bad(f'{where}: the answers handed out by calls {g["stale"]} changed afterwards',
                        g['stale'], 'answers stay what they were', after=before, **feat)
        _reset_state()
        ref = _standalone(base, st)
        if _is_exc(ref) and _is_exc(g['ans']):
            continue
        if _is_exc(g['ans']) != _is_exc(ref):
            return _bad(f'{where}: raises / does not raise unlike the same call on a fresh object of the original data',
                        g['ans'], ref, after=before, **feat)
        a, b = g['ans'], ref
        d = first_diff(a, b, 1e-11, 1e-14, st[0])
        if d:
            return _bad(f'{where}: differs from the same call on a fresh object of the original data '
                        f'(calls before it: {before})', a, b, after=before, diff=d, **feat)
        r = _direct_step_check(base, st, g['ans'])
        if r:
            r['what'] = f'{where}: ' + r['what']
            return r
    _reset_state()
    r = _session_base_oracle(case)
    if r:
        r['what'] = 'stand-alone call on the data of the session: ' + r['what']
        r['features'] = dict(r.get('features', {}), session_base=True)
    return r


# ---------------------------------------------------------------- shrinking a session

def _fresh_process_fails(case):
    """the oracle on `case` in a new interpreter (nothing cached from this run): True / False / None"""
    here = os.path.dirname(os.path.dirname(os.path.abspath(__file__)))
    repo = os.environ.get('RSA_REPO', '/repo')
    code = ('import sys, json\n'
            f'sys.path[:0] = [{os.path.join(repo, "src")!r}, {here!r}]\n'
            'import engines.C06 as e\n'
            'c = json.load(sys.stdin)\n'
            "print('SESSION-FAILS' if e.oracle(c) else 'SESSION-HOLDS')\n")
    try:
        p = subprocess.run([sys.executable, '-c', code], input=json.dumps(case).encode(), capture_output=True,
                           timeout=120, env=dict(os.environ, TQDM_DISABLE='1'))
    except Exception:  # noqa: BLE001
        return None
    out = p.stdout.decode(errors='replace')
    return True if 'SESSION-FAILS' in out else False if 'SESSION-HOLDS' in out else None


def _session_shrink(case, still_fails):
    """the shortest failing call sequence (greedy removal of single calls, then of the late count), checked
    in a fresh process so that the replay does not depend on what this process has cached"""
    cur = copy.deepcopy(case)
    changed = True
    while changed and len(cur['steps']) > 1:
        changed = False
        for k in reversed(range(len(cur['steps']))):
            c = copy.deepcopy(cur)
            del c['steps'][k]
            if c['steps'] and still_fails(c):
                cur, changed = c, True
                break
    if cur['base'].get('late'):
        c = copy.deepcopy(cur)
        late = c['base'].pop('late')
        if still_fails(c):
            cur = c
    if cur != case and _fresh_process_fails(cur) is False:
        return case            # the short sequence failed only because of what this process had cached
    return cur
