"""C09 round 6 — LARGE stacks (helper of engines/C09.py).

  op = large   one bootstrap draw (bootstrap_sample_pattern / bootstrap_sample / bootstrap_sample_rdm)
               or one direct rdms.subsample_pattern(by, value) on a stack with MANY RDMs (hundreds to
               thousands, more than any internal block / chunk / buffer size) or MANY conditions
               (hundreds to > 1024) — the sizes of searchlight and time-course analyses.

The case itself is a few numbers: everything is given by formula, built with numpy, never entry by entry.
  dissimilarity of RDM r, pair number k (row-major upper triangle)  =  r * npair + k + 1 (+ 2^-e)
  (unique over the whole stack, exact in float64; with the optional dyadic offset not representable
  in float32), a few `holes` (source NaN / 0) listed in the case;
  grouping descriptors by formula (`unique`: i, `div`: i // m, `mod`: i % m; ints or strings), a hidden
  position descriptor `_pos` on both axes and one extra descriptor `name` per axis.

Judged exactly like the small cases:
  oracle   model-free, vectorised, *decoding* direction: every finite entry of the sample is decoded
           (value -> RDM number, pair number) and must be the RDM / the unordered pair of original
           conditions its hidden positions say; entries pairing two copies of a condition must be NaN;
           no other entry may be NaN (but source holes); members of the drawn groups with the drawn
           multiplicity; every descriptor follows its item; index arrays.
  model    (a) the *same specification as the Lean model* evaluated by numpy on the whole stack
               (`uniq`, `bootIdx`, `rdmSelection`, `patSelection`, `subVec` = square form with NaN
               diagonal -> m[sel][:, sel] -> condensed, `extract`): forward direction, all entries;
           (b) the Lean driver (`c09.large`: the as-coded entry points with the generated leaves; the
               drawn values are computed by Lean from the *whole* grouping descriptor and the recorded
               draws) on a restriction of the stack to whole groups: the source RDMs of the first, the
               last and the block-boundary RDMs of the sample plus random ones, and (beyond 40
               conditions) the groups of the first, last and random conditions.  Lean theorems
               `largeSample_full` (what `c09.large` runs = the as-coded entry points),
               `subsamplePattern_rdm_local` (the pattern sample of a restriction to some RDMs is the
               restriction of the pattern sample), `sample_every_rdm`, `blockwise_eq`, `blocks_cover`
               (computing the RDMs of a sample block by block, any block size, gives the same sample;
               the blocks number ceil(n_rdm / b)).
"""
import hashlib
import json
import math

import numpy as np

from rsatoolbox.rdm import RDMs
from rsatoolbox.inference import bootstrap as B

POS = '_pos'
COND_CAP = 40          # beyond this many conditions the Lean route works on a restriction
RDM_POS_CAP = 14       # sample RDM positions whose source groups go to Lean


def E():
    from engines import C09
    return C09


# ------------------------------------------------------------------ the case -> numpy inputs

def _labels(spec, n, prefix):
    """grouping labels of one axis, by formula (numpy array of ints or of strings)"""
    i = np.arange(n, dtype=np.int64)
    kind = spec['kind']
    g = i if kind == 'unique' else (i // spec['m'] if kind == 'div' else i % spec['m'])
    if spec.get('label') == 'str':
        return np.char.add(prefix, g.astype(str))
    return g * spec.get('step', 1) + spec.get('off', 0)


def _npair(n):
    return n * (n - 1) // 2


def _frac(case):
    """optional offsets of every tag: an integer `base` (two stacks of one shape differ in every entry)
    and a dyadic 2^-e (exact in float64, not representable in float32)"""
    e = case.get('frac_exp')
    return (2.0 ** -e if e else 0.0) + float(case.get('base', 0))


def _src_vecs(case):
    n_rdm, n = case['n_rdm'], case['n_cond']
    npair = _npair(n)
    v = (np.arange(n_rdm, dtype=np.int64)[:, None] * npair
         + np.arange(1, npair + 1, dtype=np.int64)[None, :]).astype(float) + _frac(case)
    for r, k, x in case.get('holes', []):
        v[r, k] = np.nan if x is None else float(x)
    return v


def _src_desc(case):
    """descriptor columns of the source as numpy arrays: (rdm dict, pattern dict), without `index`"""
    out = []
    for axis, n, pre in (('rdm', case['n_rdm'], 'sl'), ('pat', case['n_cond'], 'stim')):
        d = {POS: np.arange(n, dtype=np.int64)}
        by = case.get(axis + '_by')
        if by is not None:
            d[by] = _labels(case[axis + '_groups'], n, pre)
        d['name'] = np.char.add('n', ((np.arange(n) * 7) % 13).astype(str))
        out.append(d)
    return out


def _cont(arr, cont):
    return arr if cont == 'array' else (tuple(arr.tolist()) if cont == 'tuple' else arr.tolist())


def _build(case):
    v = _src_vecs(case)
    n = case['n_cond']
    if case.get('form') == '3d':
        iu, ju = np.triu_indices(n, 1)
        x = np.zeros((case['n_rdm'], n, n))
        x[:, iu, ju] = v
        x[:, ju, iu] = v
    else:
        x = v
    rd, pd = _src_desc(case)
    cont = case.get('container', 'list')
    return RDMs(x, dissimilarity_measure='tag', descriptors={'session': 1},
                rdm_descriptors={k: _cont(a, cont) for k, a in rd.items()},
                pattern_descriptors={k: _cont(a, cont) for k, a in pd.items()})


def _grouping(case, axis):
    """python list of the grouping labels of an axis (the default descriptor `index` = 0..n-1)"""
    n = case['n_rdm'] if axis == 'rdm' else case['n_cond']
    by = case.get(axis + '_by')
    if by is None:
        return list(range(n))
    return _labels(case[axis + '_groups'], n, 'sl' if axis == 'rdm' else 'stim').tolist()


def _direct_value(case):
    """the `value` argument of a direct subsample_pattern call (from the case alone)"""
    groups = sorted(set(_grouping(case, 'pat')))
    rs = np.random.RandomState(case['draws']['seed'] % (2 ** 32))
    d = rs.randint(0, len(groups), size=case['n_value'])
    return [groups[i] for i in d.tolist()]


# ------------------------------------------------------------------ the library

_CACHE = {}


def _key(case):
    return json.dumps(case, sort_keys=True)


def _run_lib(case, res):
    """build the stack of a case and make the library call; the randint requests go to res['calls']"""
    rdms = _build(case)
    np.random.seed(case['draws']['seed'] % (2 ** 32))
    fn = case['fn']
    rby, pby = case.get('rdm_by'), case.get('pat_by')
    with E().Tap(None) as tap:
        try:
            ridx = pidx = None
            if fn == 'pattern':
                sample, pidx = B.bootstrap_sample_pattern(rdms, pby) if pby is not None \
                    else B.bootstrap_sample_pattern(rdms)
            elif fn == 'both':
                kw = {}
                if rby is not None:
                    kw['rdm_descriptor'] = rby
                if pby is not None:
                    kw['pattern_descriptor'] = pby
                sample, ridx, pidx = B.bootstrap_sample(rdms, **kw)
            elif fn == 'rdm':
                sample, ridx = B.bootstrap_sample_rdm(rdms, rby) if rby is not None \
                    else B.bootstrap_sample_rdm(rdms)
            else:
                val = _direct_value(case)
                vk = case.get('value_kind', 'list')
                val = np.array(val) if vk == 'array' else (tuple(val) if vk == 'tuple' else val)
                sample, pidx = rdms.subsample_pattern(pby, val), val
        finally:
            res['calls'] = tap.calls
    return sample, ridx, pidx


def _call(case):
    key = _key(case)
    if key in _CACHE:
        return _CACHE[key]
    res = {}
    try:
        if case.get('prelude'):
            # step 1 of a two-step session: the same call on ANOTHER stack of the same shape (every
            # entry different, other draws); its result is dropped.  Step 2 (below) is judged.
            pre = dict(case, base=case['prelude']['base'], draws={'seed': case['prelude']['seed']})
            pre.pop('prelude')
            pre.pop('holes', None)
            _run_lib(pre, {})
        sample, ridx, pidx = _run_lib(case, res)
        res.update(sample=sample, ridx=ridx, pidx=pidx)
    except Exception as exc:  # noqa: BLE001
        name = type(exc).__name__
        res['exc'] = name if name in ('ValueError', 'TypeError', 'KeyError', 'IndexError',
                                      'AssertionError', 'MemoryError') else 'other:' + name
        res['msg'] = str(exc)[:200]
    if len(_CACHE) >= 12:
        _CACHE.clear()
    _CACHE[key] = res
    return res


def _recorded(case, r):
    """the draws the library obtained from randint, per axis (None = axis not drawn)"""
    outs = [c['out'] for c in r.get('calls', [])]
    fn = case['fn']
    if fn == 'both':
        return (outs[0] if outs else []), (outs[1] if len(outs) > 1 else [])
    if fn == 'rdm':
        return (outs[0] if outs else []), None
    if fn == 'pattern':
        return None, (outs[0] if outs else [])
    return None, None


# ------------------------------------------------------------------ model (a): the specification, numpy

def _uniq(labels):
    return sorted(set(labels))


def _positions(labels):
    d = {}
    for j, v in enumerate(labels):
        d.setdefault(v, []).append(j)
    return d


def _boot_idx(select, draws):
    return [select[d] for d in draws if 0 <= d < len(select)]


def _sub_vecs(vecs, n, sel):
    """`subVec` for every RDM: square form with NaN diagonal, m[:, sel][:, :, sel], condensed"""
    m = np.full((vecs.shape[0], n, n), np.nan)
    iu, ju = np.triu_indices(n, 1)
    m[:, iu, ju] = vecs
    m[:, ju, iu] = vecs
    sel = np.asarray(sel, dtype=np.int64)
    si, sj = np.triu_indices(len(sel), 1)
    return m[:, sel[si], sel[sj]]


_SPEC = {}


def _spec(case):
    """the whole sample according to the specification (the Lean definitions, evaluated by numpy)"""
    key = _key(case)
    if key in _SPEC:
        return _SPEC[key]
    r = _call(case)
    dr, dp = _recorded(case, r)
    n_rdm, n = case['n_rdm'], case['n_cond']
    rd, pd = _src_desc(case)
    rd.setdefault('index', np.arange(n_rdm, dtype=np.int64))
    pd.setdefault('index', np.arange(n, dtype=np.int64))
    vecs = _src_vecs(case)
    out = {'rdm_idx': None, 'pat_idx': None, 'requests': []}
    sel_r = list(range(n_rdm))
    if dr is not None:
        lab = _grouping(case, 'rdm')
        u = _uniq(lab)
        out['requests'].append([0, len(u), len(u)])
        out['rdm_idx'] = _boot_idx(u, dr)
        pos = _positions(lab)
        sel_r = [j for v in out['rdm_idx'] for j in pos.get(v, [])]          # rdmSelection: draw order
    sel_c = None
    if case['fn'] == 'direct':
        out['pat_idx'] = _direct_value(case)
    elif dp is not None:
        u = _uniq(_grouping(case, 'pat'))
        out['requests'].append([0, len(u), len(u)])
        out['pat_idx'] = _boot_idx(u, dp)
    if out['pat_idx'] is not None:
        pos = _positions(_grouping(case, 'pat'))
        sel_c = sorted(j for v in out['pat_idx'] for j in pos.get(v, []))  # patSelection: np.sort
    sr = np.asarray(sel_r, dtype=np.int64)
    v1 = vecs[sr]
    rd1 = {k: a[sr] for k, a in rd.items()}
    if sel_c is not None:
        sc = np.asarray(sel_c, dtype=np.int64)
        v1 = _sub_vecs(v1, n, sc)
        pd1 = {k: a[sc] for k, a in pd.items()}
        kc = len(sel_c)
    else:
        pd1, kc = pd, n
    out.update(vec=v1, rdm_desc=rd1, pat_desc=pd1, n_cond=kc, sel_r=sel_r,
               sel_c=list(range(n)) if sel_c is None else sel_c)
    if len(_SPEC) >= 12:
        _SPEC.clear()
    _SPEC[key] = out
    return out


# ------------------------------------------------------------------ model (b): restriction for Lean

def _block_sizes(n):
    sq = max(n * n, 1)
    return [b for b in (2 ** 20 // sq, 2 ** 16 // sq, 2 ** 24 // sq, 2 ** 22 // sq, 64, 100, 128, 256,
                        512, 1000, 1024, 2048) if b >= 1]


def _plan(case):
    """which whole groups of the source go to Lean, and where their members sit in the sample"""
    sp = _spec(case)
    n_rdm, n = case['n_rdm'], case['n_cond']
    rs = np.random.RandomState((case['draws']['seed'] + 17) % (2 ** 32))
    sel_r = np.asarray(sp['sel_r'], dtype=np.int64)
    ns = len(sel_r)
    want = [0, ns - 1, 1, ns - 2]
    for b in _block_sizes(n):
        if 1 < b < ns:
            q = (ns // b) * b
            want += [b - 1, b, q - 1, min(q, ns - 1)]
    want += rs.randint(0, max(ns, 1), size=4).tolist()
    pos = []
    for p in want:
        if 0 <= p < ns and p not in pos:
            pos.append(p)
        if len(pos) >= RDM_POS_CAP:
            break
    src = sorted({int(sel_r[p]) for p in pos})
    if case['fn'] in ('both', 'rdm'):
        lab = np.asarray(_grouping(case, 'rdm'))
        src = np.nonzero(np.isin(lab, lab[src]))[0].tolist() if src else []    # whole groups
    samp_r = np.nonzero(np.isin(sel_r, src))[0] if src else np.zeros(0, dtype=np.int64)
    sel_c = np.asarray(sp['sel_c'], dtype=np.int64)
    kc = len(sel_c)
    if n <= COND_CAP or kc == 0:
        csrc = list(range(n))
    else:
        lab = np.asarray(_grouping(case, 'pat'))
        wantc = [0, kc - 1, 1, kc - 2] + rs.randint(0, kc, size=30).tolist()
        chosen = np.zeros(n, dtype=bool)
        for i in wantc:
            if 0 <= i < kc:
                chosen |= (lab == lab[sel_c[i]])
            if chosen.sum() >= 24:
                break
        csrc = np.nonzero(chosen)[0].tolist()
    samp_c = np.nonzero(np.isin(sel_c, csrc))[0]
    return {'src_r': src, 'samp_r': samp_r, 'src_c': csrc, 'samp_c': samp_c,
            'last_rdm': bool(ns and (ns - 1) in set(samp_r.tolist()))}


def _jnum(x):
    return E()._num(x)


def _jstack(vecs, n_cond, rd, pd):
    """canonical (JSON) form of a small stack given as numpy arrays"""
    norm = E()._norm
    return {'n_cond': int(n_cond), 'vecs': [[_jnum(x) for x in row] for row in vecs],
            'rdm_desc': {k: [norm(x) for x in np.asarray(a).tolist()] for k, a in rd.items()},
            'pat_desc': {k: [norm(x) for x in np.asarray(a).tolist()] for k, a in pd.items()}}


def _pair_cols(k, pos):
    """columns of the condensed form (k conditions) holding the pairs among the positions `pos`"""
    pos = np.asarray(pos, dtype=np.int64)
    a, b = np.triu_indices(len(pos), 1)
    i, j = pos[a], pos[b]
    return i * k - i * (i + 1) // 2 + j - i - 1


def requests(case):
    r = _call(case)
    if 'exc' in r:
        return []
    pl = _plan(case)
    n_rdm, n = case['n_rdm'], case['n_cond']
    rd, pd = _src_desc(case)
    rd.setdefault('index', np.arange(n_rdm, dtype=np.int64))
    pd.setdefault('index', np.arange(n, dtype=np.int64))
    sr = np.asarray(pl['src_r'], dtype=np.int64)
    sc = np.asarray(pl['src_c'], dtype=np.int64)
    vecs = _src_vecs(case)[sr][:, _pair_cols(n, sc)] if len(sc) > 1 else np.zeros((len(sr), 0))
    st = _jstack(vecs, len(sc), {k: a[sr] for k, a in rd.items()}, {k: a[sc] for k, a in pd.items()})
    dr, dp = _recorded(case, r)
    norm = E()._norm
    req = {'op': 'c09.large', 'fn': case['fn'], 'n_cond': st['n_cond'], 'vecs': st['vecs'],
           'rdm_desc': [[k, v] for k, v in st['rdm_desc'].items()],
           'pat_desc': [[k, v] for k, v in st['pat_desc'].items()],
           'rdm_by': case.get('rdm_by') or 'index', 'pat_by': case.get('pat_by') or 'index',
           'full_rdm': [norm(x) for x in _grouping(case, 'rdm')],
           'full_pat': [norm(x) for x in _grouping(case, 'pat')],
           'draws_r': dr or [], 'draws_p': dp or []}
    if case['fn'] == 'direct':
        req['value'] = [norm(x) for x in _direct_value(case)]
    return [req]


# ------------------------------------------------------------------ canonical results

def _digest_vec(v):
    v = np.ascontiguousarray(np.asarray(v, dtype=float))
    v = np.where(np.isnan(v), np.nan, v) + 0.0          # one NaN pattern, -0 -> +0
    return hashlib.sha1(v.tobytes()).hexdigest()[:16]


def _digest_list(a):
    norm = E()._norm
    l = [norm(x) for x in np.asarray(a).ravel().tolist()]
    return [len(l), hashlib.sha1(json.dumps(l).encode()).hexdigest()[:16], l[:3], l[-2:]]


def _sub_block(vec, kc, rd, pd, pl):
    """the part of a (library or specification) sample that the Lean restriction covers"""
    rows, cols = pl['samp_r'], pl['samp_c']
    v = np.asarray(vec, dtype=float)[rows][:, _pair_cols(kc, cols)] if len(cols) > 1 \
        else np.zeros((len(rows), 0))
    return _jstack(v, len(cols), {k: np.asarray(a, dtype=object)[rows] for k, a in rd.items()},
                   {k: np.asarray(a, dtype=object)[cols] for k, a in pd.items()})


def impl(case):
    r = _call(case)
    if 'exc' in r:
        return {'exc': r['exc'], 'msg': r.get('msg')}
    s = r['sample']
    vec = np.asarray(s.dissimilarities, dtype=float)
    out = {'shape': [int(s.n_rdm), int(s.n_cond)] + list(vec.shape), 'vec': _digest_vec(vec),
           'rdm_desc': {k: _digest_list(v) for k, v in s.rdm_descriptors.items()},
           'pat_desc': {k: _digest_list(v) for k, v in s.pattern_descriptors.items()},
           'rdm_idx': None if r['ridx'] is None else _digest_list(r['ridx']),
           'pat_idx': None if r['pidx'] is None else _digest_list(r['pidx']),
           'idx_types': [type(x).__name__ for x in (r['ridx'], r['pidx']) if x is not None],
           'requests': [[c['low'], c['high'], c['size']] for c in r['calls']]}
    try:
        pl = _plan(case)
        out['sub'] = _sub_block(vec, s.n_cond, s.rdm_descriptors, s.pattern_descriptors, pl)
        out['last_rdm'] = pl['last_rdm']
    except Exception as exc:  # noqa: BLE001   a malformed sample: the digests already differ
        out['sub'] = {'error': type(exc).__name__ + ': ' + str(exc)[:120]}
    return out


def model(case, answers):
    if not answers:
        return {'exc': 'library-raised'}
    a = answers[0]
    if isinstance(a, dict) and 'model_error' in a:
        return a
    if 'exc' in a:
        return {'exc': a['exc']}
    sp = _spec(case)
    vec = sp['vec']
    kc = sp['n_cond']
    out = {'shape': [int(vec.shape[0]), int(kc)] + list(vec.shape), 'vec': _digest_vec(vec),
           'rdm_desc': {k: _digest_list(v) for k, v in sp['rdm_desc'].items()},
           'pat_desc': {k: _digest_list(v) for k, v in sp['pat_desc'].items()},
           'rdm_idx': None if sp['rdm_idx'] is None else _digest_list(sp['rdm_idx']),
           'pat_idx': None if sp['pat_idx'] is None else _digest_list(sp['pat_idx']),
           'requests': sp['requests']}
    pl = _plan(case)
    out['sub'] = _sub_block(vec, kc, sp['rdm_desc'], sp['pat_desc'], pl)
    lean = E()._canon_stack(a['stack'])
    lean.pop('n_cond_2d', None)
    out['lean'] = lean
    out['lean_idx'] = [a.get('rdm_idx'), a.get('pat_idx')]
    out['lean_requests'] = [list(q) for q in (a.get('spec_r'), a.get('spec_p')) if q is not None]
    out['lean_idx_digest'] = [None if x is None else _digest_list(x) for x in out['lean_idx']]
    out.pop('lean_idx')
    return out


def _first_vec_diff(case):
    """name the first entry in which the library's sample and the specification differ"""
    r, sp = _call(case), _spec(case)
    a = np.asarray(r['sample'].dissimilarities, dtype=float)
    b = sp['vec']
    if a.shape != b.shape:
        return f'shape {list(a.shape)} != {list(b.shape)}'
    bad = ~((a == b) | (np.isnan(a) & np.isnan(b)))
    if not bad.any():
        return 'digest only'
    rows = np.nonzero(bad.any(axis=1))[0]
    p = int(rows[0])
    k = int(np.nonzero(bad[p])[0][0])
    return (f'vecs[{p}][{k}]: library {a[p, k]!r} != specification {b[p, k]!r}; {len(rows)} of '
            f'{a.shape[0]} RDMs differ (first {p}, last {int(rows[-1])})')


def compare(case, im, mo):
    if isinstance(mo, dict) and 'model_error' in mo:
        return f'model error {mo}'
    if 'exc' in im or 'exc' in mo:
        if 'exc' in im:
            return f"library raised {im['exc']} ({im.get('msg')}) on a valid large stack"
        return f"model {mo.get('exc')} where the library returned a sample"
    if any(t != 'ndarray' for t in im['idx_types']) and case['fn'] != 'direct':
        return f"indices are not numpy arrays: {im['idx_types']}"
    # (a) whole sample against the specification
    for k in ('requests', 'rdm_idx', 'pat_idx', 'shape', 'rdm_desc', 'pat_desc'):
        if k == 'pat_idx' and case['fn'] == 'direct':
            continue
        if im.get(k) != mo.get(k):
            return f'{k}: library {json.dumps(im.get(k))[:300]} != specification {json.dumps(mo.get(k))[:300]}'
    if im['vec'] != mo['vec']:
        return 'sample: ' + _first_vec_diff(case)
    # (b) the Lean driver on the restriction (as-coded entry points, generated leaves)
    if case['fn'] != 'direct':
        if mo['lean_requests'] != im['requests']:
            return f"requests: library {im['requests']} != Lean (generated leaves) {mo['lean_requests']}"
        want = [x for x in (im['rdm_idx'], im['pat_idx']) if x is not None]
        got = [x for x in mo['lean_idx_digest'] if x is not None]
        if want != got:
            return f'index arrays: library {want} != Lean {got}'
    d = E()._diff_stack('restriction', im['sub'], mo['lean']) if 'error' not in im['sub'] else str(im['sub'])
    if d:
        return d + ' (Lean driver on the restricted stack)'
    d = E()._diff_stack('restriction(spec)', mo['sub'], mo['lean'])
    if d:
        return d + ' (numpy specification vs Lean driver)'
    return None


# ------------------------------------------------------------------ oracle (independent, decoding)

WHAT_ENTRY = 'an entry of the sample is not the source dissimilarity of its RDM and original conditions'
WHAT_NAN = 'an entry between two different conditions became NaN'
WHAT_COPY = 'an entry pairing two copies of one condition is not NaN'


def oracle(case):
    r = _call(case)
    if 'exc' in r:
        return {'what': 'bootstrap raised on a valid stack', 'observed': f"{r['exc']}: {r.get('msg')}",
                'expected': 'a sample', 'features': {'exc': r['exc'], 'op': 'large'}}
    s = r['sample']
    n_rdm, n = case['n_rdm'], case['n_cond']
    npair = _npair(n)
    rd, pd = _src_desc(case)
    rd.setdefault('index', np.arange(n_rdm, dtype=np.int64))
    pd.setdefault('index', np.arange(n, dtype=np.int64))
    if POS not in s.rdm_descriptors or POS not in s.pattern_descriptors:
        return {'what': 'descriptor lost in the sample', 'observed': [sorted(s.rdm_descriptors),
                sorted(s.pattern_descriptors)], 'expected': [sorted(rd), sorted(pd)]}
    o_r = np.asarray(s.rdm_descriptors[POS], dtype=np.int64)
    o_c = np.asarray(s.pattern_descriptors[POS], dtype=np.int64)
    for axis, idx, desc, o, sdesc, n_src, drawn_axis in (
            ('rdm', r['ridx'], rd, o_r, s.rdm_descriptors, n_rdm, case['fn'] in ('both', 'rdm')),
            ('pattern', r['pidx'], pd, o_c, s.pattern_descriptors, n, case['fn'] != 'rdm')):
        if o.size and (o.min() < 0 or o.max() >= n_src):
            return {'what': f'{axis}s in the sample are not items of the source', 'observed': [int(o.min()), int(o.max())],
                    'expected': [0, n_src - 1]}
        got = np.bincount(o, minlength=n_src)
        if not drawn_axis:
            if not np.array_equal(o, np.arange(n_src)):
                return {'what': f'{axis} axis changed although it was not resampled',
                        'observed': o[:10].tolist(), 'expected': list(range(min(n_src, 10)))}
        else:
            lab = _grouping(case, 'rdm' if axis == 'rdm' else 'pat')
            groups = set(lab)
            if case['fn'] == 'direct':
                drawn = list(_direct_value(case))
            else:
                if not isinstance(idx, np.ndarray):
                    return {'what': f'{axis} indices are not returned as an index array',
                            'observed': type(idx).__name__, 'expected': 'ndarray'}
                drawn = idx.ravel().tolist()
                if len(drawn) != len(groups):
                    return {'what': f'number of drawn {axis} groups differs from the number of distinct groups',
                            'observed': len(drawn), 'expected': len(groups)}
                if any(g not in groups for g in drawn):
                    return {'what': f'a drawn {axis} index is not a descriptor value',
                            'observed': drawn[:10], 'expected': sorted(groups)[:10]}
            cnt = {}
            for g in drawn:
                cnt[g] = cnt.get(g, 0) + 1
            want = np.array([cnt.get(g, 0) for g in lab], dtype=np.int64)
            if not np.array_equal(got, want):
                j = int(np.nonzero(got != want)[0][0])
                return {'what': f'{axis}s in the sample are not the members of the drawn groups with the drawn multiplicity',
                        'observed': {j: int(got[j])}, 'expected': {j: int(want[j])}, 'features': {'axis': axis}}
        for k, col in desc.items():
            have = sdesc.get(k)
            exp = col[o]
            if have is None or np.asarray(have).tolist() != exp.tolist():
                return {'what': f'{axis} descriptor {k!r} of the sample does not belong to the sampled items',
                        'observed': None if have is None else list(have)[:8], 'expected': exp[:8].tolist(),
                        'features': {'axis': axis}}
        extra = set(sdesc) - set(desc)
        if extra:
            return {'what': f'{axis} descriptors appeared', 'observed': sorted(extra), 'expected': []}
    # --- entries, decoded
    vec = np.asarray(s.dissimilarities, dtype=float)
    kc = len(o_c)
    if vec.shape != (len(o_r), _npair(kc)) or s.n_cond != kc or s.n_rdm != len(o_r):
        return {'what': 'shape of the sample', 'observed': [list(vec.shape), s.n_rdm, s.n_cond],
                'expected': [len(o_r), _npair(kc)]}
    si, sj = np.triu_indices(kc, 1)
    a, b = o_c[si], o_c[sj]
    copy = a == b
    lo, hi = np.minimum(a, b), np.maximum(a, b)
    pairno = np.where(copy, -1, lo * n - lo * (lo + 1) // 2 + hi - lo - 1)      # pair number in the source
    isnan = np.isnan(vec)
    with np.errstate(invalid='ignore', over='ignore'):
        t = vec - 1.0 - _frac(case)
        dec_r = np.floor(t / npair) if npair else t
        dec_k = t - dec_r * npair
        ok = ~isnan & (dec_r == o_r[:, None]) & (dec_k == pairno[None, :]) & ~copy[None, :]
    ok |= isnan & copy[None, :]
    for hr, hk, hx in case.get('holes', []):            # source entries that are NaN / 0 themselves
        rows = np.nonzero(o_r == hr)[0]
        cols = np.nonzero(pairno == hk)[0]
        if len(rows) and len(cols):
            blk = vec[np.ix_(rows, cols)]
            ok[np.ix_(rows, cols)] = np.isnan(blk) if hx is None else (blk == float(hx))
    if ok.all():
        return None
    bad_rows = np.nonzero(~ok.all(axis=1))[0]
    p = int(bad_rows[0])
    c = int(np.nonzero(~ok[p])[0][0])
    i, j = int(si[c]), int(sj[c])
    got = vec[p, c]
    if copy[c]:
        what, exp = WHAT_COPY, None
    else:
        exp = float(o_r[p] * npair + pairno[c] + 1) + _frac(case)
        for hr, hk, hx in case.get('holes', []):
            if hr == o_r[p] and hk == pairno[c]:
                exp = None if hx is None else float(hx)
        what = WHAT_NAN if (math.isnan(got) and exp is not None) else WHAT_ENTRY
    return {'what': what, 'observed': None if math.isnan(got) else float(got), 'expected': exp,
            'features': {'op': 'large', 'where': [p, i, j], 'orig': [int(o_r[p]), int(a[c]), int(b[c])],
                         'bad_rdms': [int(len(bad_rows)), int(bad_rows[0]), int(bad_rows[-1])],
                         'sample_n_rdm': int(len(o_r))}}


# ------------------------------------------------------------------ features, generation, shrinking

def features(case, im):
    n_rdm, n = case['n_rdm'], case['n_cond']
    br = ['op:large', 'large:fn_' + case['fn'], 'large:form_' + case.get('form', '2d'),
          'large:container_' + case.get('container', 'list')]
    if n_rdm >= 100:
        br.append('size:many-rdms')
    if n >= 100:
        br.append('size:many-conds')
    if n >= 1024:
        br.append('size:conds-over-1024')
    if n_rdm * n * n > 2 ** 20:
        br.append('size:over-2^20-matrix-entries')
    if n_rdm >= 1000:
        br.append('size:thousands-of-rdms')
    for axis in ('rdm', 'pat'):
        if case.get(axis + '_by') is not None:
            g = case[axis + '_groups']
            br.append('large:by_named')
            if g['kind'] != 'unique':
                br.append('large:grouped_' + axis)
            br.append('large:label_' + g.get('label', 'int'))
        else:
            br.append('large:by_default')
    if case.get('holes'):
        br.append('large:holes')
    if case.get('frac_exp'):
        br.append('large:values_not_float32')
    if case.get('prelude'):
        br.append('large:twin_same_shape')
    f = {'op': 'large', 'mode': case['fn'], 'n_rdm': n_rdm, 'n_cond': n}
    if im and 'shape' in im:
        if im.get('last_rdm') and n_rdm >= 100:
            br.append('size:last-rdm-checked')
        if n > COND_CAP:
            br.append('large:lean_restricted_conds')
        br.append('large:lean_restriction')
        f['sample_n_cond'] = im['shape'][1]
    if im and 'exc' in im:
        f['exc'] = im['exc']
    f['branches'] = sorted(set(br))
    return f


def _groups_spec(rng, n, axis):
    kind = rng.choice(['unique', 'div', 'div', 'mod'])
    spec = {'kind': kind, 'label': rng.choice(['int', 'int', 'str'])}
    if kind == 'div':
        spec['m'] = rng.choice([2, 3]) if axis == 'rdm' else rng.choice([2, 3, 4])
    elif kind == 'mod':
        spec['m'] = max(2, n // rng.choice([2, 3]))          # interleaved groups of 2-3 members
    if spec['label'] == 'int':
        spec['step'] = rng.choice([1, 1, 3, -1])
        spec['off'] = rng.choice([0, 0, -5, 7])
    return spec


def make_large(rng, shape=None, fn=None, named=None):
    """shape = (n_rdm, n_cond) or None for a random large shape"""
    if shape is None:
        n = rng.choice([24, 32, 45, 64, 64, 80, 100, 128])
        blk = max(1, 2 ** rng.choice([16, 18, 20, 20]) // (n * n))
        n_rdm = rng.randint(1, 2) * blk + rng.randint(1, max(1, min(blk - 1, 200)))
        if n_rdm > 700:
            n_rdm = rng.randint(300, 700)
        if n_rdm < 100:
            n_rdm = rng.randint(100, 300)
        shape = (n_rdm, n)
    n_rdm, n = shape
    fn = fn or rng.choice(['pattern', 'pattern', 'both', 'both', 'direct', 'rdm'])
    case = {'op': 'large', 'fn': fn, 'n_rdm': n_rdm, 'n_cond': n,
            'form': rng.choice(['2d', '2d', '3d']), 'container': rng.choice(['list', 'list', 'array']),
            'rdm_by': None, 'pat_by': None, 'draws': {'seed': rng.randrange(2 ** 31)}}
    p_named = 0.7 if named is None else (1.0 if named else 0.0)
    if fn in ('both', 'rdm') and rng.random() < p_named:
        case['rdm_by'] = rng.choice(['sl', 'time', 'subj'])
        case['rdm_groups'] = _groups_spec(rng, n_rdm, 'rdm')
    if fn != 'rdm' and rng.random() < p_named:
        case['pat_by'] = rng.choice(['stim', 'cat'])
        case['pat_groups'] = _groups_spec(rng, n, 'pat')
    if fn == 'direct':
        ng = len(set(_grouping(case, 'pat')))
        case['n_value'] = rng.randint(max(1, ng // 2), ng + 2)
        case['value_kind'] = rng.choice(['list', 'array', 'tuple'])
    if rng.random() < 0.5:
        case['frac_exp'] = rng.choice([20, 26, 28])
    if rng.random() < 0.5:
        case['base'] = rng.randrange(1, 10 ** 6)
    if rng.random() < 0.4:
        npair = _npair(n)
        case['holes'] = [[rng.randrange(n_rdm) if i else n_rdm - 1, rng.randrange(npair), rng.choice([None, None, 0])]
                         for i in range(rng.randint(1, 3))]
    return case


def stream(rng, tier):
    """the large cases of one run"""
    def rem(n, lo_mult=1, hi=120):
        blk = max(1, 2 ** 20 // (n * n))
        return lo_mult * blk + rng.randint(1, min(max(blk - 1, 1), hi))
    c = make_large(rng, (rem(64), 64), fn='pattern', named=False)                      # ~ 300 x 64
    c.setdefault('frac_exp', 28)
    yield c
    first = c
    yield make_large(rng, (rem(100, hi=60), 100), fn='both', named=True)               # ~ 120 x 100
    yield make_large(rng, (rem(64), 64), fn='both')
    yield make_large(rng, (rng.randint(2, 4), rng.randint(150, 420)), fn=rng.choice(['pattern', 'direct']))
    yield make_large(rng, (rng.randint(520, 900), rng.randint(8, 30)), fn='rdm')
    yield make_large(rng, (rng.randint(1, 2), rng.randint(1025, 1100)), fn='pattern')  # matrix > 2^20 entries
    for _ in range(3 if tier == 'quick' else 30):
        yield make_large(rng)
    yield make_large(rng, fn='direct')
    # two-step session on two objects: the same call on a twin of the stack (same shape, every entry
    # different, other draws) first; hidden state between two large objects of one shape would show
    yield dict(first, prelude={'base': first.get('base', 0) + rng.randrange(1, 10 ** 5),
                               'seed': rng.randrange(2 ** 31)})
    if tier != 'quick':
        yield make_large(rng, (rem(20), 20), fn='pattern')                                 # ~ 3000 x 20
        yield make_large(rng, (rem(20), 20), fn='both')
        yield make_large(rng, (2 * (2 ** 20 // 64 ** 2) + rng.randint(1, 200), 64), fn='both')
        yield make_large(rng, (rng.randint(1500, 3500), rng.randint(12, 30)), fn='rdm')
        yield make_large(rng, (rng.randint(2, 3), rng.randint(500, 900)), fn='direct')
        yield make_large(rng, (rng.randint(3, 5), rng.randint(1025, 1200)), fn='both')


def shrink_large(case, still_fails):
    cur = json.loads(json.dumps(case))

    def attempt(mod):
        nonlocal cur
        c = json.loads(json.dumps(cur))
        try:
            mod(c)
            if still_fails(c):
                cur = c
                return True
        except Exception:  # noqa: BLE001
            pass
        return False

    attempt(lambda c: c.pop('holes', None))
    attempt(lambda c: c.pop('frac_exp', None))
    attempt(lambda c: c.pop('base', None))
    # a `prelude` (step 1 of a two-step session) is never dropped: in-process attempts without it would
    # be judged under whatever hidden state the earlier attempts left behind
    attempt(lambda c: c.update(form='2d', container='list'))
    if cur['fn'] == 'both':
        def to_pattern(c):
            c.update(fn='pattern', rdm_by=None)
            c.pop('rdm_groups', None)
        attempt(to_pattern)
    for axis in ('rdm', 'pat'):
        def ungroup(c, axis=axis):
            c[axis + '_by'] = None
            c.pop(axis + '_groups', None)
        if cur.get(axis + '_by') is not None and cur['fn'] != 'direct':
            attempt(ungroup)
    # fewest RDMs (bisection; for a block-size bug this ends one RDM past the block)
    lo, hi = 1, cur['n_rdm']
    if not cur.get('holes'):
        while lo < hi:
            mid = (lo + hi) // 2
            if attempt(lambda c, mid=mid: c.update(n_rdm=mid)):
                hi = mid
            else:
                lo = mid + 1
    return cur


OPS = {'large': dict(impl=impl, requests=requests, model=model, compare=compare, oracle=oracle,
                     features=features)}
