"""C18 reuse sessions (round 4): state that survives a call.

A *session* is a list of steps run in ONE process on objects that are handed in again:

  {'kind': 'session', 'skind': <generator label>, 'steps': [step, ...]}

  step = {'op': 'dataset', 'case': <ordinary C18 case>, 'model': slot, 'edit': 'inplace'|'rebind'|None,
          'theta': slot|None, 'cond': slot|None, 'cov': slot|None}
       | {'op': 'design', 'n_cond': n, 'n_part': p, 'scribble': bool}
       | {'op': 'signal', 'pts': [...], 'n_ch': c, 'exact': bool, 'scc': matrix|None, 'seed': s, 'g': slot}

Slots name live objects of the session.  A step whose slot already holds an object *reuses that object*:
  model   same class: the object is kept; if the step's RDM content differs from what the object holds, the
          CALLER edits it between the calls — 'inplace' writes the new numbers into `model.rdm` (and the
          RDMs object behind it), 'rebind' assigns new arrays to the attributes
  theta   same shape: the array object is kept, new weights are written into it in place
  cond    equal content: the very same condition vector / design matrix object is passed again
  cov     equal content: the very same covariance array objects are passed again
  g       equal content: the very same second-moment matrix is passed to make_signal again

Every step is judged on its own: what is expected comes from the step's own numbers (fresh objects built by
`C18._objects`, exact rationals in the oracle), never from a live object.  Universal side conditions: after
every call each argument is bit-identical to a pristine copy; at the end of the session everything that an
earlier call returned still holds what it held when it was returned.
"""
import copy
import json
import math
from fractions import Fraction as F

import numpy as np

import rsatoolbox
from rsatoolbox.rdm import RDMs
from rsatoolbox.simulation import sim
from lean import fbits, unfbits, deep, first_diff
import scipy.stats as ss


def _E():
    from engines import C18
    return C18


SKINDS = ('same-name', 'same-model', 'edit-rdm:inplace', 'edit-rdm:rebind', 'reuse-cond', 'reuse-cov',
          'reuse-theta', 'relabel', 'make-signal', 'make-design', 'mixed')


# ------------------------------------------------------------------ generation

def _claim(E, rng, force):
    """a call inside the property's claim"""
    return dict(force, exact=True, noise=0.0, scc=None, _inclaim=True)


def _sub(E, rng, force, claim):
    f = dict(force)
    if claim:
        f.update(exact=True, noise=0.0, scc=None)
    c = E._one(rng, f)
    if claim:
        n = len(c['pts'])
        if c['n_ch'] < n:
            c['n_ch'] = n + rng.choice([0, 1, 2])
            c['ncc'] = c['nct'] = None
        c['scc'] = None
    c.pop('defaults', None)
    return c


def _same_shape_variant(E, rng, base, mkind=None):
    """another model of the same class, name, theta and number of conditions with a different RDM"""
    n = len(base['pts'])
    c = copy.deepcopy(base)
    for _ in range(20):
        c['pts'] = E._points(rng, n, mkind or rng.choice(['generic', 'generic', 'any', 'collinear']))
        if 'pts2' in base:
            c['pts2'] = E._points(rng, n, 'any')
        if E._expected_dvec(c) != E._expected_dvec(base):
            break
    c['mkind'] = 'any'
    return c


def _vary_call(E, rng, c, claim):
    """the same model and design, other call parameters"""
    d = copy.deepcopy(c)
    n = len(d['pts'])
    d['signal'] = rng.choice([x for x in (0.25, 1.0, 2.5, 4.0, 9.0) if x != c['signal']])
    d['n_sim'] = rng.choice([1, 2, 3])
    d['seed'] = rng.randint(0, 2 ** 31 - 1)
    d['same'] = rng.random() < 0.5
    if not claim:
        d['noise'] = rng.choice([0.0, 0.5, 1.0, 2.25])
        d['exact'] = rng.random() < 0.6
    if d['nct'] is None and d['scc'] is None and d['ncc'] is None and rng.random() < 0.5:
        d['n_ch'] = n + rng.choice([0, 1, 2, 5])
    return d


def gen_session(rng, skind, claim=None, first=False, mk=None):
    """`first`: the deterministic variant of the kind (guarantees its coverage tags in every run)"""
    E = _E()
    if claim is None:
        claim = rng.random() < 0.6
    steps = []
    k = 3 if first else rng.choice([2, 2, 3])
    if skind == 'same-name':
        mk = mk or rng.choice(['fixed_vec', 'fixed_vec', 'fixed_mat', 'fixed_rdms', 'weighted', 'weighted_none',
                               'select', 'interp', 'interp_none'])
        base = _sub(E, rng, {'mk': mk, 'cond_mode': rng.choice(['design', 'labels', 'matrix'])}, claim)
        cur = base
        for i in range(k):
            steps.append({'op': 'dataset', 'case': cur, 'model': f'm{i}'})
            cur = _same_shape_variant(E, rng, base)
            if rng.random() < 0.5:
                cur = dict(_vary_call(E, rng, cur, claim), pts=cur['pts'], **({'pts2': cur['pts2']} if 'pts2' in cur else {}))
    elif skind == 'same-model':
        base = _sub(E, rng, {}, claim)
        cur = base
        for i in range(k):
            steps.append({'op': 'dataset', 'case': cur, 'model': 'm0', 'theta': 't0', 'cond': 'c0', 'cov': 'v0'})
            cur = _vary_call(E, rng, base, claim)
            if rng.random() < 0.4 and cur['nct'] is None:
                # another design for the same model
                cur['cond_mode'] = rng.choice(['design', 'labels'])
                cur['n_part'] = rng.randint(1, 4)
                cur['labels'] = E._labels(rng, len(cur['pts']))
                cur.pop('zmat', None)
                cur.pop('zkind', None)
    elif skind in ('edit-rdm:inplace', 'edit-rdm:rebind'):
        mk = rng.choice(['fixed_vec', 'fixed_vec', 'fixed_mat', 'weighted', 'select', 'interp'])
        base = _sub(E, rng, {'mk': mk}, claim)
        if mk not in ('fixed_vec', 'fixed_mat'):
            base['stackform'] = rng.choice(['vec', 'mat'])
        cur = base
        for i in range(k):
            steps.append({'op': 'dataset', 'case': cur, 'model': 'm0', 'edit': skind.split(':')[1],
                          'cond': 'c0'})
            cur = _same_shape_variant(E, rng, base)
    elif skind == 'reuse-cond':
        base = _sub(E, rng, {'cond_mode': 'general' if first else
                             rng.choice(['labels', 'matrix', 'general', 'design'])}, claim)
        cur = base
        for i in range(k):
            steps.append({'op': 'dataset', 'case': cur, 'model': f'm{i}', 'cond': 'c0'})
            cur = _same_shape_variant(E, rng, base)
            cur['seed'] = rng.randint(0, 2 ** 31 - 1)
            cur['signal'] = rng.choice([0.25, 1.0, 2.5, 4.0])
    elif skind == 'reuse-cov':
        base = _sub(E, rng, {'cond_mode': rng.choice(['design', 'labels'])}, False)
        n = len(base['pts'])
        if base['nct'] is None:
            base['ncc'] = E._spd(rng, base['n_ch'])
        if base['n_ch'] >= n and base['nct'] is None and rng.random() < 0.5:
            base['scc'] = E._spd(rng, base['n_ch'])
        base['noise'] = rng.choice([0.5, 1.0, 2.25])
        cur = base
        for i in range(k):
            steps.append({'op': 'dataset', 'case': cur, 'model': f'm{i % 2}', 'cov': 'v0', 'cond': 'c0'})
            cur = copy.deepcopy(base)
            cur['seed'] = rng.randint(0, 2 ** 31 - 1)
            cur['noise'] = rng.choice([0.0, 0.5, 1.0, 2.25])
            cur['signal'] = rng.choice([0.25, 1.0, 4.0])
            cur['exact'] = rng.random() < 0.5
    elif skind == 'reuse-theta':
        mk = rng.choice(['weighted', 'weighted', 'interp'])
        base = _sub(E, rng, {'mk': mk}, claim)
        cur = base
        k = 3
        for i in range(k):
            steps.append({'op': 'dataset', 'case': cur, 'model': 'm0' if i != 1 else 'm1', 'theta': 't0'})
            # second call: another model, the same theta array; third call: the caller has written new
            # weights into that array
            cur = _same_shape_variant(E, rng, base) if i == 0 else copy.deepcopy(base)
            if i == 1 or (i > 1 and rng.random() < 0.6):
                old = list(cur['theta'])
                while cur['theta'] == old:
                    if mk == 'weighted':
                        cur['theta'] = [rng.choice([0.5, 1.0, 2.0, 3.0]), rng.choice([0.25, 1.0, 1.5])]
                    else:
                        t = rng.choice([0.0, 0.25, 0.5, 0.75, 1.0])
                        cur['theta'] = [1.0 - t, t]
            cur['seed'] = rng.randint(0, 2 ** 31 - 1)
    elif skind == 'relabel':
        # the same model, condition vectors of the same length and the same labels in another arrangement
        # (design arrays that agree in shape, dtype and label set but not in content)
        base = _sub(E, rng, {'cond_mode': rng.choice(['labels', 'labels', 'matrix'])}, claim)
        if base['nct'] is not None:
            base['nct'] = None
            base['n_ch'] = len(base['pts']) + rng.choice([0, 1, 2])
            base['ncc'] = None
        cur = base
        for i in range(k):
            steps.append({'op': 'dataset', 'case': cur, 'model': 'm0', 'cond': 'c0'})
            cur = copy.deepcopy(base)
            lab = list(base['labels'])
            for _ in range(20):
                rng.shuffle(lab)
                if lab != steps[-1]['case']['labels']:
                    break
            if lab == steps[-1]['case']['labels']:
                lab = lab + [lab[0]] if len(set(lab)) == 1 else lab[::-1] + [lab[0]]
            cur['labels'] = lab
            cur['seed'] = rng.randint(0, 2 ** 31 - 1)
    elif skind == 'make-signal':
        n = rng.randint(3, 6)
        pts = E._points(rng, n, rng.choice(['generic', 'generic', 'collinear', 'duplicate']))
        for i in range(rng.choice([2, 3, 4])):
            if i and not first and rng.random() < 0.35:
                pts = E._points(rng, n, 'generic')
            exact = rng.random() < 0.7
            n_ch = n + rng.choice([0, 1, 2, 5]) if rng.random() < 0.85 else max(1, n - 1)
            scc = E._spd(rng, max(n_ch, n) if False else n_ch) if rng.random() < 0.2 and n_ch >= n else None
            steps.append({'op': 'signal', 'pts': [list(p) for p in pts], 'n_ch': n_ch, 'exact': exact,
                          'scc': scc, 'seed': rng.randint(0, 2 ** 31 - 1), 'g': 'g0'})
    elif skind == 'make-design':
        for i in range(rng.choice([2, 3, 4])):
            steps.append({'op': 'design', 'n_cond': rng.randint(1, 6), 'n_part': rng.randint(1, 5),
                          'scribble': rng.random() < 0.6})
        if rng.random() < 0.7:
            # the same request twice around a scribble
            steps[-1] = dict(steps[0], scribble=False)
            steps[0]['scribble'] = True
    else:   # mixed
        base = _sub(E, rng, {'cond_mode': 'design', 'mk': 'fixed_vec'}, claim)
        n = len(base['pts'])
        steps.append({'op': 'design', 'n_cond': n, 'n_part': base['n_part'], 'scribble': True})
        steps.append({'op': 'dataset', 'case': base, 'model': 'm0', 'cond': 'c0'})
        steps.append({'op': 'signal', 'pts': [list(p) for p in base['pts']], 'n_ch': base['n_ch'],
                      'exact': True, 'scc': None, 'seed': rng.randint(0, 2 ** 31 - 1), 'g': 'g0'})
        v = _same_shape_variant(E, rng, base)
        steps.append({'op': 'dataset', 'case': v, 'model': 'm1', 'cond': 'c0'})
        steps.append({'op': 'design', 'n_cond': n, 'n_part': base['n_part'], 'scribble': False})
    return {'kind': 'session', 'skind': skind, 'steps': steps}


def generate(rng, tier):
    reps = 3 if tier == 'quick' else 60
    for r in range(reps):
        for sk in SKINDS:
            yield gen_session(rng, sk, claim=True if r == 0 else None, first=r == 0)
        if r == 0:
            yield gen_session(rng, 'same-name', claim=True, first=True, mk='weighted')
            yield gen_session(rng, 'same-name', claim=True, first=True, mk='fixed_vec')


def search_session(rng, k):
    """sessions for the failing-input search: mostly inside the claim"""
    return gen_session(rng, SKINDS[k % len(SKINDS)], claim=rng.random() < 0.8)


# ------------------------------------------------------------------ live objects

def _bytes(a):
    a = np.asarray(a)
    return (str(a.dtype), tuple(a.shape), np.ascontiguousarray(a).tobytes())


def _same(a, b):
    if a is None or b is None:
        return a is None and b is None
    if isinstance(a, (int, np.integer)) and isinstance(b, (int, np.integer)):
        return int(a) == int(b)
    return _bytes(a) == _bytes(b)


def _model_state(m):
    """what a model object holds: the arrays `predict` computes from, the RDMs object, name, attribute names"""
    return {'rdm': _bytes(m.rdm), 'rdm_obj': _bytes(m.rdm_obj.dissimilarities), 'name': m.name,
            'attrs': sorted(m.__dict__)}


def _bind(pool, step, log):
    """the live objects for a dataset step: reuse what the slots hold, let the caller edit where the
    step's numbers differ; `log` receives the kinds of reuse that took place"""
    E = _E()
    sub = step['case']
    fresh = E._objects(sub)
    objs = dict(fresh)
    # ---- model
    slot = step.get('model')
    if slot is not None and slot in pool and type(pool[slot]) is type(fresh['model']) \
            and np.shape(pool[slot].rdm) == np.shape(fresh['model'].rdm):
        m = pool[slot]
        if _bytes(m.rdm) != _bytes(fresh['model'].rdm):
            if step.get('edit') == 'inplace' and m.rdm.flags.writeable:
                m.rdm[...] = fresh['model'].rdm
                if m.rdm_obj.dissimilarities.shape == fresh['model'].rdm_obj.dissimilarities.shape:
                    m.rdm_obj.dissimilarities[...] = fresh['model'].rdm_obj.dissimilarities
                log.append('edit-rdm:inplace')
            else:
                m.rdm = np.array(fresh['model'].rdm)
                m.rdm_obj = fresh['model'].rdm_obj
                log.append('edit-rdm:rebind')
        else:
            log.append('same-model')
        objs['model'] = m
    else:
        if slot is not None:
            if any(isinstance(v, type(fresh['model'])) and v.name == fresh['model'].name
                   and _bytes(v.rdm) != _bytes(fresh['model'].rdm)
                   for kk, v in pool.items() if kk.startswith('m')):
                log.append('same-name')
            pool[slot] = fresh['model']
    # ---- theta
    slot = step.get('theta')
    if slot is not None and isinstance(fresh['theta'], np.ndarray):
        t = pool.get(slot)
        if isinstance(t, np.ndarray) and t.shape == fresh['theta'].shape and t.dtype == fresh['theta'].dtype:
            if _bytes(t) != _bytes(fresh['theta']):
                t[...] = fresh['theta']
                log.append('edit-theta')
            else:
                log.append('reuse-theta')
            objs['theta'] = t
        else:
            pool[slot] = fresh['theta']
    # ---- condition vector / design matrix
    slot = step.get('cond')
    if slot is not None:
        c = pool.get(slot)
        if isinstance(c, np.ndarray) and _same(c, fresh['cond_vec']):
            objs['cond_vec'] = c
            log.append('reuse-cond')
        else:
            pool[slot] = fresh['cond_vec']
    # ---- covariances
    slot = step.get('cov')
    if slot is not None:
        for name in ('scc', 'ncc', 'nct'):
            if fresh[name] is None:
                continue
            c = pool.get(slot + name)
            if isinstance(c, np.ndarray) and _same(c, fresh[name]):
                objs[name] = c
                log.append('reuse-cov')
            else:
                pool[slot + name] = fresh[name]
    return objs


def _intact(step, objs):
    """None, or which argument of the call is no longer bit-identical to a pristine copy"""
    E = _E()
    fresh = E._objects(step['case'])
    a, b = _model_state(objs['model']), _model_state(fresh['model'])
    for f in ('rdm', 'rdm_obj', 'name'):
        if a[f] != b[f]:
            return f'model.{f}'
    if not _same(objs['theta'], fresh['theta']):
        return 'theta'
    if not _same(objs['cond_vec'], fresh['cond_vec']):
        return 'cond_vec'
    for name, arg in (('scc', 'signal_cov_channel'), ('ncc', 'noise_cov_channel'), ('nct', 'noise_cov_trial')):
        if not _same(objs[name], fresh[name]):
            return arg
    return None


def _gram_float(pts):
    """G = -1/2 H D H of a point set, computed here (plain numpy on fresh arrays)"""
    E = _E()
    n = len(pts)
    d = np.zeros((n, n))
    it = iter(E._dvec(pts))
    for i in range(n):
        for j in range(i + 1, n):
            d[i, j] = d[j, i] = next(it)
    h = np.eye(n) - np.ones((n, n)) / n
    return -0.5 * (h @ d @ h)


def _desc(ds, with_theta):
    d = _E()._canon_desc_dict(ds.descriptors)
    if not with_theta:
        d.pop('theta', None)
    return json.dumps(d, sort_keys=True)


def _snap_datasets(dss):
    return [{'data': np.array(ds.measurements, dtype=float, copy=True),
             'desc': _desc(ds, True), 'desc_nt': _desc(ds, False),
             'obs': json.dumps(_E()._canon_desc_dict(ds.obs_descriptors), sort_keys=True)} for ds in dss]


def _kept_datasets(dss, snaps, theta_edited=False):
    """`theta_edited`: the CALLER has meanwhile written new weights into the theta array it had passed; the
    dataset's `theta` descriptor is that very array (make_dataset stores the reference), so it shows the
    caller's own edit — not something a later call did — and is left out of the comparison"""
    for k, (ds, sn) in enumerate(zip(dss, snaps)):
        if not np.array_equal(np.asarray(ds.measurements, dtype=float), sn['data']):
            return f'measurements of dataset {k}'
        E = _E()
        if _desc(ds, not theta_edited) != (sn['desc_nt'] if theta_edited else sn['desc']):
            return f'descriptors of dataset {k}'
        if json.dumps(E._canon_desc_dict(ds.obs_descriptors), sort_keys=True) != sn['obs']:
            return f'obs descriptors of dataset {k}'
    return None


# ------------------------------------------------------------------ the real code (correspondence side)

def _skey(case, i):
    return _E()._key(case) + f'#{i}'


def run_impl(case):
    E = _E()
    pool, out, kept, reuse = {}, [], [], []
    for i, st in enumerate(case['steps']):
        log = []
        if st['op'] == 'dataset':
            objs = _bind(pool, st, log)
            if 'edit-theta' in log:
                for kp in kept:
                    kp[4] = True
            before_attrs = sorted(objs['model'].__dict__)
            live = []
            res = E._run_single(st['case'], _skey(case, i), objs=objs, keep=live)
            res['intact'] = _intact(st, objs)
            if res['intact'] is None and sorted(objs['model'].__dict__) != before_attrs:
                res['intact'] = 'attributes of the model object: ' + str(
                    sorted(set(objs['model'].__dict__) ^ set(before_attrs)))
            kept.append([i, 'dataset', live, _snap_datasets(live), False])
        elif st['op'] == 'design':
            cv, pv = sim.make_design(st['n_cond'], st['n_part'])
            res = {'design': {'cond': E._canon_desc(cv), 'part': E._canon_desc(pv)}}
            if st.get('scribble'):
                # the caller does what it likes with arrays it was given
                if np.size(cv):
                    cv[...] = -7
                    pv += 3
                log.append('design-scribble')
            else:
                kept.append([i, 'design', (cv, pv), (np.array(cv, copy=True), np.array(pv, copy=True)), False])
            log.append('make-design')
        else:
            res = _run_signal(case, i, st, pool, log, kept)
        res['reuse'] = log
        out.append(res)
    # everything an earlier call returned still holds what it held
    clobbered = None
    for i, kind, live, snap, th in kept:
        if kind == 'dataset':
            w = _kept_datasets(live, snap, th)
        else:
            w = None if all(np.array_equal(a, b) for a, b in zip(live, snap)) else 'returned array'
        if w:
            clobbered = f'step {i}: {w} changed after the call returned'
            break
    return {'steps': out, 'clobbered': clobbered}


def _run_signal(case, i, st, pool, log, kept):
    E = _E()
    n = len(st['pts'])
    g0 = _gram_float(st['pts'])
    g = pool.get(st.get('g'))
    if isinstance(g, np.ndarray) and _same(g, g0):
        log.append('reuse-g')
    else:
        g = np.array(g0, copy=True)
        if st.get('g'):
            pool[st['g']] = g
    chol = None if st['scc'] is None else np.linalg.cholesky(np.array(st['scc'], dtype=float))
    chol0 = None if chol is None else np.array(chol, copy=True)
    np.random.seed(st['seed'])
    try:
        with E._Tap() as tap:
            out = sim.make_signal(g, st['n_ch'], st['exact'], chol)
    except (ValueError, TypeError, AssertionError, np.linalg.LinAlgError) as exc:
        E._REC[_skey(case, i)] = None
        return {'exc': type(exc).__name__}
    E._REC[_skey(case, i)] = {'calls': tap.signals}
    log.append('make-signal')
    kept.append([i, 'signal', (out,), (np.array(out, copy=True),), False])
    intact = None
    if not _same(g, g0):
        intact = 'G'
    elif chol is not None and not _same(chol, chol0):
        intact = 'chol_channel'
    return {'signal': np.asarray(out, dtype=float).tolist(), 'shape': list(np.shape(out)),
            'G': g0.tolist(), 'intact': intact, 'n_calls': len(tap.signals)}


# ------------------------------------------------------------------ the model (driver) side

_SPANS = {}


def model_requests(case):
    E = _E()
    key = E._key(case)
    if _skey(case, 0) not in E._REC and not any(_skey(case, i) in E._REC for i in range(len(case['steps']))):
        run_impl(case)
    reqs, spans = [], []
    for i, st in enumerate(case['steps']):
        if st['op'] == 'dataset':
            r = E._requests_single(st['case'], _skey(case, i))
        elif st['op'] == 'design':
            r = [{'op': 'c18.design', 'n_cond': st['n_cond'], 'n_part': st['n_part']}]
        else:
            r = _signal_requests(case, i, st)
        spans.append((len(reqs), len(reqs) + len(r)))
        reqs.extend(r)
    _SPANS[key] = spans
    return reqs


def _signal_requests(case, i, st):
    E = _E()
    n = len(st['pts'])
    rec = E._REC.get(_skey(case, i))
    r = [{'op': 'c18.gram', 'n': n, 'rdm': deep(fbits, np.array(E._dvec(st['pts']), dtype=float))}]
    if rec and len(rec['calls']) == 1:
        c = rec['calls'][0]
        if c['u'] is not None and c['eigval'] is not None and not (c['exact'] and c['q'] is None):
            r.append({'op': 'c18.signal', 'n_cond': n, 'n_ch': st['n_ch'], 'exact': bool(st['exact']),
                      'z': deep(fbits, ss.norm.ppf(c['u'])),
                      'q': None if c['q'] is None else deep(fbits, c['q']),
                      'eigval': deep(fbits, c['eigval']), 'eigvec': deep(fbits, c['eigvec']),
                      'chol_s': None if st['scc'] is None else deep(
                          fbits, np.linalg.cholesky(np.array(st['scc'], dtype=float)))})
    return r


def model_result(case, answers):
    E = _E()
    spans = _SPANS.get(E._key(case), [])
    out = []
    for i, (st, (a0, a1)) in enumerate(zip(case['steps'], spans)):
        ans = answers[a0:a1]
        for a in ans:
            if isinstance(a, dict) and 'model_error' in a:
                return a
        if st['op'] == 'dataset':
            out.append(E._result_single(st['case'], _skey(case, i), ans))
        elif st['op'] == 'design':
            out.append({'design': {'cond': [float(v) for v in ans[0]['cond']],
                                   'part': [float(v) for v in ans[0]['part']]}})
        else:
            out.append({'G': deep(unfbits, ans[0]),
                        'signal': deep(unfbits, ans[1]['signal']) if len(ans) > 1 else None})
    return {'steps': out}


def compare(case, impl, model):
    E = _E()
    if isinstance(model, dict) and 'model_error' in model:
        return f'model error {model}'
    if len(model.get('steps', [])) != len(case['steps']) or len(impl['steps']) != len(case['steps']):
        return 'session: number of judged steps differs from the number of steps'
    for i, (st, a, b) in enumerate(zip(case['steps'], impl['steps'], model['steps'])):
        tag = f"session step {i} ({st['op']}; reuse {','.join(a.get('reuse', [])) or '-'}): "
        if st['op'] == 'dataset':
            d = E._compare_single(st['case'], a, b)
            if d:
                return tag + d
        elif st['op'] == 'design':
            d = first_diff(a['design'], b['design'], 0, 0, 'make_design')
            if d:
                return tag + d
        else:
            if 'exc' in a:
                if st['scc'] is not None and st['n_ch'] < len(st['pts']):
                    continue
                return tag + f"make_signal raised {a['exc']}"
            n = len(st['pts'])
            gs = max(1.0, max(abs(x) for r in b['G'] for x in r))
            d = first_diff(a['G'], b['G'], 1e-9, 1e-9 * gs, 'G handed to make_signal vs model')
            if d:
                return tag + d
            if a['shape'] != [n, st['n_ch']]:
                return tag + f"make_signal returned shape {a['shape']}, expected {[n, st['n_ch']]}"
            if a['n_calls'] != 1 or b['signal'] is None:
                return tag + 'make_signal: draw / factorisation results not recorded'
            sc = max(1.0, max(abs(x) for r in a['signal'] for x in r))
            d = first_diff(a['signal'], b['signal'], 1e-9, 1e-9 * sc, 'make_signal vs model')
            if d:
                return tag + d
        if a.get('intact'):
            return tag + f"argument no longer bit-identical after the call: {a['intact']}"
    if impl.get('clobbered'):
        return 'session: ' + impl['clobbered']
    return None


# ------------------------------------------------------------------ features

def features(case, impl):
    E = _E()
    b = ['session:' + case['skind'].split(':')[0]] if len(case['steps']) > 1 else []
    ops = [st['op'] for st in case['steps']]
    n_ds = ops.count('dataset')
    if len(case['steps']) >= 3:
        b.append('session:len>=3')
    if isinstance(impl, dict) and 'steps' in impl:
        for i, (st, r) in enumerate(zip(case['steps'], impl['steps'])):
            for t in r.get('reuse', []):
                b.append('session:' + t)
            if st['op'] == 'dataset' and i > 0 and 'exc' not in r:
                sub = st['case']
                if E._claims_rdm(sub):
                    b.append('session:claimed-later')
                if E._claims_general(sub):
                    b.append('session:claimed-later:general')
                if 'pts2' in sub and 'same-name' in r.get('reuse', []):
                    b.append('session:same-name:stack')
        if all(not r.get('intact') for r in impl['steps']):
            b.append('session:intact')
        if not impl.get('clobbered'):
            b.append('session:kept')
    return {'cond_mode': 'session', 'skind': case['skind'], 'n_steps': len(case['steps']),
            'n_dataset_calls': n_ds, 'branches': sorted(set(b))}


def nontrivial_key(case):
    if len(case['steps']) < 2:
        return None
    return ['session', _E()._key(case)]


BRANCHES = ['session:same-name', 'session:same-model', 'session:edit-rdm', 'session:edit-rdm:inplace',
            'session:edit-rdm:rebind', 'session:reuse-cond', 'session:reuse-cov', 'session:reuse-theta',
            'session:edit-theta', 'session:relabel', 'session:make-signal', 'session:reuse-g', 'session:make-design',
            'session:design-scribble', 'session:mixed', 'session:len>=3', 'session:claimed-later',
            'session:claimed-later:general', 'session:same-name:stack', 'session:intact', 'session:kept']


# ------------------------------------------------------------------ oracle

def _fail(what, observed, expected, **feat):
    return {'what': what, 'observed': observed, 'expected': expected, 'features': feat}


def oracle(case):
    """every step judged on its own from the step's own numbers; arguments bit-identical after every
    call; what earlier calls returned is untouched at the end"""
    E = _E()
    pool, kept = {}, []
    for i, st in enumerate(case['steps']):
        log = []
        tag = f"session step {i} ({st['op']}): "
        if st['op'] == 'dataset':
            objs = _bind(pool, st, log)
            if 'edit-theta' in log:
                for kp in kept:
                    kp[4] = True
            sub = st['case']
            o = E._oracle_single(sub, objs=objs)
            if o:
                o = dict(o, what=tag + f"[reuse {','.join(log) or '-'}] " + o['what'])
                o['features'] = dict(o.get('features', {}), session=True, step=i, reuse=log)
                return o
            w = _intact(st, objs)
            if w:
                return _fail(tag + f'make_dataset changed its argument {w} (no longer bit-identical to a '
                             f'pristine copy of what was passed)', 'modified', 'unchanged',
                             failure='argument_modified', session=True, step=i, which=w)
            # one more call whose datasets are kept until the end of the session
            try:
                dss, _ = E._call(sub, objs=objs)
            except (ValueError, TypeError, AssertionError, np.linalg.LinAlgError):
                dss = []
            kept.append([i, 'dataset', dss, _snap_datasets(dss), False])
        elif st['op'] == 'design':
            one = {'kind': 'design_only', 'n_cond': st['n_cond'], 'n_part': st['n_part']}
            o = E._oracle_single(one)
            if o:
                return dict(o, what=tag + o['what'], features=dict(o.get('features', {}), session=True, step=i))
            cv, pv = sim.make_design(st['n_cond'], st['n_part'])
            if st.get('scribble'):
                if np.size(cv):
                    cv[...] = -7
                    pv += 3
            else:
                kept.append([i, 'design', (cv, pv), (np.array(cv, copy=True), np.array(pv, copy=True)), False])
        else:
            o = _oracle_signal(st, pool, kept, i, tag)
            if o:
                return o
    for i, kind, live, snap, th in kept:
        if kind == 'dataset':
            w = _kept_datasets(live, snap, th)
        else:
            w = None if all(np.array_equal(a, b) for a, b in zip(live, snap)) else 'returned array'
        if w:
            return _fail(f'session step {i}: {w} changed after the call had returned (a later call of the '
                         f'session wrote into it)', 'changed', 'what the call returned',
                         failure='result_clobbered', session=True, step=i)
    return None


def _oracle_signal(st, pool, kept, i, tag):
    E = _E()
    n = len(st['pts'])
    g0 = _gram_float(st['pts'])
    g = pool.get(st.get('g'))
    if not (isinstance(g, np.ndarray) and _same(g, g0)):
        g = np.array(g0, copy=True)
        if st.get('g'):
            pool[st['g']] = g
    chol = None if st['scc'] is None else np.linalg.cholesky(np.array(st['scc'], dtype=float))
    np.random.seed(st['seed'])
    try:
        out = np.asarray(sim.make_signal(g, st['n_ch'], st['exact'], chol), dtype=float)
    except (ValueError, TypeError, AssertionError, np.linalg.LinAlgError) as exc:
        if st['scc'] is not None and st['n_ch'] < n:
            return None
        return _fail(tag + 'make_signal raised on a valid request', type(exc).__name__, 'a signal',
                     failure='exception', session=True, step=i)
    if out.shape != (n, st['n_ch']):
        return _fail(tag + 'shape of the signal', list(out.shape), [n, st['n_ch']], failure='shape',
                     session=True, step=i)
    if not _same(g, g0):
        return _fail(tag + 'make_signal changed its argument G', 'modified', 'unchanged',
                     failure='argument_modified', session=True, step=i, which='G')
    if st['exact'] and st['scc'] is None and st['n_ch'] >= n:
        ge = E._gram_exact(E._dvec(st['pts']), n)
        sc = max([abs(float(x)) for r in ge for x in r] + [1e-12])
        for a in range(n):
            for b in range(n):
                got = sum(float(out[a][c]) * float(out[b][c]) for c in range(st['n_ch'])) / st['n_ch']
                if not abs(got - float(ge[a][b])) <= E.TOL_EXACT * sc:
                    return _fail(tag + f'exact signal: second moment S S^T / n_channel, entry ({a},{b}) != G of '
                                 f'the matrix passed', got, float(ge[a][b]), failure='exact_signal',
                                 session=True, step=i)
    kept.append([i, 'signal', (out,), (np.array(out, copy=True),), False])
    return None


# ------------------------------------------------------------------ shrinking

def shrink(case, still_fails):
    """shortest failing step sequence first, then simpler steps"""
    E = _E()
    cur = copy.deepcopy(case)

    def attempt(c):
        nonlocal cur
        try:
            if c['steps'] and still_fails(c):
                cur = c
                return True
        except Exception:  # noqa: BLE001
            pass
        return False
    changed = True
    while changed and len(cur['steps']) > 1:
        changed = False
        for i in range(len(cur['steps']) - 1, -1, -1):
            if attempt(dict(cur, steps=cur['steps'][:i] + cur['steps'][i + 1:])):
                changed = True
                break
    if len(cur['steps']) == 1 and cur['steps'][0]['op'] == 'dataset':
        # not a matter of reuse: hand the single call to the ordinary shrinker
        one = cur['steps'][0]['case']
        if attempt_single(still_fails, one):
            return E.shrink(one, still_fails)
    # simpler parameters of every dataset step, all steps at once where they must stay aligned
    for upd in ({'n_sim': 1}, {'n_part': 1}, {'ncc': None}, {'nct': None}, {'same': False}, {'signal': 1.0},
                {'argform': 'float'}, {'zlayout': 'C'}):
        steps = []
        for st in cur['steps']:
            if st['op'] == 'dataset' and all(k in st['case'] for k in upd):
                st = dict(st, case=dict(st['case'], **upd))
            steps.append(st)
        if steps != cur['steps']:
            attempt(dict(cur, steps=steps))
    for i, st in enumerate(cur['steps']):
        if st['op'] != 'dataset':
            continue
        for upd in ({'n_sim': 1}, {'signal': 1.0}, {'seed': 0}, {'same': False}):
            if any(st['case'].get(k) != v for k, v in upd.items()):
                steps = list(cur['steps'])
                steps[i] = dict(cur['steps'][i], case=dict(cur['steps'][i]['case'], **upd))
                attempt(dict(cur, steps=steps))
    return cur


def attempt_single(still_fails, one):
    try:
        return bool(still_fails(one))
    except Exception:  # noqa: BLE001
        return False
