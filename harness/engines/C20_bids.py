"""C20 / BIDS: parse ∘ format round trip and the look-ups (io/bids.py)."""
import itertools

OPT = ['ses', 'task', 'run', 'space', 'desc', 'derivative']      # the 2^6 presence patterns
ENTS = ['derivative', 'sub', 'ses', 'task', 'run', 'space', 'desc', 'modality', 'suffix', 'ext']
ALNUM = 'abcdefghijklmnopqrstuvwxyzABCDEFGHIJKLMNOPQRSTUVWXYZ0123456789'
TRICKY = ['sub', 'ses', 'run', 'task', 'space', 'desc', 'None', 'derivatives', '01', 'x', 'run1',
          'subses', 'v', 'func', '0', 'a.b', 'A']
SUFFIXES = ['bold', 'mask', 'events', 'T1w', 'dseg', 'timeseries', 'sub', 'run', 'epo', 'x']
EXTS = ['nii', 'nii.gz', 'tsv', 'json', 'fif', 'dtseries.nii', 'tar-1.gz', 'h5', 'a.b.c', '']
MODS = ['func', 'anat', 'fmap', 'meg', 'derivatives', 'x.y', 'sub-9', 'be_h']
DERIVS = ['fmriprep', 'my-pipe', 'fs.7', 'rsa_v1', 'sub-1', 'derivatives']


def label(rng):
    if rng.random() < 0.25:
        return rng.choice(TRICKY)
    return ''.join(rng.choice(ALNUM) for _ in range(rng.randint(1, 6)))


def fmt(ent):
    """independent formatter from the BIDS naming rules (not from bids.py)"""
    dirs = []
    if ent['derivative'] is not None:
        dirs += ['derivatives', ent['derivative']]
    dirs.append('sub-' + ent['sub'])
    if ent['ses'] is not None:
        dirs.append('ses-' + ent['ses'])
    dirs.append(ent['modality'])
    name = ['sub-' + ent['sub']]
    for k in ('ses', 'task', 'run', 'space', 'desc'):
        if ent[k] is not None:
            name.append(f'{k}-{ent[k]}')
    name.append(ent['suffix'] + '.' + ent['ext'])
    return '/'.join(dirs + ['_'.join(name)])


def make_case(rng, bits, noise=None):
    ent = {k: None for k in ENTS}
    ent['sub'] = label(rng)
    for k, b in zip(OPT, bits):
        if b:
            ent[k] = rng.choice(DERIVS) if k == 'derivative' else label(rng)
    ent['modality'] = rng.choice(MODS)
    ent['suffix'] = rng.choice(SUFFIXES) if rng.random() < 0.7 else label(rng).replace('.', '')
    ent['ext'] = rng.choice(EXTS)
    path = fmt(ent)
    case = {'kind': 'bids', 'path': path, 'valid': True, 'ent': ent, 'canonical': path,
            'pattern': sum(b << i for i, b in enumerate(bits)),
            'desc': label(rng), 'suffix': rng.choice(SUFFIXES)}
    r = rng.random()
    if noise is None:
        noise = 'dot' if r < 0.08 else 'slash' if r < 0.16 else ''
    if noise == 'dot':
        case['path'] = './' + path
        case['noise'] = 'dot'
    elif noise == 'slash':
        case['path'] = path.replace('/', '//', 1)
        case['noise'] = 'slash'
    return case


MALFORMED = [
    'sub-01_bold.nii', 'sub-01/sub-01_bold.nii', 'derivatives', 'derivatives/fmriprep',
    'derivatives/fmriprep/sub-01_bold.nii', 'sub-01/ses-02/sub-01_ses-02_bold.nii',
    'sub-01/func/sub-01_ses-_bold.nii', 'sub-01/func/bold', '', 'sub-01/func/',
    'sub-01/func/sub-01_run-1_run-2_bold.nii', 'sub-01/func/sub-01_task-a-task-b_bold.nii.gz',
    'sub-01/func/sub-01_desc-sub-x_mask.nii', 'a/b/c/d/e_f.g',
]


def gen(rng, tier):
    reps = 4 if tier == 'quick' else 300
    # directed skeleton: every branch tag is reached whatever the PRNG draws
    yield make_case(rng, (1, 1, 1, 1, 1, 1), noise='dot')
    yield make_case(rng, (0, 1, 0, 1, 0, 0), noise='slash')
    for _ in range(reps):
        for bits in itertools.product([0, 1], repeat=6):
            yield make_case(rng, bits)
    for p in MALFORMED:
        yield {'kind': 'bids', 'path': p, 'valid': False, 'desc': 'brain', 'suffix': 'mask',
               'pattern': None}


UNSET = '<unset>'


def _ent_of(f):
    return {k: getattr(f, k, None) for k in ENTS}


def _file_view(make):
    from rsatoolbox.io.bids import BidsFile
    try:
        f = make()
    except Exception as exc:  # noqa: BLE001
        return {'exc': type(exc).__name__}
    if isinstance(f, str):
        path = f
        try:
            f = BidsFile(path, None)
        except Exception as exc:  # noqa: BLE001
            return {'path': path, 'exc': type(exc).__name__}
    return {'path': f.relpath, 'ent': _ent_of(f), 'modality_set': hasattr(f, 'modality')}


def impl(case):
    from rsatoolbox.io.bids import BidsFile, BidsLayout, BidsMriFile
    layout = BidsLayout('/data/root')
    try:
        f = BidsMriFile(case['path'], layout, None)
    except Exception as exc:  # noqa: BLE001
        return {'exc': type(exc).__name__}
    try:
        key = layout.find_table_key_for(f).relpath
    except Exception as exc:  # noqa: BLE001
        # the key file has no modality directory; only its path is of interest
        key = {'exc': type(exc).__name__}
    return {
        'ent': _ent_of(f), 'modality_set': hasattr(f, 'modality'),
        'rebuilt': _file_view(lambda: layout._replace(f, {})),
        'meta': _file_view(lambda: layout.find_meta_for(f)),
        'events': _file_view(lambda: layout.find_events_for(f)),
        'table': _file_view(lambda: layout.find_table_sibling_of(f, case['desc'], case['suffix'])),
        'mri': _file_view(lambda: layout.find_mri_sibling_of(f, case['desc'], case['suffix'])),
        'key': key,
    }


def requests(case):
    return [{'op': 'c20.bids', 'path': case['path'], 'desc': case['desc'], 'suffix': case['suffix']}]


def result(case, answers):
    return answers[0]


LOOKUPS = {
    'rebuilt': lambda c: {},
    'meta': lambda c: {'ext': 'json'},
    'events': lambda c: {'derivative': None, 'space': None, 'desc': None, 'suffix': 'events', 'ext': 'tsv'},
    'table': lambda c: {'desc': c['desc'], 'suffix': c['suffix'], 'ext': 'tsv', 'space': None},
    'mri': lambda c: {'desc': c['desc'], 'suffix': c['suffix']},
}


def oracle(case):
    """the property on the real code: entities recovered, path rebuilt, look-ups change only
    what they are asked to change"""
    if not case.get('valid'):
        return None
    out = impl(case)
    want = case['ent']
    feats = {'bids_pattern': case['pattern']}
    if 'exc' in out:
        return {'what': 'valid BIDS path rejected', 'observed': out, 'expected': want, 'features': feats}
    if out['ent'] != want:
        return {'what': 'entities parsed from a valid BIDS path differ from the encoded ones',
                'observed': out['ent'], 'expected': want, 'features': feats}
    for name, chg in LOOKUPS.items():
        exp_ent = dict(want, **chg(case))
        got = out[name]
        if got.get('ent') != exp_ent:
            return {'what': f'{name}: look-up changed other entities than asked (or lost some)',
                    'observed': got, 'expected': exp_ent, 'features': feats}
        if got.get('path') != fmt(exp_ent):
            return {'what': f'{name}: path is not the BIDS path of the expected entities',
                    'observed': got.get('path'), 'expected': fmt(exp_ent), 'features': feats}
    if out['rebuilt'].get('path') != case['canonical']:
        return {'what': 'rebuilding the path from the parsed entities does not return the path',
                'observed': out['rebuilt'].get('path'), 'expected': case['canonical'], 'features': feats}
    return None


def feats(case, impl_res):
    b = []
    if case.get('valid'):
        b.append('bids:valid')
        b.append('bids:pat%02d' % case['pattern'])
        if case['ent']['derivative'] is not None:
            b.append('bids:deriv')
        if case['ent']['ses'] is not None:
            b.append('bids:ses')
        if case.get('noise'):
            b.append('bids:noise')
    else:
        b.append('bids:malformed')
        if isinstance(impl_res, dict) and impl_res.get('modality_set') is False:
            b.append('bids:no_modality')
        if isinstance(impl_res, dict) and 'exc' in impl_res:
            b.append('bids:index_error')
    return {'kind': 'bids', 'bids_pattern': case.get('pattern'), 'branches': b}


BRANCHES = ['bids:valid', 'bids:deriv', 'bids:ses', 'bids:noise', 'bids:malformed',
            'bids:no_modality', 'bids:index_error'] + ['bids:pat%02d' % i for i in range(64)]
