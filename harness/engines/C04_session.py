"""C04 engine library, part 5 (round 4): REUSE SESSIONS.

A session case is ONE data RDMs object, ONE list of model objects and the parameter arrays, analysed
by a sequence of steps:

    {'session': 1,
     'base':  {'n_cond', 'vecs', 'rdm_groups', 'pat_groups', 'desc_form', 'models'},   # the content
     'steps': [{'kind': 'call', 'routine': ..., 'method': ..., 'seed': ..., options ...,
                'theta': ..., 'label': 'a', ['rerun': 'a']},
               {'kind': 'edit', 'what': 'data' | 'theta' | 'desc', ...}, ...]}

  * `call`  one evaluation routine on the shared objects (a step with `rerun` repeats the labelled
            earlier call: same options, same seed, same objects);
  * `edit`  a legitimate in-place operation of the *user* between two calls: new values written into
            a row of `data.dissimilarities`, into the parameter arrays, or into a grouping
            descriptor.  After an edit the content of the case is the edited content.

What is demanded of every call `k` (state that survives a call must not exist):
  1. its stored numbers are those of the stand-alone call on pristine copies of the content at that
     moment (`step_case`): compared with the Lean model, with a fresh stand-alone run of the same
     routine on freshly built objects (bit-identical) and, in the oracle, with the plain-loop
     computation from the numbers of the case;
  2. data, models (`rdm_obj`, `rdm`), descriptors and parameter arrays are bit-identical to freshly
     built ones after the call;
  3. a `rerun` step reproduces the labelled call bit-identically;
  4. at the end of the session every earlier Result still holds the numbers it held when returned.
"""
import copy
import itertools
import warnings

import numpy as np

import lean
import engines.C04_lib as L

CONTENT = ('n_cond', 'vecs', 'rdm_groups', 'pat_groups', 'desc_form', 'models')


# ------------------------------------------------------------------ content of the moment

def step_case(cur, st):
    """the ordinary single-call case of a call step on the content `cur`"""
    c = {k: copy.deepcopy(cur[k]) for k in CONTENT if k in cur}
    c.update({k: copy.deepcopy(v) for k, v in st.items() if k not in ('kind', 'label', 'rerun')})
    return c


def apply_edit_json(cur, theta, st):
    """the content after a user edit (pure, on the JSON numbers); returns (content, theta)"""
    cur = copy.deepcopy(cur)
    theta = copy.deepcopy(theta)
    if st['what'] == 'data':
        cur['vecs'][st['row']] = list(st['vec'])
    elif st['what'] == 'desc':
        cur['rdm_groups'][st['pos']] = st['value']
    elif st['what'] == 'theta':
        theta = copy.deepcopy(st['theta'])
    return cur, theta


def apply_edit_objects(data, th, st, ctx):
    """the same edit, in place on the shared objects"""
    if st['what'] == 'data':
        data.dissimilarities[st['row'], :] = np.array(st['vec'], dtype=float) / L.SCALE
    elif st['what'] == 'desc':
        data.rdm_descriptors[ctx.rd][st['pos']] = st['value']
    elif st['what'] == 'theta':
        for obj, new in zip(th, st['theta']):
            if isinstance(obj, np.ndarray):
                obj[...] = np.array(new, dtype=float)


def contents(case):
    """per step: the content (and current parameter values) it works on"""
    cur, theta = copy.deepcopy(case['base']), None
    out = []
    for st in case['steps']:
        if st['kind'] == 'edit':
            cur, theta = apply_edit_json(cur, theta, st)
            out.append(None)
            continue
        sc = step_case(cur, st)
        theta = copy.deepcopy(sc.get('theta'))
        out.append(sc)
    return out


# ------------------------------------------------------------------ snapshots (bit level)

def _bits(a):
    a = np.asarray(a)
    return [str(a.dtype), list(a.shape), a.tobytes().hex()]


def _desc(v):
    vals = list(v)
    dt = getattr(v, 'dtype', None)
    # (string width is not content: an edit in place keeps the old width)
    return [type(v).__name__, '' if dt is None else (dt.kind if dt.kind in 'US' else str(dt)),
            [[type(L.norm(x)).__name__, L.norm(x) if not isinstance(L.norm(x), float) else repr(L.norm(x))]
             for x in vals]]


def _index_values(v):
    return ['index-by-value', [int(x) for x in v]]


def snap_rdms(r, loose_index=False):
    """`loose_index`: the default `index` descriptors are compared by value only.  `bootstrap_testset*`
    re-create them in the caller's object (`data.pattern_descriptors['index'] = np.arange(data.n_cond)`, a list
    becomes an ndarray of the same numbers) — the 5 statements counted by the leaf `testsetIndexDefaults`; see
    notes/C04-observation-testset-index-write.diff.  Everything else stays bit-level."""
    def d(k, v):
        return _index_values(v) if (loose_index and k == 'index') else _desc(v)
    return {'dis': _bits(r.dissimilarities),
            'rd': {k: d(k, v) for k, v in sorted(r.rdm_descriptors.items())},
            'pd': {k: d(k, v) for k, v in sorted(r.pattern_descriptors.items())},
            'd': sorted((str(k), str(v)) for k, v in r.descriptors.items()),
            'measure': str(r.dissimilarity_measure)}


def snap_model(m):
    return {'cls': type(m).__name__, 'name': m.name, 'n_param': int(m.n_param),
            'rdm': _bits(m.rdm), 'rdm_obj': snap_rdms(m.rdm_obj),
            'fitter': getattr(m.default_fitter, '__name__', '?')}


def snap_theta(th):
    if th is None:
        return None
    return [None if t is None else (['int', int(t)] if isinstance(t, (int, np.integer)) else _bits(t))
            for t in th]


def snapshot(data, models, th, loose_index=False):
    return {'data': snap_rdms(data, loose_index), 'models': [snap_model(m) for m in models], 'theta': snap_theta(th)}


def snap_diff(a, b, path=''):
    """first difference of two snapshots, as a short text (None = identical)"""
    if type(a) is not type(b):
        return f'{path}: {type(a).__name__} != {type(b).__name__}'
    if isinstance(a, dict):
        for k in sorted(set(a) | set(b)):
            if k not in a or k not in b:
                return f'{path}.{k}: present on one side only'
            d = snap_diff(a[k], b[k], f'{path}.{k}')
            if d:
                return d
        return None
    if isinstance(a, list):
        if len(a) == 3 and isinstance(a[2], str) and isinstance(a[1], list) and a != b:
            if a[:2] == b[:2]:
                x = np.frombuffer(bytes.fromhex(a[2]), dtype=a[0])
                y = np.frombuffer(bytes.fromhex(b[2]), dtype=b[0])
                k = int(np.flatnonzero(~((x == y) | ((x != x) & (y != y))))[0]) if x.shape == y.shape and \
                    (~((x == y) | ((x != x) & (y != y)))).any() else 0
                return f'{path}: array entry {k}: {x.ravel()[k]!r} != {y.ravel()[k]!r}'
            return f'{path}: array {a[:2]} != {b[:2]}'
        if len(a) != len(b):
            return f'{path}: length {len(a)} != {len(b)}'
        for k, (x, y) in enumerate(zip(a, b)):
            d = snap_diff(x, y, f'{path}[{k}]')
            if d:
                return d
        return None
    return None if a == b else f'{path}: {a!r} != {b!r}'


def state_bits(data, models):
    """what the Lean session threads: the dissimilarities of the data and of the models, as bits"""
    return {'vecs': [[lean.fbits(x) for x in row] for row in np.asarray(data.dissimilarities, dtype=float)],
            'models': [[[lean.fbits(x) for x in row]
                        for row in np.atleast_2d(np.asarray(m.rdm_obj.dissimilarities, dtype=float))]
                       for m in models]}


# ------------------------------------------------------------------ running a session

_CACHE = {}


def _run_call(sc, data, models, th):
    """one routine call on the given (shared) objects under the taps -> observation, Result object"""
    ctx = L.Ctx(sc)
    out, res = {}, None
    with warnings.catch_warnings():
        warnings.simplefilter('ignore')
        try:
            np.random.seed(sc['seed'])
            rng = L.RngTap(sc.get('script'))
            tap = L.CallTap(sc, ctx, models)
            try:
                with rng, tap:
                    res = L.call_routine(sc, data, models, ctx, tap, th)
            finally:
                out['log'], out['fits'], out['ncs'] = rng.log, tap.fits, tap.ncs
            out['result'] = L.canon_result(sc, res)
            if 'meta' in out['result'] and tap.result_kw:
                kw = tap.result_kw[-1]
                out['result']['meta'].update(
                    has_variances=bool(kw['has_variances']),
                    passed_n_rdm=None if kw['n_rdm'] is None else int(kw['n_rdm']),
                    passed_n_pattern=None if kw['n_pattern'] is None else int(kw['n_pattern']))
        except BaseException as exc:  # noqa: BLE001
            if isinstance(exc, (KeyboardInterrupt, SystemExit)):
                raise
            name = type(exc).__name__
            tb, files = exc.__traceback__, []
            while tb is not None:
                files.append(tb.tb_frame.f_code.co_filename)
                tb = tb.tb_next
            if name == 'AssertionError' and files and files[-1].endswith('crossvalsets.py'):
                out['sets_rejected'] = True
            out['exc'] = name if name in ('ValueError', 'TypeError', 'KeyError', 'IndexError',
                                          'AssertionError', 'Warning', 'ZeroDivisionError') \
                else 'other:' + name
            out['msg'] = str(exc)[:200]
    return out, res


def pristine_preds(sc):
    """the models' predictions at the supplied parameters, from freshly built model objects"""
    if not (sc.get('theta') is not None or sc['routine'] in ('fixed', 'bootstrap')):
        return None
    models = L.build_models(sc)
    th = L.thetas(sc, models) or [None] * len(models)
    return [[lean.fbits(x) for x in np.ravel(m.predict(theta=t) if t is not None else m.predict())]
            for m, t in zip(models, th)]


def observe(case, fresh=False):
    """run the whole session on ONE set of objects; per step the observation of the call plus
       `changed`   first difference between the shared objects after the call and freshly built ones
       `fresh`     first difference between the call's result and the stand-alone call on fresh objects
       `rerun`     for rerun steps: first difference to the labelled call
       `late`      (at the end) first difference of the Result object to what it held when returned"""
    k = L.key(case)
    if not fresh and k in _CACHE:
        return _CACHE[k]
    conts = contents(case)
    first = next(c for c in conts if c is not None)
    base0 = {kk: copy.deepcopy(case['base'].get(kk)) for kk in CONTENT}
    with warnings.catch_warnings():
        warnings.simplefilter('ignore')
        data = L.build_data(base0)
        models = L.build_models(base0)
    th, th_json = None, '-'
    cur, cur_theta = copy.deepcopy(case['base']), None
    steps, kept, labelled = [], [], {}
    loose = False                   # set by the first bootstrap_testset* call (see snap_rdms)
    for i, st in enumerate(case['steps']):
        if st['kind'] == 'edit':
            cur, cur_theta = apply_edit_json(cur, cur_theta, st)
            ctx = L.Ctx({kk: cur.get(kk) for kk in CONTENT})
            apply_edit_objects(data, th or [], st, ctx)
            if st['what'] == 'theta':
                th_json = L.key(cur_theta)
            steps.append({'edit': st['what']})
            continue
        sc = conts[i]
        cur_theta = copy.deepcopy(sc.get('theta'))
        if L.key(sc.get('theta')) != th_json or th is None:      # new values: new objects
            th = L.thetas(sc, models)
            th_json = L.key(sc.get('theta'))
            reused = False
        else:
            reused = th is not None
        o, res = _run_call(sc, data, models, th)
        o['case'] = sc
        o['theta_reused'] = bool(reused)
        pp = pristine_preds(sc)
        if pp is not None:
            o['preds'] = pp
        with warnings.catch_warnings():
            warnings.simplefilter('ignore')
            fd, fm = L.build_data(sc), L.build_models(sc)
            # (bootstrap_testset* used to re-create `index` in the caller's object; repaired, so no exemption)
            o['changed'] = snap_diff(snapshot(data, models, th, loose),
                                     snapshot(fd, fm, L.thetas(sc, fm), loose))
        o['state'] = state_bits(data, models)
        alone = L.observe(sc, fresh=True)                         # stand-alone call, fresh objects
        if 'exc' in o or 'exc' in alone:
            o['fresh'] = None if o.get('exc') == alone.get('exc') else \
                f"reused objects: {o.get('exc', 'a result')}; fresh objects: {alone.get('exc', 'a result')}"
        else:
            o['fresh'] = None if L.key(o['result']) == L.key(alone['result']) else \
                (L.diff_results(sc, o['result'], alone['result'], 'on reused objects', 'on fresh objects')
                 or 'results differ in the last bits')
        o['rerun'] = None
        if st.get('rerun') in labelled:
            j = labelled[st['rerun']]
            if L.key(steps[j]['case']) == L.key(sc):
                a, b = steps[j], o
                o['rerun_of'] = j
                if a.get('exc') != b.get('exc') or L.key(a.get('result')) != L.key(b.get('result')):
                    o['rerun'] = (L.diff_results(sc, b.get('result', {}), a.get('result', {}),
                                                 'rerun', 'first run') if 'result' in a and 'result' in b
                                  else None) or f'rerun of call {j} is not bit-identical'
        if st.get('label'):
            labelled[st['label']] = i
        if res is not None and 'result' in o:
            kept.append((i, sc, res, L.key(L.canon_result(sc, res))))
        steps.append(o)
    for i, sc, res, was in kept:
        now = L.canon_result(sc, res)
        steps[i]['late'] = None if L.key(now) == was else \
            (L.diff_results(sc, now, steps[i]['result'], 'at the end of the session', 'when returned')
             or 'stored numbers changed in the last bits')
    out = {'steps': steps, 'state0': None}
    with warnings.catch_warnings():
        warnings.simplefilter('ignore')
        out['state0'] = state_bits(L.build_data(base0), L.build_models(base0))
    if not fresh:
        if len(_CACHE) > 400:
            _CACHE.clear()
        _CACHE[k] = out
    return out


# ------------------------------------------------------------------ engine callbacks

def run_impl(case):
    S = observe(case)
    out = []
    for o in S['steps']:
        if 'edit' in o:
            out.append({'edit': o['edit']})
            continue
        r = {'exc': o['exc'], 'msg': o.get('msg')} if 'exc' in o else dict(o['result'])
        r = {'res': r}
        for k in ('changed', 'fresh', 'rerun', 'late'):
            r[k] = o.get(k)
        r['state'] = o['state']
        out.append(r)
    return {'session': out}


def model_requests(case):
    """ONE driver request: the initial content and the steps; the Lean side threads the content
    through the calls (`Rsa.Eval.runSession`) and answers every call from the content it is handed"""
    S = observe(case)
    steps = []
    state = copy.deepcopy(S['state0'])
    cur, theta = copy.deepcopy(case['base']), None
    for st, o in zip(case['steps'], S['steps']):
        if 'edit' in o:
            # the content after the user's edit, from the numbers of the case
            cur, theta = apply_edit_json(cur, theta, st)
            state = dict(state, vecs=[[lean.fbits(x) for x in row] for row in L.data_array(cur)])
            steps.append({'kind': 'edit', 'state': copy.deepcopy(state)})
            continue
        steps.append({'kind': 'call', 'req': L.model_request(o['case'], o)})
    return [{'op': 'c04.session', 'state': S['state0'], 'steps': steps}]


def model_result(case, answers):
    S = observe(case)
    a = answers[0] if answers else None
    if not isinstance(a, dict) or 'calls' not in a:
        return {'model_error': a}
    out = []
    calls = iter(a['calls'])
    for o in S['steps']:
        if 'edit' in o:
            out.append({'edit': o['edit']})
            continue
        ans = next(calls, {})
        sc = o['case']
        exp = L.expected_exception(sc)
        r = ans.get('answer')
        if r is None:
            res = {'exc': exp or 'unmodelled'}
        elif isinstance(r, dict) and 'model_error' in r:
            res = r
        elif exp:
            res = {'exc': exp}
        else:
            res = L.model_canon(sc, r)
        out.append({'res': res, 'state': ans.get('state')})
    return {'session': out}


def compare(case, impl, model):
    if 'model_error' in model:
        return f'model error {model}'
    for k, (a, b) in enumerate(zip(impl['session'], model['session'])):
        if 'edit' in a:
            continue
        sc = contents(case)[k]
        tag = f"call {k} ({sc['routine']}, {sc['method']})"
        ra, rb = a['res'], b['res']
        if isinstance(rb, dict) and 'model_error' in rb:
            return f'{tag}: model error {rb}'
        if 'exc' in ra or 'exc' in rb:
            if ra.get('exc') != rb.get('exc'):
                return f"{tag}: library {ra.get('exc')} ({ra.get('msg')}) vs model {rb.get('exc')}"
        else:
            d = L.diff_results(sc, ra, rb, 'library', 'model')
            if d:
                return f'{tag}: {d}'
        if a['changed']:
            return f"{tag}: inputs are not bit-identical after the call: {a['changed']}"
        if b.get('state') is not None and L.key(a['state']) != L.key(b['state']):
            return f'{tag}: content of the objects after the call differs from the threaded content of the model'
        if a['fresh']:
            return f"{tag}: differs from the stand-alone call on fresh objects: {a['fresh']}"
        if a['rerun']:
            return f"{tag}: same-seed rerun on the same objects: {a['rerun']}"
        if a.get('late'):
            return f"{tag}: Result changed after it was returned: {a['late']}"
    return None


# ------------------------------------------------------------------ oracle

def oracle(case):
    from engines.C04_plain import judge_call
    S = observe(case, fresh=True)
    calls = [(k, o) for k, o in enumerate(S['steps']) if 'edit' not in o]
    for k, o in calls:
        sc = o['case']
        feats = {'routine': sc['routine'], 'bt': sc.get('bt'), 'session_step': k}
        tag = f"call {k} of the session ({sc['routine']}, {sc['method']})"
        v = judge_call(sc, o, None)           # plain-loop computation from the numbers of the case
        if v:
            v = dict(v)
            v['what'] = f"{v['what']} [on reused objects]"
            v['observed'] = f"{tag}: {v['observed']}"
            v['features'] = dict(v.get('features', {}), **feats)
            return v
        if o.get('changed'):
            return {'what': 'a call changed its inputs in place', 'observed': f"{tag}: {o['changed']}",
                    'expected': 'data, models and parameters bit-identical after the call',
                    'features': dict(feats, kind='inputs')}
        if o.get('fresh'):
            return {'what': 'a call on reused objects does not reproduce the stand-alone call on pristine copies',
                    'observed': f"{tag}: {o['fresh']}", 'expected': 'bit-identical results (same seed)',
                    'features': dict(feats, kind='reuse')}
        if o.get('rerun'):
            return {'what': 'a rerun with the same random seed does not reproduce the result [on reused objects]',
                    'observed': f"{tag}: {o['rerun']}", 'expected': 'bit-identical arrays',
                    'features': dict(feats, kind='determinism')}
    for k, o in calls:
        if o.get('late'):
            sc = o['case']
            return {'what': 'a stored Result was changed by a later call',
                    'observed': f"call {k} ({sc['routine']}): {o['late']}",
                    'expected': 'the numbers it held when returned',
                    'features': {'routine': sc['routine'], 'bt': sc.get('bt'), 'session_step': k,
                                 'kind': 'late'}}
    return None


# ------------------------------------------------------------------ generator

SHIFT_SENSITIVE = ['cosine']
ORDERS = [('corr', 'cosine'), ('spearman', 'cosine'), ('rho-a', 'corr'), ('cosine', 'corr'),
          ('corr', 'tau-a'), ('cosine', 'spearman')]
S_ROUTINES = ['fixed', 'bootstrap', 'crossval', 'bcv', 'dual', 'random', 'testset']


def call_options(rng, routine, base, method, noceil=False):
    """options of one call of `routine` that are valid on the content `base`"""
    import engines.C04_gen as G
    ctx = L.Ctx(base)
    nr, npat = len(set(ctx.rdesc)), len(set(ctx.pdesc))
    st = {'kind': 'call', 'routine': routine, 'method': method, 'seed': rng.randrange(10 ** 6)}
    need = G.need_theta(base)
    if routine in ('fixed', 'bootstrap'):
        st['theta'] = G.given_theta(rng, base['models']) if need or rng.random() < 0.8 else None
    if routine == 'bootstrap':
        st.update(bt=rng.choice(['both', 'rdm', 'pattern']), N=rng.choice([2, 3]),
                  boot_nc=rng.random() < 0.5)
    elif routine == 'crossval':
        kinds = ['k_fold', 'k_fold_pattern'] + (['k_fold_rdm', 'loo_rdm'] if base.get('pat_groups') is None
                                                else [])
        kind = rng.choice(kinds)
        g = {'kind': kind}
        if kind in ('k_fold', 'k_fold_rdm'):
            g['kr'] = rng.randint(1 if kind == 'k_fold' else 2, max(2, min(3, nr)))
            g['random'] = rng.random() < 0.7
        if kind in ('k_fold', 'k_fold_pattern'):
            g['kp'] = rng.randint(1, max(1, min(2, npat // 3)))
            g['random'] = rng.random() < 0.7
        if noceil:
            # round 5: RDM-splitting folds, no `ceil_set` handed over, ceiling computed
            g = {'kind': 'k_fold', 'kr': rng.randint(2, max(2, min(3, nr))), 'kp': 1,
                 'random': rng.random() < 0.7}
        st.update(gen=g, calc_nc=True)
        if 'kp' in g and npat // g['kp'] < 3:
            st['calc_nc'] = False
        if noceil or rng.random() < 0.4:
            st['ceil'] = 'omit'
    elif routine in ('bcv', 'dual', 'random', 'testset'):
        st['bt'] = 'both' if routine == 'dual' else rng.choice(['both', 'rdm', 'pattern'])
        if routine == 'testset' and base.get('pat_groups') is not None and st['bt'] == 'rdm':
            st['bt'] = 'both'
        st['N'] = 2
        if routine in ('bcv', 'dual'):
            st.update(kr=rng.choice([1, 2]), kp=rng.choice([1, 2]), n_cv=rng.choice([1, 2]),
                      use_correction=False)
            if st['n_cv'] == 2:
                st['use_correction'] = rng.random() < 0.6
        if routine == 'random':
            st.update(nr=rng.choice([0, 1]), np=rng.choice([0, 3]), n_cv=rng.choice([1, 2]),
                      use_correction=False)
            if st['n_cv'] == 2:
                st['use_correction'] = rng.random() < 0.6
    if routine not in ('fixed', 'bootstrap'):
        st['fitter'] = 'regress' if method in ('cosine', 'corr') else 'default'
        if st['fitter'] == 'default' and any(m['type'] == 'weighted' for m in base['models']):
            st['method'] = rng.choice(['cosine', 'corr'])       # fit_optimize restarts are slow
            st['fitter'] = 'regress'
    return st


def gen_session(rng, plan=None):
    """one session; `plan` forces the kinds of steps (coverage schedule)"""
    import engines.C04_gen as G
    n_cond, n_rdm = rng.randint(7, 9), rng.randint(3, 5)
    gr, gp = rng.random() < 0.5, rng.random() < 0.3
    if plan == 'edit-desc':
        gr = True
    kinds = [rng.choice(['fixed', 'weighted', 'select', 'interpolate']) for _ in range(rng.randint(1, 3))]
    if plan == 'theta' and not any(k in ('weighted', 'interpolate') for k in kinds):
        kinds[0] = rng.choice(['weighted', 'interpolate'])      # only array parameters can be edited in place
    c = G.base_case(rng, 'fixed', n_rdm, n_cond, kinds, gr, gp, rng.random() < 0.3)
    base = {k: c.get(k) for k in CONTENT if c.get(k) is not None or k in ('rdm_groups', 'pat_groups')}
    if plan == 'edit-desc' and base.get('desc_form') == 'tuple':
        base.pop('desc_form')
    m1, m2 = rng.choice(ORDERS)
    if plan in ('corr-cosine', None) and rng.random() < 0.7 or plan == 'corr-cosine':
        m1, m2 = 'corr', 'cosine'
    routines = [rng.choice(S_ROUTINES) for _ in range(3)]
    if plan in S_ROUTINES:
        routines[1] = plan
    if plan == 'crossval-noceil':
        routines[1] = 'crossval'
    if plan == 'theta':
        routines = [rng.choice(['fixed', 'bootstrap']), rng.choice(['fixed', 'bootstrap']), 'fixed']
    steps = []
    again_after_edit = plan == 'crossval-noceil-edit'
    if again_after_edit:
        # round 5: the SAME crossval call without `ceil_set` (same folds: not shuffled; same method)
        # before and after the user rewrites a data row in place — a per-fold ceiling kept from
        # the first call (keyed by object, method, test conditions) is stale in the second
        routines[0] = routines[1] = 'crossval'
        m2 = m1
    a = call_options(rng, routines[0], base, m1, noceil=again_after_edit)
    if again_after_edit:
        a['gen']['random'] = False
    a['label'] = 'a'
    steps.append(a)
    if plan == 'edit-data' or again_after_edit:
        base_vec = base['vecs'][0]
        steps.append({'kind': 'edit', 'what': 'data', 'row': rng.randrange(n_rdm),
                      'vec': G.rand_vec(rng, n_cond, base_vec)})
    if plan == 'edit-desc':
        vals = base['rdm_groups']
        pos = rng.randrange(n_rdm)
        other = [v for v in vals if v != vals[pos]]
        steps.append({'kind': 'edit', 'what': 'desc', 'pos': pos,
                      'value': rng.choice(other) if other else vals[pos]})
    b = call_options(rng, routines[1], base, m2, noceil=(plan == 'crossval-noceil'))
    if again_after_edit:
        b = {k: copy.deepcopy(v) for k, v in a.items() if k != 'label'}
        b['seed'] = rng.randrange(10 ** 6)
    if plan == 'theta' or (rng.random() < 0.5 and 'theta' in a and 'theta' in b and a['theta'] is not None):
        if a.get('theta') is None:
            a['theta'] = G.given_theta(rng, base['models'])
        b['theta'] = copy.deepcopy(a['theta'])                  # the same arrays are handed over again
        if plan == 'theta':
            new = G.given_theta(rng, base['models'])
            new = [n if isinstance(o, list) else o for n, o in zip(new, a['theta'])]
            steps.append({'kind': 'edit', 'what': 'theta', 'theta': new})
            b['theta'] = copy.deepcopy(new)
    b['label'] = 'b'
    steps.append(b)
    r = rng.random()
    if plan == 'rerun' or r < 0.45:
        again = copy.deepcopy(a if rng.random() < 0.6 else b)
        again['rerun'] = again.pop('label')
        if any(s['kind'] == 'edit' for s in steps) and again['rerun'] == 'a':
            again = copy.deepcopy(b)
            again['rerun'] = again.pop('label')
        steps.append(again)
    elif r < 0.8:
        if plan not in ('edit-data', 'edit-desc', 'theta') and rng.random() < 0.4:
            steps.append({'kind': 'edit', 'what': 'data', 'row': rng.randrange(n_rdm),
                          'vec': G.rand_vec(rng, n_cond, base['vecs'][0])})
        steps.append(call_options(rng, routines[2], base, rng.choice([m1, m2, 'cosine'])))
    return {'session': 1, 'base': base, 'steps': steps}


PLANS = ['corr-cosine', 'rerun', 'theta', 'edit-data', 'edit-desc'] + S_ROUTINES + ['crossval-noceil', 'crossval-noceil-edit']


def generate(rng, tier):
    n = {'quick': 3, 'thorough': 25, 'search': 10 ** 5}.get(tier, 3)
    for _ in range(n):
        for plan in PLANS:
            yield gen_session(rng, plan)


# ------------------------------------------------------------------ features

def features(case, impl):
    S = observe(case)
    conts = contents(case)
    br = set()
    seq = []
    prev = None
    steps_impl = impl.get('session') if isinstance(impl, dict) else None
    edited, before_edit, calls_so_far = False, [], []
    for k, (st, o) in enumerate(zip(case['steps'], S['steps'])):
        if 'edit' in o:
            br.add('session:edit-' + o['edit'])
            if o['edit'] == 'data':
                edited = True
                before_edit = list(calls_so_far)
            continue
        sc = conts[k]
        r = None
        if steps_impl is not None:
            r = steps_impl[k]['res']
        f = L.features(sc, r, obs=o)
        br.update(f['branches'])
        seq.append(sc['routine'])
        if prev is not None and any(t in f['branches'] for t in ('crossval:no_ceil_set:rdm_split',
                                                                 'crossval:no_ceil_set:both_split')):
            br.add('session:crossval:no_ceil_set')
        if prev is not None and edited and sc['routine'] == 'crossval' and not L.ceil_given(sc) \
                and any(p_['routine'] == 'crossval' and not L.ceil_given(p_) and p_['gen'] == sc['gen']
                        and p_['method'] == sc['method'] for p_ in before_edit):
            br.add('session:crossval:no_ceil_set:again-after-edit')
        if prev is not None:
            br.add('session:' + sc['routine'])
            br.add('session:call-after-call')
            if prev['method'] != sc['method']:
                br.add('session:method-change')
            if prev['method'] in ('corr', 'spearman', 'rho-a') and sc['method'] == 'cosine':
                br.add('session:normalising-then-cosine')
            if prev['routine'] != sc['routine']:
                br.add('session:routine-change')
        if o.get('theta_reused'):
            br.add('session:theta-reused')
        if 'rerun_of' in o:
            br.add('session:rerun')
        prev = sc
        calls_so_far.append(sc)
    if len(seq) >= 3:
        br.add('session:3calls')
    return {'routine': 'session', 'session_len': len(seq), 'n_models': len(case['base']['models']),
            'n_rdm': len(case['base']['vecs']), 'n_cond': case['base']['n_cond'],
            'session_routines': '>'.join(seq), 'branches': sorted(br)}


SESSION_BRANCHES = ['session:call-after-call', 'session:method-change', 'session:normalising-then-cosine',
                    'session:routine-change', 'session:rerun', 'session:theta-reused', 'session:3calls',
                    'session:edit-data', 'session:edit-theta', 'session:edit-desc'] + \
                   ['session:' + r for r in S_ROUTINES]


# ------------------------------------------------------------------ shrinking

def shrink(case, still_fails):
    """the shortest failing sub-sequence of the steps (order kept), same kind of failure"""
    o = oracle(case)
    if not o:
        return case
    want = o['what']

    def fails(c):
        try:
            v = oracle(c)
        except Exception:  # noqa: BLE001
            return False
        return bool(v) and v['what'] == want

    steps = case['steps']
    n = len(steps)
    for size in range(1, n):
        for idx in itertools.combinations(range(n), size):
            sub = [copy.deepcopy(steps[i]) for i in idx]
            if not any(s['kind'] == 'call' for s in sub):
                continue
            labels = {s.get('label') for s in sub}
            for s in sub:
                if s.get('rerun') and s['rerun'] not in labels:
                    s.pop('rerun')
            # an edit of the parameter arrays needs the call that created them
            c = {'session': 1, 'base': copy.deepcopy(case['base']), 'steps': sub}
            try:
                if fails(c):
                    return c
            except Exception:  # noqa: BLE001
                continue
    return case
