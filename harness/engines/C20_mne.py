"""C20 / MNE: epochs -> TemporalDataset, descriptors from the file name (io/mne.py)."""
import os
import shutil
import tempfile
from fractions import Fraction as F
from lean import rat

ALNUM = 'abcdefghijklmnopqrstuvwxyz0123456789'
_TMP = None


def tmpdir():
    global _TMP
    if _TMP is None:
        _TMP = tempfile.mkdtemp(prefix='c20mne')
        import atexit
        atexit.register(shutil.rmtree, _TMP, True)
    return _TMP


def lab(rng):
    return ''.join(rng.choice(ALNUM) for _ in range(rng.randint(1, 4)))


def fname(rng):
    ent = {'sub': lab(rng) if rng.random() < 0.9 else None,
           'task': lab(rng) if rng.random() < 0.6 else None,
           'run': lab(rng) if rng.random() < 0.6 else None}
    segs = []
    if ent['sub'] is not None:
        segs.append('sub-' + ent['sub'])
    if rng.random() < 0.3:
        segs.append('ses-' + lab(rng))
    if ent['task'] is not None:
        segs.append('task-' + ent['task'])
    if ent['run'] is not None:
        segs.append('run-' + ent['run'])
    segs.append(rng.choice(['epo.fif', 'meg.fif', 'eeg-epo.fif']))
    return '_'.join(segs), ent


def gen(rng, tier):
    k = 1 if tier == 'quick' else 20
    for _ in range(40 * k):
        name, ent = fname(rng)
        yield {'kind': 'mne_name', 'fname': name, 'expect': ent}
    for name in ['sub-1_sub-2_epo.fif', 'run-3.fif', 'task-_epo.fif', 'subject-1_epo.fif', '',
                 'sub-01_task-a-b_run-1_epo.fif']:
        yield {'kind': 'mne_name', 'fname': name}
    # directed skeleton (i < 0): all epochs share one code; codes repeat and a selection by name
    # keeps a subset; event_id given in non-sorted order; epoch starting at / after / before the event
    directed = {-6: dict(codes=[4, 4, 4, 4]), -5: dict(codes=[2, 1, 2, 1, 2], select=['b']),
                -4: dict(codes=[3, 1, 2, 3, 1], select=['c', 'a'], order=['c', 'b', 'a']),
                -3: dict(codes=[1, 2], first=0), -2: dict(codes=[5, 5, 6], first=7),
                -1: dict(codes=[1, 1], first=-12, select=['a'], nt=16)}
    for i in range(-6, 24 * k):
        d = directed.get(i, {})
        codes = d.get('codes')
        ne, nc, nt = (len(codes) if codes else rng.randint(1, 5)), rng.randint(1, 4), d.get('nt', rng.randint(1, 6))
        sfreq = rng.choice([64, 128, 256, 512])
        data = [[[rat(F(rng.randint(-40, 40), 8)) for _ in range(nt)] for _ in range(nc)]
                for _ in range(ne)]
        samples = sorted(rng.sample(range(0, 400), ne))
        if codes is None:
            pool = rng.choice([[1, 2, 3, 4, 5, 6, 7, 8, 9], [1, 2], [7]])
            codes = [rng.choice(pool) for _ in samples]
        events = [[s, rng.choice([0, 0, 1]), c] for s, c in zip(samples, codes)]
        chs = []
        while len(chs) < nc:
            c = rng.choice(['EEG', 'C', 'Fz', 'MEG']) + str(rng.randint(1, 99))
            if c not in chs:
                chs.append(c)
        case = {'kind': 'mne', 'data': data, 'events': events, 'ch': chs, 'sfreq': sfreq,
                'tmin_samples': d.get('first', rng.randint(-20, 20)), 'via_file': None}
        # event_id: names 'a', 'b', … for the codes present, in sorted or given / shuffled order;
        # selection by name(s) on every third random case
        present = sorted(set(codes))
        names = {c: 'abcdefghi'[j] for j, c in enumerate(present)}
        if 'select' in d or (i >= 0 and i % 3 == 1):
            order = d.get('order') or rng.sample(sorted(names.values()), len(names))
            inv = {v: c for c, v in names.items()}
            case['event_id'] = [[n, inv[n]] for n in order]
            sel = d.get('select') or rng.sample(order, rng.randint(1, len(order)))
            case['select'] = sel
            case['select_codes'] = [inv[n] for n in sel]
        if i >= 0 and i % 8 == 0:
            case['via_file'], case['file_ent'] = fname(rng)
            if not case['via_file'].endswith('epo.fif'):
                case['via_file'] = case['via_file'].rsplit('_', 1)[0] + '_epo.fif' \
                    if '_' in case['via_file'] else 'epo.fif'
        yield case


def times_of(case):
    n = len(case['data'][0][0])
    return [F(case['tmin_samples'] + k, case['sfreq']) for k in range(n)]


def impl(case):
    try:
        return _impl(case)
    except Exception as exc:  # noqa: BLE001
        return {'exc': type(exc).__name__}


def _impl(case):
    from rsatoolbox.io import mne as rmne
    if case['kind'] == 'mne_name':
        d = rmne.descriptors_from_bids_filename(case['fname'])
        return {k: d.get(k) for k in ('sub', 'run', 'task')}
    import mne
    import numpy as np
    data = np.array([[[float(F(x)) for x in ch] for ch in ep] for ep in case['data']])
    info = mne.create_info(case['ch'], float(case['sfreq']), ch_types='eeg', verbose='error')
    ep = mne.EpochsArray(data, info, events=np.array(case['events']),
                         tmin=case['tmin_samples'] / case['sfreq'], verbose='error',
                         event_id=dict(case['event_id']) if case.get('event_id') else None)
    if case.get('select'):
        ep = ep[case['select']]
    descs = None
    if case.get('via_file'):
        path = os.path.join(tmpdir(), case['via_file'])
        ep.save(path, overwrite=True, fmt='double', verbose='error')
        ds = rmne.read_epochs(path)
        descs = {k: ds.descriptors.get(k) for k in ('filename', 'sub', 'run', 'task')}
    else:
        ds = rmne.dataset_from_epochs(ep)
    return {'measurements': ds.measurements.tolist(),
            'event': [int(v) for v in ds.obs_descriptors['event']],
            'channel': [str(c) for c in ds.channel_descriptors['name']],
            'time': [float(t) for t in ds.time_descriptors['time']],
            'descs': descs}


def requests(case):
    if case['kind'] == 'mne_name':
        return [{'op': 'c20.mne_name', 'fname': case['fname']}]
    # the model derives the time axis from the first sample, the rate and the epoch length
    reqs = [{'op': 'c20.mne', 'data': case['data'], 'events': case['events'], 'ch': case['ch'],
             'first': case['tmin_samples'], 'sfreq': case['sfreq'],
             'n_times': len(case['data'][0][0]), 'select': case.get('select_codes')}]
    if case.get('via_file'):
        reqs.append({'op': 'c20.mne_name', 'fname': case['via_file']})
    return reqs


def result(case, answers):
    if case['kind'] == 'mne_name':
        return answers[0]
    a = answers[0]
    if not isinstance(a, dict) or 'measurements' not in a:
        return a
    out = {'measurements': [[[float(F(x)) for x in ch] for ch in ep] for ep in a['measurements']],
           'event': a['event'], 'channel': a['channel'], 'time': [float(F(x)) for x in a['time']],
           'descs': None}
    if case.get('via_file'):
        out['descs'] = dict(answers[1], filename=case['via_file'])
    return out


def oracle(case):
    out = impl(case)
    if case['kind'] == 'mne_name':
        exp = case.get('expect')
        if exp is not None and out != exp:
            return {'what': 'descriptors parsed from an epochs file name differ from the encoded ones',
                    'observed': out, 'expected': exp, 'features': {}}
        return None
    if 'exc' in out:
        return {'what': 'epochs not converted', 'observed': out, 'expected': 'TemporalDataset',
                'features': {}}
    keep = [True] * len(case['events'])
    if case.get('select'):
        keep = [e[2] in case['select_codes'] for e in case['events']]
    data = [[[float(F(x)) for x in ch] for ch in ep] for ep, k_ in zip(case['data'], keep) if k_]
    case = dict(case, events=[e for e, k_ in zip(case['events'], keep) if k_])
    if out['measurements'] != data:
        return {'what': 'temporal dataset measurements differ from the epochs data',
                'observed': out['measurements'][0], 'expected': data[0], 'features': {}}
    if out['event'] != [e[2] for e in case['events']]:
        return {'what': 'observation descriptor is not the event code column',
                'observed': out['event'], 'expected': [e[2] for e in case['events']], 'features': {}}
    if out['channel'] != case['ch']:
        return {'what': 'channel names differ', 'observed': out['channel'], 'expected': case['ch'],
                'features': {}}
    want_t = [float(t) for t in times_of(case)]
    if any(abs(a - b) > 1e-12 for a, b in zip(out['time'], want_t)) or len(out['time']) != len(want_t):
        return {'what': 'time descriptor differs from the epochs times', 'observed': out['time'],
                'expected': want_t, 'features': {}}
    if case.get('via_file'):
        exp = dict(case['file_ent'], filename=case['via_file'])
        got = out['descs']
        for k, v in exp.items():
            if got.get(k) != v:
                return {'what': 'dataset descriptors differ from the epochs file name',
                        'observed': got, 'expected': exp, 'features': {}}
    return None


def feats(case, impl_res):
    if case['kind'] == 'mne_name':
        return {'kind': 'mne_name', 'branches': ['mne:name' if case.get('expect') else 'mne:name_odd']}
    b = ['mne:file' if case.get('via_file') else 'mne:array']
    codes = [e[2] for e in case['events']]
    if len(set(codes)) < len(codes):
        b.append('mne:repeated_ids')
    if case.get('select'):
        b.append('mne:select')
        if len(case['select']) > 1:
            b.append('mne:select_many')
    if case.get('event_id') and [c for _, c in case['event_id']] != sorted(c for _, c in case['event_id']):
        b.append('mne:event_id_order')
    t = case['tmin_samples']
    b.append('mne:tmin_zero' if t == 0 else 'mne:tmin_pos' if t > 0 else 'mne:tmin_neg')
    if t < 0 and -t < len(case['data'][0][0]):
        b.append('mne:time_zero_inside')
    return {'kind': 'mne', 'branches': b}


BRANCHES = ['mne:name', 'mne:name_odd', 'mne:array', 'mne:file', 'mne:repeated_ids', 'mne:select',
            'mne:select_many', 'mne:event_id_order', 'mne:tmin_zero', 'mne:tmin_pos', 'mne:tmin_neg',
            'mne:time_zero_inside']
