"""C20 / MNE: epochs -> TemporalDataset, descriptors from the file name (io/mne.py)."""
import os
import shutil
import tempfile
from fractions import Fraction as F
from lean import rat

ALNUM = 'abcdefghijklmnopqrstuvwxyz0123456789'
_TMP = None


def tmpdir():
    global _TMP
    if _TMP is None:
        _TMP = tempfile.mkdtemp(prefix='c20mne')
        import atexit
        atexit.register(shutil.rmtree, _TMP, True)
    return _TMP


def lab(rng):
    return ''.join(rng.choice(ALNUM) for _ in range(rng.randint(1, 4)))


def fname(rng):
    ent = {'sub': lab(rng) if rng.random() < 0.9 else None,
           'task': lab(rng) if rng.random() < 0.6 else None,
           'run': lab(rng) if rng.random() < 0.6 else None}
    segs = []
    if ent['sub'] is not None:
        segs.append('sub-' + ent['sub'])
    if rng.random() < 0.3:
        segs.append('ses-' + lab(rng))
    if ent['task'] is not None:
        segs.append('task-' + ent['task'])
    if ent['run'] is not None:
        segs.append('run-' + ent['run'])
    segs.append(rng.choice(['epo.fif', 'meg.fif', 'eeg-epo.fif']))
    return '_'.join(segs), ent


def gen(rng, tier):
    k = 1 if tier == 'quick' else 20
    for _ in range(40 * k):
        name, ent = fname(rng)
        yield {'kind': 'mne_name', 'fname': name, 'expect': ent}
    for name in ['sub-1_sub-2_epo.fif', 'run-3.fif', 'task-_epo.fif', 'subject-1_epo.fif', '',
                 'sub-01_task-a-b_run-1_epo.fif']:
        yield {'kind': 'mne_name', 'fname': name}
    for i in range(24 * k):
        ne, nc, nt = rng.randint(1, 5), rng.randint(1, 4), rng.randint(1, 6)
        sfreq = rng.choice([64, 128, 256, 512])
        data = [[[rat(F(rng.randint(-40, 40), 8)) for _ in range(nt)] for _ in range(nc)]
                for _ in range(ne)]
        samples = sorted(rng.sample(range(0, 400), ne))
        events = [[s, rng.choice([0, 0, 1]), rng.randint(1, 9)] for s in samples]
        chs = []
        while len(chs) < nc:
            c = rng.choice(['EEG', 'C', 'Fz', 'MEG']) + str(rng.randint(1, 99))
            if c not in chs:
                chs.append(c)
        case = {'kind': 'mne', 'data': data, 'events': events, 'ch': chs, 'sfreq': sfreq,
                'tmin_samples': rng.randint(-20, 20), 'via_file': None}
        if i % 8 == 0:
            case['via_file'], case['file_ent'] = fname(rng)
            if not case['via_file'].endswith('epo.fif'):
                case['via_file'] = case['via_file'].rsplit('_', 1)[0] + '_epo.fif' \
                    if '_' in case['via_file'] else 'epo.fif'
        yield case


def times_of(case):
    n = len(case['data'][0][0])
    return [F(case['tmin_samples'] + k, case['sfreq']) for k in range(n)]


def impl(case):
    try:
        return _impl(case)
    except Exception as exc:  # noqa: BLE001
        return {'exc': type(exc).__name__}


def _impl(case):
    from rsatoolbox.io import mne as rmne
    if case['kind'] == 'mne_name':
        d = rmne.descriptors_from_bids_filename(case['fname'])
        return {k: d.get(k) for k in ('sub', 'run', 'task')}
    import mne
    import numpy as np
    data = np.array([[[float(F(x)) for x in ch] for ch in ep] for ep in case['data']])
    info = mne.create_info(case['ch'], float(case['sfreq']), ch_types='eeg', verbose='error')
    ep = mne.EpochsArray(data, info, events=np.array(case['events']),
                         tmin=case['tmin_samples'] / case['sfreq'], verbose='error')
    descs = None
    if case.get('via_file'):
        path = os.path.join(tmpdir(), case['via_file'])
        ep.save(path, overwrite=True, fmt='double', verbose='error')
        ds = rmne.read_epochs(path)
        descs = {k: ds.descriptors.get(k) for k in ('filename', 'sub', 'run', 'task')}
    else:
        ds = rmne.dataset_from_epochs(ep)
    return {'measurements': ds.measurements.tolist(),
            'event': [int(v) for v in ds.obs_descriptors['event']],
            'channel': [str(c) for c in ds.channel_descriptors['name']],
            'time': [float(t) for t in ds.time_descriptors['time']],
            'descs': descs}


def requests(case):
    if case['kind'] == 'mne_name':
        return [{'op': 'c20.mne_name', 'fname': case['fname']}]
    reqs = [{'op': 'c20.mne', 'data': case['data'], 'events': case['events'], 'ch': case['ch'],
             'times': [rat(t) for t in times_of(case)]}]
    if case.get('via_file'):
        reqs.append({'op': 'c20.mne_name', 'fname': case['via_file']})
    return reqs


def result(case, answers):
    if case['kind'] == 'mne_name':
        return answers[0]
    a = answers[0]
    if not isinstance(a, dict) or 'measurements' not in a:
        return a
    out = {'measurements': [[[float(F(x)) for x in ch] for ch in ep] for ep in a['measurements']],
           'event': a['event'], 'channel': a['channel'], 'time': [float(F(x)) for x in a['time']],
           'descs': None}
    if case.get('via_file'):
        out['descs'] = dict(answers[1], filename=case['via_file'])
    return out


def oracle(case):
    out = impl(case)
    if case['kind'] == 'mne_name':
        exp = case.get('expect')
        if exp is not None and out != exp:
            return {'what': 'descriptors parsed from an epochs file name differ from the encoded ones',
                    'observed': out, 'expected': exp, 'features': {}}
        return None
    if 'exc' in out:
        return {'what': 'epochs not converted', 'observed': out, 'expected': 'TemporalDataset',
                'features': {}}
    data = [[[float(F(x)) for x in ch] for ch in ep] for ep in case['data']]
    if out['measurements'] != data:
        return {'what': 'temporal dataset measurements differ from the epochs data',
                'observed': out['measurements'][0], 'expected': data[0], 'features': {}}
    if out['event'] != [e[2] for e in case['events']]:
        return {'what': 'observation descriptor is not the event code column',
                'observed': out['event'], 'expected': [e[2] for e in case['events']], 'features': {}}
    if out['channel'] != case['ch']:
        return {'what': 'channel names differ', 'observed': out['channel'], 'expected': case['ch'],
                'features': {}}
    want_t = [float(t) for t in times_of(case)]
    if any(abs(a - b) > 1e-12 for a, b in zip(out['time'], want_t)) or len(out['time']) != len(want_t):
        return {'what': 'time descriptor differs from the epochs times', 'observed': out['time'],
                'expected': want_t, 'features': {}}
    if case.get('via_file'):
        exp = dict(case['file_ent'], filename=case['via_file'])
        got = out['descs']
        for k, v in exp.items():
            if got.get(k) != v:
                return {'what': 'dataset descriptors differ from the epochs file name',
                        'observed': got, 'expected': exp, 'features': {}}
    return None


def feats(case, impl_res):
    if case['kind'] == 'mne_name':
        return {'kind': 'mne_name', 'branches': ['mne:name' if case.get('expect') else 'mne:name_odd']}
    return {'kind': 'mne', 'branches': ['mne:file' if case.get('via_file') else 'mne:array']}


BRANCHES = ['mne:name', 'mne:name_odd', 'mne:array', 'mne:file']
