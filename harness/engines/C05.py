"""C05 — folds partition the data and test data never influence fitting.

Engine interface (see harness/run_check.py):
  THEOREMS, LEVEL, RULE, BRANCHES, generate, run_impl, model_requests, model_result,
  compare, oracle, features, nontrivial_key, search, shrink

Case kinds
  sets      one call of a fold generator of inference/crossvalsets.py on an RDMs object whose
            every dissimilarity is a distinct code of (rdm, condition, condition); the returned
            objects are decoded back to original positions and compared with the Lean model
  crossval  evaluate.crossval (or evaluate._internal_cv, the bootstrap path) on generated
            folds with a recording fitter / compare hook: what the fitter and the comparison
            *receive* is compared with the model's training / test part, and test-only
            (train-only) entries are overwritten to see whether θ (the score) moves
  concat    evaluate._concat_sampling
Shuffle outcomes of the real code are recorded (np.random.shuffle is tapped from outside,
either seeded or scripted) and handed to the model, whose theorems quantify over all of them.
"""
import contextlib
import random as _random
import signal
import warnings
import copy
import itertools
import json

import numpy as np

from lean import fbits, first_diff, rat

PROPERTY = 'C05'
LEVEL = 'proof'
P = 'Rsa.Props.C05.'
THEOREMS = [P + n for n in (
    'kfold_partition', 'kfold_sizes', 'kfold_train_compl',
    'split_vals_partition', 'split_vals_train_compl',
    'leaf_fold_arithmetic', 'default_k_range',
    'kfold_pattern_spec', 'kfold_rdm_spec', 'kfold_both_spec', 'sets_ok_iff', 'of_k_spec',
    'loo_spec', 'random_sets_disjoint',
    'groups_same_side', 'realize_disjoint', 'exhaustive_once',
    'contents_as_advertised', 'ceil_is_train_at_test',
    'trainSet_indep_of_test_only', 'theta_indep_of_test_only', 'score_indep_of_train_only',
    'concat_sampling_count', 'concat_sampling_disjoint',
    # round 2
    'kfold_both_mem', 'kfold_both_exhaustive_once', 'concat_sampling_matches_object',
    'default_k_accepted', 'default_k_real',
    # round 3: the code as written (derived leaves), index alignment, crossval glue
    'leaf_loop_positions', 'leaf_dispatch_tests', 'sets_lists_aligned', 'of_k_accept_iff',
    'coded_entry_points_agree', 'of_k_group_sizes', 'random_axis_coded', 'random_coded_eq',
    'random_default_sizes', 'kfold_both_indexed', 'sets_k_fold_indexed_once',
    'crossval_pairs_by_index', 'cv_noise_ceiling_pairs', 'crossval_on_k_fold',
    'internal_cv_pidx_multiset', 'bootcv_guard_no_skip',
    # round 4: sessions (state that survives a call)
    'input_writes_zero', 'call_leaves_content_unchanged', 'session_calls_independent', 'session_calls_only',
    'session_length', 'inplace_write_changes_later_call', 'session_call_after_any_history')]
RULE = ('one PRNG; sets: every generator (8) x 2-9 RDMs x 3-10 conditions, grouping descriptors '
        'with repeated values (int or string labels) or the index descriptor, optionally with '
        'repeated index values (bootstrap copies), k = 1..n plus defaults and the rejected values '
        '(0, n+1), group sizes, random False/True (shuffle recorded or scripted); crossval: the '
        'same objects through evaluate.crossval / _internal_cv with fixed, selection and weighted '
        'models, entries perturbed per fold; round 2: every fitter (regress incl. Fitter objects and _cov '
        'methods, regress_nn under a 2 s guard, optimize, optimize_positive, interpolate), noise ceiling '
        'on/off, folds too small to evaluate, a single RDM group, and the public bootstrap_crossval (real '
        'draws under a seed, boot_type both/rdm/pattern, given and default fold counts; every sample is '
        'described to the model by a hook); a case is non-trivial when at least one axis is split '
        'into more than one fold or the call is rejected; distinct = distinct (kind, generator, '
        'descriptors, parameters, shuffle outcomes); round 3: the model side is the as-coded model built from '
        'source-derived leaves (three lists, skip test, pairing); direct crossval calls vary the glue (ceil_set '
        'passed / omitted, pattern_descriptor passed / defaulted, fitter single / list / model default, 2-3 '
        'models); what cv_noise_ceiling pools and compares is recorded pair by pair; every bootstrap sample of '
        'bootstrap_crossval is traced against the guard; groups-of-k with 11-14 groups; fit_regress_nn without skip; '
        'round 4: reuse sessions - ONE RDMs object (descriptors as lists or ndarrays, optionally a bootstrap-'
        'resampled stack) on which 2-4 generators are called in succession (sets_random with n_cv >= 2, every '
        'k-fold / groups-of-k / leave-one-out generator, the same generator twice), crossval run once or twice '
        'on the sets of an earlier call, and in-place edits by the user in between (a grouping descriptor '
        're-assigned or overwritten element by element, the dissimilarities overwritten); every call is judged '
        'on its own against the stand-alone call on the content the edits so far produce, all earlier results '
        'are re-read after every later step, the object is compared bit for bit with a pristine copy after every '
        'call; a quarter of the single-call sets cases hold their descriptors as ndarrays; a session is '
        'non-trivial when at least two generator calls split the data or are rejected; round 5: about a '
        'quarter of the extra fit_regress models use a fragile fitter (the library fitter, then LinAlgError on '
        'about every second training set, as a function of the training object alone); a LinAlgError of a '
        'fitter is recorded per call (same training view => same outcome) and does not end the run; every '
        'perturbation is asserted to leave the view it must keep bit-identical; round 7: for every generator '
        'and for crossval, objects whose split axis holds 21-40 groups of 2-3 members (adjacent, interleaved or '
        'shuffled) labelled by strings, floats or integers spread over 1000..900000, lists or ndarrays, with '
        'fold counts / group sizes that make a selection by >= 20 values (both axes large at once for the '
        'two-axis generators alone); the folds of a direct crossval case are also judged by the first sentence')
BRANCHES = ['gen:k_fold', 'gen:k_fold_rdm', 'gen:k_fold_pattern', 'gen:of_k_rdm', 'gen:of_k_pattern',
            'gen:random', 'gen:loo_rdm', 'gen:loo_pattern', 'random:true', 'random:false',
            'grouped:rdm', 'grouped:pattern', 'copies:rdm', 'copies:pattern', 'labels:str',
            'labels:str-many', 'labels:float-many', 'labels:sparse-int-many',      # round 7
            'cv:labels-many',
            'k:one', 'k:all', 'k:default', 'uneven', 'exc:AssertionError', 'exc:ZeroDivisionError',
            'exc:IndexError', 'cv:direct', 'cv:boot', 'cv:weighted', 'cv:select', 'cv:fixed',
            'cv:perturbed', 'concat',
            # round 2
            'loo:single_group', 'cv:interpolate', 'fit:regress', 'fit:regress_nn', 'fit:optimize',
            'fit:optimize_positive', 'fit:fitter_obj', 'cv:cov_method', 'cv:nc_given_ceil',
            'cv:nc_no_ceil', 'cv:skipped_fold', 'cv:bootcv', 'bootcv:both', 'bootcv:rdm',
            'bootcv:pattern', 'bootcv:default_k', 'cv:bare_model',
            # round 3
            'cv:multi_model_multi_fold', 'cv:three_models',
            # round 3 (worker): glue around crossval, guard of bootstrap_crossval, defaults of sets_random
            'cv:omit_ceil', 'cv:pdesc_default', 'cv:fitter_list', 'cv:fitter_default', 'cv:nc_pairs',
            'bootcv:guard_rejects', 'bootcv:guard_accepts', 'random:default_sizes', 'of_k:not_k_or_k1',
            'fit:regress_nn_boot',
            # round 4: reuse sessions on one object (state that survives a call)
            'session', 'session:reuse', 'session:three_calls', 'session:random_multi_then_more',
            'session:same_gen_twice', 'session:different_gens', 'session:desc_list', 'session:desc_ndarray',
            'session:copies_rdm', 'session:copies_pattern', 'session:edit_relabel_rdm',
            'session:edit_relabel_pat', 'session:edit_rewrite', 'session:edit_elementwise',
            'session:crossval', 'session:crossval_twice_same_sets', 'session:gen_after_crossval',
            'session:shuffled'] + ['session:gen_' + g_ for g_ in
                                   ('k_fold', 'k_fold_rdm', 'k_fold_pattern', 'of_k_rdm', 'of_k_pattern',
                                    'random', 'loo_rdm', 'loo_pattern')] + ['desc:ndarray', 'desc:list'] + [
            # round 5: a fitter that fails (LinAlgError) on some training sets - judged call by call
            'cv:fitter_raised', 'cv:fit_failure_other_fold', 'cv:fitter_failure_propagated']
ASSUMPTIONS = [
    'descriptor values are mapped to natural-number codes (non-negative ints as themselves, floats by numeric '
    'rank, strings by rank) before they reach the model; np.unique orders ints and floats numerically and '
    'strings by code point',
    'the non-interference experiment compares θ and scores bit-for-bit; numpy / LAPACK are '
    'deterministic for identical inputs in one process',
    'a numpy.linalg.LinAlgError raised inside a fitter is an outcome of that one fit (whether a fitter solves a '
    'degenerate problem is C08\'s claim): it is recorded per call, the cross-validation continues with '
    'parameters that depend on the model spec only, and the non-interference experiment demands the same '
    'outcome for the same training view; any other exception, and any exception of the cross-validation '
    'itself, is reported as before']
TRUSTED_EXTRA = [
    'np.random.shuffle permutes its argument in place (the outcome is recorded, its distribution is not examined)',
    'np.unique returns the sorted distinct values; np.setdiff1d the sorted difference']

# the groups-of-k generator over patterns has `pattern_descriptor=None` as its default; the
# documented meaning of None is "index" (rdm_utils.add_pattern_index, RDMs.subset_pattern)
INCLUDE_DEFAULT_NONE = True

GENS = ['k_fold', 'k_fold_rdm', 'k_fold_pattern', 'of_k_rdm', 'of_k_pattern', 'random',
        'loo_rdm', 'loo_pattern']
RDM_ONLY = ('k_fold_rdm', 'of_k_rdm', 'loo_rdm')
EXHAUSTIVE = ('k_fold', 'k_fold_rdm', 'k_fold_pattern', 'of_k_rdm', 'of_k_pattern', 'loo_rdm',
              'loo_pattern')
EXC = ('AssertionError', 'ZeroDivisionError', 'IndexError', 'TypeError', 'ValueError', 'KeyError', 'Timeout')


# ------------------------------------------------------------------ building inputs

def _axis(case, which):
    """(values of the grouping descriptor in use, by-name passed to the library)"""
    a = case[which]
    by = a['by']
    n = a['n']
    if by == 'g':
        return list(a['g']), 'g'
    idx = a.get('index') or list(range(n))
    return list(idx), by          # by is 'index' or None (pattern default of sets_of_k_pattern)


def _is_int(v):
    return isinstance(v, (int, np.integer)) and not isinstance(v, bool)


def _is_float(v):
    return isinstance(v, (float, np.floating))


def _codes(values):
    """descriptor value -> Nat code (order preserving: np.unique orders ints and floats numerically,
    strings by code point)"""
    if all(_is_int(v) for v in values):
        return {int(v): int(v) for v in values}
    if all(_is_int(v) or _is_float(v) for v in values):      # float labels (round 7): rank in numeric order
        u = sorted(set(float(v) for v in values))
        return {v: i for i, v in enumerate(u)}
    u = sorted(set(str(v) for v in values))
    return {v: i for i, v in enumerate(u)}


def _code_of(cmap, v):
    """code of a descriptor value; a value the object does not hold (possible only when the library hands
    out something stale or foreign) gets a code outside the map, so that the model rejects it and the case
    is judged by the oracle instead of crashing the harness"""
    import zlib
    k = int(v) if _is_int(v) else float(v) if _is_float(v) else str(v)
    if k in cmap:
        return cmap[k]
    if _is_int(v) and float(k) in cmap and any(isinstance(c, float) for c in cmap):
        return cmap[float(k)]
    return 10 ** 6 + zlib.crc32(str(k).encode()) % 1000


def _pairs(n):
    return [(i, j) for i in range(n) for j in range(i + 1, n)]


def _base_matrix(case):
    """dissimilarities as exact python numbers (None = NaN): nR x nC(nC-1)/2"""
    nR, nC = case['rdm']['n'], case['pat']['n']
    pidx = case['pat'].get('index') or list(range(nC))
    if case.get('matrix') is not None:      # explicit numbers (a session after the user rewrote the data)
        return [list(row) for row in case['matrix']]
    if case.get('values') == 'random':
        rs = np.random.RandomState(case['dseed'])
        m = [[int(v) for v in rs.randint(1, 4096, size=nC * (nC - 1) // 2)] for _ in range(nR)]
        m = [[v / 64 for v in row] for row in m]
    else:
        m = [[(r + 1) * 10000 + (i + 1) * 100 + (j + 1) for (i, j) in _pairs(nC)] for r in range(nR)]
    if case.get('nan_copies'):
        for r in range(nR):
            for q, (i, j) in enumerate(_pairs(nC)):
                if pidx[i] == pidx[j]:
                    m[r][q] = None
    return m


def _build(case, matrix=None):
    from rsatoolbox.rdm import RDMs
    nR, nC = case['rdm']['n'], case['pat']['n']
    m = matrix if matrix is not None else _base_matrix(case)
    d = np.array([[np.nan if v is None else float(v) for v in row] for row in m], dtype=float)
    d = d.reshape(nR, nC * (nC - 1) // 2)
    rd = {'orig': list(range(nR)), 'g': list(case['rdm']['g'])}
    pd = {'orig': list(range(nC)), 'g': list(case['pat']['g'])}
    if case['rdm'].get('index'):
        rd['index'] = list(case['rdm']['index'])
    if case['pat'].get('index'):
        pd['index'] = list(case['pat']['index'])
    if _desc_form(case) == 'ndarray':       # descriptors held as numpy arrays instead of lists (incl. index)
        rd.setdefault('index', list(range(nR)))
        pd.setdefault('index', list(range(nC)))
        rd = {k: np.array(v) for k, v in rd.items()}
        pd = {k: np.array(v) for k, v in pd.items()}
    return RDMs(d, rdm_descriptors=rd, pattern_descriptors=pd)


def _desc_form(case):
    """'list' or 'ndarray': stated by the case, else derived from its content (one in four of the
    single-call cases hold their descriptors as arrays; no extra draw from the case generator's PRNG)"""
    if case.get('desc_form'):
        return case['desc_form']
    if case.get('kind') != 'sets':
        return 'list'
    import zlib
    key = json.dumps([case['rdm'].get('g'), case['pat'].get('g'), case.get('params')], sort_keys=True, default=str)
    return 'ndarray' if zlib.crc32(key.encode()) % 4 == 0 else 'list'


class ShuffleTap:
    """replace np.random.shuffle for the duration of a call: seeded or scripted, and recorded"""

    def __init__(self, spec):
        self.spec = spec or {}
        self.log = []

    def __enter__(self):
        self.orig = np.random.shuffle
        rs = np.random.RandomState(self.spec['seed']) if 'seed' in self.spec else None
        script = [list(p) for p in self.spec.get('script', [])]

        def shuffle(x):
            if rs is not None:
                rs.shuffle(x)
            elif script:
                perm = script.pop(0)
                if sorted(perm) == list(range(len(x))):
                    x[:] = np.array(x)[np.array(perm, dtype=int)]
            self.log.append([v.item() if hasattr(v, 'item') else v for v in x])
        np.random.shuffle = shuffle
        return self

    def __exit__(self, *a):
        np.random.shuffle = self.orig
        return False


def _call_gen(case, rdms):
    from rsatoolbox.inference import crossvalsets as cvs
    g, prm = case['gen'], case['params']
    _, rby = _axis(case, 'rdm')
    _, pby = _axis(case, 'pat')
    if g == 'k_fold':
        return cvs.sets_k_fold(rdms, k_rdm=prm.get('k_rdm'), k_pattern=prm.get('k_pattern'),
                               random=prm['random'], pattern_descriptor=pby, rdm_descriptor=rby)
    if g == 'k_fold_rdm':
        return cvs.sets_k_fold_rdm(rdms, k_rdm=prm.get('k_rdm'), random=prm['random'],
                                   rdm_descriptor=rby)
    if g == 'k_fold_pattern':
        return cvs.sets_k_fold_pattern(rdms, pattern_descriptor=pby, k=prm.get('k'),
                                       random=prm['random'])
    if g == 'of_k_rdm':
        return cvs.sets_of_k_rdm(rdms, rdm_descriptor=rby, k=prm['k'], random=prm['random'])
    if g == 'of_k_pattern':
        if pby is None:
            return cvs.sets_of_k_pattern(rdms, k=prm['k'], random=prm['random'])
        return cvs.sets_of_k_pattern(rdms, pattern_descriptor=pby, k=prm['k'], random=prm['random'])
    if g == 'random':
        return cvs.sets_random(rdms, n_rdm=prm.get('n_rdm'), n_pattern=prm.get('n_pattern'),
                               n_cv=prm['n_cv'], pattern_descriptor=pby, rdm_descriptor=rby)
    if g == 'loo_rdm':
        return cvs.sets_leave_one_out_rdm(rdms, rby)
    if g == 'loo_pattern':
        return cvs.sets_leave_one_out_pattern(rdms, pby)
    raise ValueError(g)


def _num(v):
    if v is None or (isinstance(v, float) and np.isnan(v)):
        return None
    return rat(float(v))


def _decode(obj, pidx, case, pmap):
    """canonical content of one handed-out (RDMs, pattern_idx) entry"""
    rows = [int(v) for v in obj.rdm_descriptors['orig']]
    conds = [int(v) for v in obj.pattern_descriptors['orig']]
    vecs = [[_num(v) for v in row] for row in np.asarray(obj.dissimilarities).tolist()]
    order = sorted(range(len(rows)), key=lambda q: (rows[q], json.dumps(vecs[q])))
    if case['gen'] in RDM_ONLY:
        pi = sorted(int(v) for v in pidx)
    else:
        pi = sorted(_code_of(pmap, v) for v in pidx)
    return {'rows': [rows[q] for q in order], 'conds': conds, 'pidx': pi,
            'vecs': [vecs[q] for q in order]}


def _exc_name(exc):
    n = type(exc).__name__
    return n if n in EXC else 'other:' + n


_CACHE = {}


def _key(case):
    return json.dumps(case, sort_keys=True, default=str)


def _run_sets(case, matrix=None):
    """-> (result dict, shuffle log, raw sets or None)"""
    rdms = _build(case, matrix)
    pvals, _ = _axis(case, 'pat')
    pmap = _codes(pvals)
    with ShuffleTap(case.get('shuffle')) as tap:
        try:
            out = _call_gen(case, rdms)
        except Exception as exc:  # noqa: BLE001 - the library's exceptions are data here
            return {'exc': _exc_name(exc)}, tap.log, None
    return _decode_sets(out, case, pmap), tap.log, out


def _decode_sets(out, case, pmap):
    train, test, ceil = out
    folds = []
    for i in range(len(train)):
        folds.append({
            'train': _decode(train[i][0], train[i][1], case, pmap),
            'test': _decode(test[i][0], test[i][1], case, pmap) if i < len(test) else None,
            'ceil': None if ceil is None or i >= len(ceil)
            else _decode(ceil[i][0], ceil[i][1], case, pmap)})
    return {'folds': folds, 'n_train': len(train), 'n_test': len(test),
            'n_ceil': None if ceil is None else len(ceil)}


# ------------------------------------------------------------------ crossval experiment

def _model_specs(case):
    """the models of a crossval case: the primary one plus the extra ones (different seeds, hence
    distinguishable predictions)"""
    extra = list(case.get('extra_models', []))
    pos = case.get('primary_pos', 0)
    return extra[:pos] + [case['model']] + extra[pos:]


def _make_model(case, ms=None):
    from rsatoolbox.rdm import RDMs
    from rsatoolbox import model as M
    from rsatoolbox.model import fitter as FT
    ms = ms or case['model']
    nC = ms['n_cond']
    rs = np.random.RandomState(ms['seed'])
    nvec = nC * (nC - 1) // 2
    vec = rs.randint(1, 512, size=(ms['n_rdm'], nvec)) / 32.0
    pd = {'index': list(range(nC))}
    if ms.get('g'):
        pd['g'] = list(ms['g'])
    robj = RDMs(vec, pattern_descriptors=pd)
    kind = ms['type']
    if kind == 'fixed':
        return M.ModelFixed('m', RDMs(vec[:1], pattern_descriptors=copy.deepcopy(pd))), M.fit_mock
    if kind == 'select':
        return M.ModelSelect('m', robj), M.fit_select
    if kind == 'interpolate':
        return M.ModelInterpolate('m', robj), M.fit_interpolate
    if kind == 'weighted':
        name = ms.get('fitter', 'regress')
        if name == 'fitter_obj':          # model.Fitter wrapping fit_regress with its own keyword
            return M.ModelWeighted('m', robj), FT.Fitter(M.fit_regress, ridge_weight=ms['ridge'])
        fit = {'regress': M.fit_regress, 'regress_nn': M.fit_regress_nn, 'optimize': M.fit_optimize,
               'optimize_positive': FT.fit_optimize_positive}[name]
        if ms.get('fragile'):
            fit = _fragile(fit)
        return M.ModelWeighted('m', robj), fit
    raise ValueError(kind)


def _fragile(fit):
    """a fitter that refuses about every second training set: the library's fitter, then LinAlgError when
    64 x (sum of the training dissimilarities it was handed) is even - a pure function of the training
    object, standing for any fitter whose success depends on the training data (round 5: fit_regress_nn
    raised on linearly dependent basis RDMs in a fold whose training data a perturbation had changed).
    The same training view must give the same outcome; another fold's outcome may flip freely."""
    def f_(mdl, data, **kw):
        theta = fit(mdl, data, **kw)
        tot = float(np.nansum(np.asarray(data.dissimilarities, dtype=float)))     # multiples of 1/64: exact
        if int(round(tot * 64)) % 2 == 0:
            raise np.linalg.LinAlgError('fragile fitter: this training set is refused')
        return theta
    return f_


def _fallback_theta(ms):
    """substitute parameters for a call in which the library's fitter raised LinAlgError: a function of
    the model spec alone (never of the data)"""
    if ms['type'] == 'select':
        return 0
    if ms['type'] == 'fixed':
        return None
    th = np.zeros(ms['n_rdm'])
    th[0] = 1.0
    return th


class _Timeout(Exception):
    pass


def _alarm(_sig, _frm):
    raise _Timeout()


FIT_SECONDS = 30.0  # safety net only: fit_regress_nn terminates since /repo 217b28e5; a fit that does not
                    # return is reported as an exception of the cross-validated evaluation ('Timeout')


def _obj_content(obj):
    # positions inside the bootstrap sample ('spos', set by the bootstrap_crossval hook) when
    # present, else positions in the input object
    rk = 'spos' if 'spos' in obj.rdm_descriptors else 'orig'
    pk = 'spos' if 'spos' in obj.pattern_descriptors else 'orig'
    rows = [int(v) for v in obj.rdm_descriptors[rk]]
    conds = [int(v) for v in obj.pattern_descriptors[pk]]
    vecs = [[_num(v) for v in row] for row in np.asarray(obj.dissimilarities).tolist()]
    order = sorted(range(len(rows)), key=lambda q: (rows[q], json.dumps(vecs[q])))
    return {'rows': [rows[q] for q in order], 'conds': conds, 'vecs': [vecs[q] for q in order]}


def _cv_once(case, matrix, fixed_thetas=None, propagate=True):
    """one run of the real cross-validation on the object with the given dissimilarities.
    -> dict(sets=[(train rows, train conds, test rows, test conds)], fit=[…], cmp=[…],
            thetas=[…], evals=[…]) or dict(exc=…)"""
    from rsatoolbox.inference import evaluate as ev
    rdms = _build(case, matrix)
    specs = _model_specs(case)
    built = [_make_model(case, ms_) for ms_ in specs]
    models = [b[0] for b in built]
    model = models[0]
    model_arg = model if case.get('bare_model') and len(models) == 1 else models
    pvals, pby = _axis(case, 'pat')
    _, rby = _axis(case, 'rdm')
    pmap = _codes(pvals)
    rvals, _ = _axis(case, 'rdm')
    rmap = _codes(rvals)
    rec = {'fit': [], 'cmp': [], 'thetas': [], 'raw_thetas': [], 'sets': [], 'calls': [],
           'evals': [[] for _ in models], 'hook_scores': [], 'test_objs': [], 'fit_model': [],
           'nc_pairs': [], 'guard': [], 'slots': [], 'fit_exc': [],
           'raised_to_library': 0, 'refit_other_data': False}
    calls = [0]

    def in_turn(k, j, data):
        """is call number k (model slot j, training object `data`) the call the cross-validation owes next:
        model k mod nM on the training set of the k div nM-th evaluable fold handed out so far"""
        live_ = [s_ for s_ in rec['sets'] if not s_['skipped']]
        if j != k % len(models) or k // len(models) >= len(live_):
            return False
        s_ = live_[k // len(models)]
        return sorted(int(v) for v in data.rdm_descriptors['orig']) == sorted(s_['train_rows']) \
            and sorted(int(v) for v in data.pattern_descriptors['orig']) == sorted(s_['train_conds'])

    def fitter(mdl, data, method='cosine', pattern_idx=None, pattern_descriptor=None, **kw):
        j = next(q for q, m_ in enumerate(models) if m_ is mdl)
        ms, base_fit = specs[j], built[j][1]
        stochastic = ms.get('fitter') in ('optimize', 'optimize_positive')
        if rec['raised_to_library'] and not in_turn(len(rec['fit']), j, data):
            rec['refit_other_data'] = True      # the library reacted to a fitter's failure by fitting elsewhere
        rec['fit_model'].append(j)
        c = _obj_content(data)
        c['pidx'] = sorted(int(v) for v in pattern_idx) if case['gen'] in RDM_ONLY \
            else sorted(_code_of(pmap, v) for v in pattern_idx)
        c['pdesc'] = pattern_descriptor
        rec['fit'].append(c)
        fit_exc = None
        if fixed_thetas is not None:
            theta = copy.deepcopy(fixed_thetas[calls[0]])
        else:
            extra = {'ridge_weight': ms['ridge']} if ms.get('ridge') and ms.get('fitter') != 'fitter_obj' \
                else {}
            if stochastic:      # the optimisers draw their starting points from np.random
                np.random.seed(ms['seed'] % (2 ** 31))
            old = signal.signal(signal.SIGALRM, _alarm)
            signal.setitimer(signal.ITIMER_REAL, FIT_SECONDS)
            try:
                theta = base_fit(mdl, data, method=method, pattern_idx=pattern_idx,
                                 pattern_descriptor=pattern_descriptor, **extra, **kw)
            except np.linalg.LinAlgError:
                # the library's fitter cannot solve the fitting problem of THIS call (e.g. linearly
                # dependent basis RDMs on a training set with repeated conditions): whether a fitter
                # solves a degenerate problem is C08's claim, not C05's.  The outcome is recorded per
                # call - C05 demands that the same training view gives the same outcome, exception
                # included - and the cross-validation goes on with a substitute theta that depends on
                # the model spec only, so that one fold's numerical failure neither hides the data flow
                # of the other folds nor is mistaken for a dependence on held-out data.
                theta, fit_exc = _fallback_theta(ms), 'LinAlgError'
                if propagate and ms.get('fragile') == 'propagate':
                    # base run of a 'propagate' case: the failure is handed to the library as it is, to see
                    # what the cross-validation does with it (the pinned code lets it through; a library that
                    # answers it with a fit on other data is caught by `in_turn`)
                    rec['raised_to_library'] += 1
                    rec['fit_exc'].append(fit_exc)
                    calls[0] += 1
                    raise
            finally:
                signal.setitimer(signal.ITIMER_REAL, 0)
                signal.signal(signal.SIGALRM, old)
        rec['fit_exc'].append(fit_exc)
        calls[0] += 1
        rec['thetas'].append(np.array(theta, dtype=float).copy())
        rec['raw_thetas'].append(copy.deepcopy(theta))
        return theta

    real_compare = ev.compare
    real_sets = ev.sets_k_fold
    real_icv = ev._internal_cv

    def compare_hook(pred, data, method='cosine', **kw):
        c = _obj_content(data)
        by = pby or 'index'
        try:
            c['pred_ok'] = sorted(_code_of(pmap, v) for v in pred.pattern_descriptors[by]) == \
                sorted(_code_of(pmap, v) for v in data.pattern_descriptors[by])
        except KeyError:
            c['pred_ok'] = False
        rec['cmp'].append(c)
        out = real_compare(pred, data, method, **kw)
        rec['hook_scores'].append(float(np.mean(out)))
        return out

    def note_sets(train, test):
        for tr, te in zip(train, test):
            rec['sets'].append({
                'train_rows': [int(v) for v in tr[0].rdm_descriptors['orig']],
                'train_conds': [int(v) for v in tr[0].pattern_descriptors['orig']],
                'test_rows': [int(v) for v in te[0].rdm_descriptors['orig']],
                'test_conds': [int(v) for v in te[0].pattern_descriptors['orig']],
                'skipped': bool(tr[0].n_rdm == 0 or te[0].n_rdm == 0
                                or tr[0].n_cond <= 2 or te[0].n_cond <= 2)})
            rec['test_objs'].append(te)     # te[1] is expanded in place by _internal_cv later

    def sets_hook(*a, **kw):
        out = real_sets(*a, **kw)
        note_sets(out[0], out[1])
        return out

    tap_box = [None]

    def icv_hook(models, sample, pdesc_, rdesc_, pattern_idx, k_pattern, k_rdm, method, fitter_):
        # one bootstrap sample of bootstrap_crossval: describe it for the model
        sample.rdm_descriptors['spos'] = list(range(sample.n_rdm))
        sample.pattern_descriptors['spos'] = list(range(sample.n_cond))
        n0 = len(tap_box[0].log)
        call = {'rdesc': [_code_of(rmap, v) for v in sample.rdm_descriptors[rby]],
                'pdesc': [_code_of(pmap, v) for v in sample.pattern_descriptors[pby or 'index']],
                'dis': [[_num(v) for v in row] for row in np.asarray(sample.dissimilarities).tolist()],
                'boot_pidx': [_code_of(pmap, v) for v in pattern_idx],
                'k_rdm': int(k_rdm), 'k_pattern': int(k_pattern)}
        if rec['guard']:
            rec['guard'][-1][2] += 1
        out = real_icv(models, sample, pdesc_, rdesc_, pattern_idx, k_pattern, k_rdm, method, fitter_)
        log = tap_box[0].log[n0:]
        call['rsel'] = [_code_of(rmap, v) for v in log[0]] if log else None
        call['psels'] = [[_code_of(pmap, v) for v in l] for l in log[1:]]
        rec['calls'].append(call)
        ret = np.asarray(out[0])            # the evaluations crossval returned: (1, models, folds)
        for j_ in range(len(models)):
            rec['evals'][j_] += [float(v) for v in ret[0, j_]]
        return out

    # what cv_noise_ceiling pools / compares, pair by pair (only while it runs)
    from rsatoolbox.inference import noise_ceiling as ncm
    real_cvnc, real_pool, real_nccmp = ev.cv_noise_ceiling, ncm.pool_rdm, ncm.compare
    in_nc = [False]
    pooled = []

    def _rc(obj_):
        rk = 'spos' if 'spos' in obj_.rdm_descriptors else 'orig'
        pk = 'spos' if 'spos' in obj_.pattern_descriptors else 'orig'
        return (sorted(int(v) for v in obj_.rdm_descriptors[rk]),
                [int(v) for v in obj_.pattern_descriptors[pk]])

    def pool_hook(r_, *a, **kw):
        if in_nc[0]:
            pooled.append(_rc(r_))
        return real_pool(r_, *a, **kw)

    compared = []

    def nccmp_hook(pred, data, *a, **kw):
        if in_nc[0]:
            compared.append(_rc(data))
        return real_nccmp(pred, data, *a, **kw)

    def cvnc_hook(*a, **kw):
        in_nc[0] = True
        try:
            return ncm.cv_noise_ceiling(*a, **kw)
        finally:
            in_nc[0] = False
    real_samplers = {n_: getattr(ev, n_) for n_ in ('bootstrap_sample', 'bootstrap_sample_rdm',
                                                    'bootstrap_sample_pattern')}

    def sampler_hook(name_):
        def hook(data_, **kw):
            out_ = real_samplers[name_](data_, **kw)
            nr_ = len(set(map(str, data_.rdm_descriptors[rby])))
            np__ = len(set(map(str, data_.pattern_descriptors[pby or 'index'])))
            if name_ == 'bootstrap_sample':
                nr_, np__ = len(set(map(str, out_[1]))), len(set(map(str, out_[2])))
            elif name_ == 'bootstrap_sample_rdm':
                nr_ = len(set(map(str, out_[1])))
            else:
                np__ = len(set(map(str, out_[1])))
            rec['guard'].append([nr_, np__, 0])
            return out_
        return hook

    ev.compare = compare_hook
    ev.sets_k_fold = sets_hook
    ev._internal_cv = icv_hook
    ev.cv_noise_ceiling = cvnc_hook
    ncm.pool_rdm = pool_hook
    ncm.compare = nccmp_hook
    for n_ in real_samplers:
        setattr(ev, n_, sampler_hook(n_))
    try:
        with ShuffleTap(case.get('shuffle')) as tap, np.errstate(all='ignore'), warnings.catch_warnings():
            warnings.simplefilter('ignore')
            tap_box[0] = tap
            try:
                if case.get('bootcv'):
                    b, prm = case['bootcv'], case['params']
                    np.random.seed(b['seed'])
                    ev.bootstrap_crossval(model_arg, rdms,
                                          method=case['method'], fitter=fitter,
                                          k_pattern=prm.get('k_pattern'), k_rdm=prm.get('k_rdm'), N=b['N'],
                                          n_cv=b['n_cv'], pattern_descriptor=pby, rdm_descriptor=rby,
                                          boot_type=b['boot_type'], use_correction=b['n_cv'] > 1)
                    evals = rec['evals']
                elif case.get('boot_pidx') is not None:
                    prm = case['params']
                    evals, _nc = ev._internal_cv(models, rdms, pby, rby, list(case['boot_pidx']),
                                                 prm['k_pattern'], prm['k_rdm'], case['method'], fitter)
                    evals = [[float(v) for v in row] for row in np.asarray(evals)[0]]
                else:
                    train, test, ceil = _call_gen(case, rdms)
                    note_sets(train, test)
                    glue = case.get('glue', {})
                    kw = {'method': case['method'], 'calc_noise_ceil': bool(case.get('calc_nc', False))}
                    if not glue.get('omit_ceil'):
                        kw['ceil_set'] = ceil
                    if not (glue.get('pdesc_default') and (pby or 'index') == 'index'):
                        kw['pattern_descriptor'] = pby or 'index'
                    form = glue.get('fitter_form', 'single')

                    def slot_fitter(j_):
                        # a distinct fitter per model slot: it must be called for its own model only
                        def f_(mdl, data, **kw_):
                            rec['slots'].append([j_, next(q for q, m2 in enumerate(models) if m2 is mdl)])
                            return fitter(mdl, data, **kw_)
                        return f_
                    if form == 'list':
                        kw['fitter'] = [slot_fitter(j_) for j_ in range(len(models))]
                    elif form == 'default':
                        for j_, m_ in enumerate(models):
                            m_.default_fitter = slot_fitter(j_)     # the model's own default fitter is used
                    else:
                        kw['fitter'] = fitter
                    res = ev.crossval(model_arg, rdms, train, test, **kw)
                    evals = [[float(v) for v in row] for row in np.asarray(res.evaluations)[0]]
            except _Timeout:
                return {'exc': 'Timeout', 'log': tap.log}
            except Exception as exc:  # noqa: BLE001
                return {'exc': _exc_name(exc), 'log': tap.log, 'raised_to_library': rec['raised_to_library'],
                        'refit_other_data': rec['refit_other_data']}
        rec['evals'] = evals
        rec['log'] = tap.log
        # per pass of cv_noise_ceiling: pool(ceil), pool(all), compare(·, test), compare(·, test)
        if len(pooled) == len(compared) and len(pooled) % 2 == 0 \
                and all(compared[q] == compared[q + 1] for q in range(0, len(compared), 2)):
            rec['nc_pairs'] = [[pooled[q][0], pooled[q][1], compared[q][0], compared[q][1]]
                               for q in range(0, len(pooled), 2)]
        else:
            rec['nc_pairs'] = ['inconsistent call pattern', len(pooled), len(compared)]
        # the score of every (fold, model) recomputed directly from the returned test set, the
        # recorded θ and the library's own predict / compare (independent of crossval's bookkeeping)
        rec['direct'] = []
        live_objs = [te for te, s_ in zip(rec['test_objs'], rec['sets']) if not s_['skipped']]
        if len(rec['raw_thetas']) == len(live_objs) * len(models):
            with np.errstate(all='ignore'), warnings.catch_warnings():
                warnings.simplefilter('ignore')
                for pos, te in enumerate(live_objs):
                    for j_, m_ in enumerate(models):
                        try:
                            pred = m_.predict_rdm(copy.deepcopy(rec['raw_thetas'][pos * len(models) + j_]))
                            pred = pred.subsample_pattern(by=pby or 'index', value=te[1])
                            rec['direct'].append(float(np.mean(real_compare(pred, te[0], case['method']))))
                        except Exception:  # noqa: BLE001
                            rec['direct'].append(None)
        return rec
    finally:
        ev.compare = real_compare
        ev.sets_k_fold = real_sets
        ev._internal_cv = real_icv
        ev.cv_noise_ceiling = real_cvnc
        ncm.pool_rdm = real_pool
        ncm.compare = real_nccmp
        for n_ in real_samplers:
            setattr(ev, n_, real_samplers[n_])


def _perturb(case, matrix, keep, seed):
    """overwrite every non-missing entry (r, i, j) for which keep(r, i, j) is False"""
    nC = case['pat']['n']
    rs = np.random.RandomState(seed)
    out, changed = [], 0
    for r, row in enumerate(matrix):
        new = list(row)
        for q, (i, j) in enumerate(_pairs(nC)):
            v = int(rs.randint(1, 4096)) / 64
            if row[q] is not None and not keep(r, i, j):
                new[q] = v if v != row[q] else v + 1
                changed += 1
        out.append(new)
    return out, changed


def _assert_view_kept(case, base, pert, rows, conds, what):
    """harness self-check, independent of `_perturb`'s own predicate and of the library: the perturbed
    object holds, bit for bit, the same dissimilarities as the base object at every (r, i, j) with r among
    `rows` and i, j among `conds` (the view of the fold that must stay as it is: original positions, the
    space `base` is indexed in - `orig` descriptors survive grouping and bootstrap resampling), and the same
    missing-value pattern everywhere.  A failure is a defect of the harness (raised -> INFRA), never
    evidence about the library."""
    nC = case['pat']['n']
    d0 = np.asarray(_build(case, base).dissimilarities, dtype=float)
    d1 = np.asarray(_build(case, pert).dissimilarities, dtype=float)
    if d0.shape != d1.shape or not np.array_equal(np.isnan(d0), np.isnan(d1)):
        raise RuntimeError(f'perturbation ({what}) changed the shape or the missing-value pattern')
    if any(not (0 <= r < d0.shape[0]) for r in rows) or any(not (0 <= c < nC) for c in conds):
        raise RuntimeError(f'perturbation ({what}): fold identifiers are not positions of the input object')
    inside = np.zeros(d0.shape, dtype=bool)
    cols = [q for q, (i, j) in enumerate(_pairs(nC)) if i in conds and j in conds]
    for r in rows:
        inside[r, cols] = True
    if d0[inside].tobytes() != d1[inside].tobytes():
        raise RuntimeError(f'perturbation ({what}) touched the view it must keep: rows {sorted(rows)}, '
                           f'conditions {sorted(conds)}')
    # and nothing outside the view was left as it was by accident of the predicate (a changed entry is
    # always outside): the number of changed entries is what _perturb reports
    return int(np.sum((d0 != d1) & ~np.isnan(d0)))


def _same_float_lists(a, b):
    if len(a) != len(b):
        return False
    for x, y in zip(a, b):
        x, y = np.asarray(x, dtype=float), np.asarray(y, dtype=float)
        if x.shape != y.shape or not np.array_equal(x, y, equal_nan=True):
            return False
    return True


def _crossval_experiment(case):
    base = _base_matrix(case)
    r0 = _cv_once(case, base)
    if r0.get('raised_to_library'):
        # a fragile fitter in 'propagate' mode failed and handed its LinAlgError to the library: C05 is silent
        # on what becomes of that cross-validation (the pinned code lets the exception through), except that
        # the failure must not be answered by a fit on data other than the training set of the fold in turn
        return {'skip': 'fitter failure handed to the library', 'outcome': r0.get('exc'),
                'refit_other_data': bool(r0['refit_other_data'])}, []
    if 'exc' in r0:
        return {'exc': r0['exc']}, r0.get('log', [])
    if case.get('bootcv'):
        r0['log'] = r0['calls']
    live = [q for q, s in enumerate(r0['sets']) if not s['skipped']]
    nM = len(_model_specs(case))
    out = {'n_folds': len(r0['sets']), 'live': live,
           'fit': [{k: c[k] for k in ('rows', 'conds', 'vecs', 'pidx')} for c in r0['fit']],
           'cmp': [{k: c[k] for k in ('rows', 'conds', 'vecs')} for c in r0['cmp']],
           'pred_matches_test': [bool(c['pred_ok']) for c in r0['cmp']],
           'n_models': nM,
           'calls_match': len(r0['fit']) == len(live) * nM and len(r0['cmp']) == len(live) * nM
           and r0['fit_model'] == [j for _ in live for j in range(nM)],
           'stored_matches': [],
           'n_calls': len(r0['calls']),
           'nc_pairs': r0['nc_pairs'],
           'fitter_slots_ok': all(a_ == b_ for a_, b_ in r0['slots']),
           'guard': [[g_[0], g_[1], g_[2] > 0] for g_ in r0['guard']],
           'guard_reps_ok': all(g_[2] in (0, case['bootcv']['n_cv']) for g_ in r0['guard'])
           if case.get('bootcv') else True,
           'k_used': sorted(set((c['k_rdm'], c['k_pattern']) for c in r0['calls'])),
           'theta_stable': [], 'score_stable': [], 'fit_args_stable': [],
           'perturbed_test_only': [], 'perturbed_train_only': [], 'sensitive': False,
           # informational (not part of the model's answer): numerical failures of the library's fitter per
           # call of the base run, and what ended a perturbed re-run early, if anything
           'fit_exc': list(r0['fit_exc']), 'perturbed_exc': [], 'fit_outcome_flipped_elsewhere': False}
    if not out['calls_match']:
        return out, r0['log']
    def same(a, b):
        return _same_float_lists([a], [b])

    for pos, q in enumerate(live):
        s = r0['sets'][q]
        cs = range(pos * nM, (pos + 1) * nM)          # the calls of this fold, one per model
        # what crossval *returned* for (model, fold) is the score of that model on this fold's
        # test set with this fold's θ (as seen at the compare hook and as recomputed directly)
        out['stored_matches'].append(bool(
            len(r0['evals']) == nM and all(len(r0['evals'][j]) == len(r0['sets']) for j in range(nM))
            and len(r0['direct']) == len(live) * nM
            and all(same(r0['evals'][j][q], r0['hook_scores'][pos * nM + j])
                    and r0['direct'][pos * nM + j] is not None
                    and same(r0['evals'][j][q], r0['direct'][pos * nM + j]) for j in range(nM))))
        trr, trc = set(s['train_rows']), set(s['train_conds'])
        ter, tec = set(s['test_rows']), set(s['test_conds'])
        # (a) overwrite every entry that involves a test-only condition or a test-only RDM
        m1, n1 = _perturb(case, base, lambda r, i, j: r in trr and i in trc and j in trc,
                          case['pseed'] + 2 * q)
        if _assert_view_kept(case, base, m1, trr, trc, f'test-only, fold {q}') != n1:
            raise RuntimeError('perturbation (test-only): changed-entry count inconsistent')
        r1 = _cv_once(case, m1, propagate=False)
        # the calls of THIS fold: same data handed over, same outcome of the fit - theta bit for bit, or
        # the same numerical failure of the library's fitter (recorded per call; a failure in another
        # fold, whose training data the perturbation legitimately changed, does not end the run)
        ok_theta = 'exc' not in r1 and len(r1['thetas']) == len(r0['thetas']) \
            and len(r1['fit_exc']) == len(r0['fit_exc']) == len(r0['thetas']) \
            and all(same(r1['thetas'][c], r0['thetas'][c]) and r1['fit_exc'][c] == r0['fit_exc'][c]
                    for c in cs)
        ok_args = 'exc' not in r1 and len(r1['fit']) == len(r0['fit']) \
            and all(r1['fit'][c] == r0['fit'][c] for c in cs)
        out['theta_stable'].append(bool(ok_theta))
        out['fit_args_stable'].append(bool(ok_args))
        out['perturbed_test_only'].append(n1)
        out['perturbed_exc'].append(r1.get('exc'))
        if 'exc' not in r1 and len(r1['fit_exc']) == len(r0['fit_exc']) \
                and any(r1['fit_exc'][c] != r0['fit_exc'][c] for c in range(len(r0['fit_exc'])) if c not in cs):
            out['fit_outcome_flipped_elsewhere'] = True
        # (b) overwrite training-only data, θ held fixed
        m2, n2 = _perturb(case, base, lambda r, i, j: r in ter and i in tec and j in tec,
                          case['pseed'] + 2 * q + 1)
        if _assert_view_kept(case, base, m2, ter, tec, f'train-only, fold {q}') != n2:
            raise RuntimeError('perturbation (train-only): changed-entry count inconsistent')
        r2 = _cv_once(case, m2, fixed_thetas=r0['raw_thetas'])
        ok_score = 'exc' not in r2 and len(r2['evals']) == nM == len(r0['evals']) \
            and all(len(r2['evals'][j]) == len(r0['evals'][j]) > q
                    and same(r2['evals'][j][q], r0['evals'][j][q]) for j in range(nM))
        out['score_stable'].append(bool(ok_score))
        out['perturbed_train_only'].append(n2)
        if 'exc' not in r2 and not same(r2['evals'], r0['evals']):
            out['sensitive'] = True
        if 'exc' not in r1 and not same(r1['evals'], r0['evals']):
            out['sensitive'] = True
    return out, r0['log']


# ------------------------------------------------------------------ round 4: reuse sessions
#
# kind 'session': ONE RDMs object (descriptors as lists or as ndarrays, optionally a bootstrap-resampled
# stack) on which a list of steps is executed in one go:
#   gen   a fold generator (own parameters, descriptor choice and shuffle spec)
#   cv    evaluate.crossval on the sets an earlier gen step returned (the same sets may be used twice)
#   edit  the user changes the object in place: a grouping descriptor re-assigned (whole list / array, or
#         element by element), the dissimilarities overwritten
# Every gen step is judged on its own: its result must be what the model returns for the stand-alone call
# on the content the edits so far produce (pure function of the case's numbers), right after the call AND
# when re-read after every later step; the object must hold that content bit for bit after every call.
# Every cv step must return, bit for bit, what a stand-alone run (fresh object, fresh sets, fresh models)
# returns.

def _session_state(case, j):
    """(rdm axis, pattern axis, matrix or None) of the object before step j — the edits of steps[:j]
    applied to the case's original numbers; fresh containers on every call"""
    rdm, pat = copy.deepcopy(case['rdm']), copy.deepcopy(case['pat'])
    matrix = None
    for st in case['steps'][:j]:
        if st['op'] != 'edit':
            continue
        if st['what'] == 'relabel_rdm':
            rdm['g'] = list(st['g'])
        elif st['what'] == 'relabel_pat':
            pat['g'] = list(st['g'])
        elif st['what'] == 'rewrite':
            cur = matrix if matrix is not None else _base_matrix(
                {'rdm': rdm, 'pat': pat, 'values': case.get('values'), 'dseed': case.get('dseed'),
                 'nan_copies': case.get('nan_copies')})
            rs = np.random.RandomState(st['dseed'])
            matrix = [[None if v is None else int(rs.randint(1, 4096)) / 64 for v in row] for row in cur]
    return rdm, pat, matrix


def _session_eff(case, j):
    """the stand-alone single-call case ('sets') that step j of the session must behave like"""
    st = case['steps'][j]
    rdm, pat, matrix = _session_state(case, j)
    rdm['by'], pat['by'] = st.get('rby', 'index'), st.get('pby', 'index')
    eff = {'kind': 'sets', 'gen': st['gen'], 'params': copy.deepcopy(st['params']), 'rdm': rdm, 'pat': pat,
           'desc_form': case.get('desc_form', 'list')}
    if st.get('shuffle'):
        eff['shuffle'] = copy.deepcopy(st['shuffle'])
    if matrix is not None:
        eff['matrix'] = matrix
    for k in ('values', 'dseed', 'nan_copies'):
        if case.get(k) is not None:
            eff[k] = case[k]
    return eff


def _session_object(case, j):
    """a pristine object holding the content before step j"""
    rdm, pat, matrix = _session_state(case, j)
    c = {'rdm': rdm, 'pat': pat, 'desc_form': case.get('desc_form', 'list'), 'kind': 'session'}
    for k in ('values', 'dseed', 'nan_copies'):
        if case.get(k) is not None:
            c[k] = case[k]
    return _build(c, matrix)


def _apply_edit(obj, st, case, j):
    """the user's in-place edit of step j on the session's object"""
    if st['what'] in ('relabel_rdm', 'relabel_pat'):
        d = obj.rdm_descriptors if st['what'] == 'relabel_rdm' else obj.pattern_descriptors
        new = list(st['g'])
        cur = d['g']
        same_kind = all(isinstance(v, str) for v in new) == all(isinstance(v, (str, np.str_)) for v in cur)
        if st.get('how') == 'inplace' and same_kind and not any(isinstance(v, str) for v in new):
            for q, v in enumerate(new):         # element by element into the existing list / array
                cur[q] = v
        else:
            d['g'] = np.array(new) if case.get('desc_form') == 'ndarray' else new
    else:
        _, _, matrix = _session_state(case, j + 1)
        m = np.array([[np.nan if v is None else float(v) for v in row] for row in matrix], dtype=float)
        obj.dissimilarities[...] = m.reshape(obj.dissimilarities.shape)


def _plain(v):
    return v.item() if hasattr(v, 'item') else v


def _content_same(obj, ref):
    """does `obj` hold exactly the content of the pristine object `ref` (values; nan = nan)"""
    a, b = np.asarray(obj.dissimilarities), np.asarray(ref.dissimilarities)
    if a.shape != b.shape or a.dtype != b.dtype or not np.array_equal(a, b, equal_nan=True):
        return 'dissimilarities'
    for name in ('rdm_descriptors', 'pattern_descriptors'):
        da, db = getattr(obj, name), getattr(ref, name)
        if sorted(da) != sorted(db):
            return name + ' keys'
        for k in db:
            if [_plain(v) for v in da[k]] != [_plain(v) for v in db[k]]:
                return f'{name}[{k!r}]'
    return None


SESSION_FITS = ('fixed', 'select', 'regress', 'regress_nn')


def _session_models(case, st, on):
    _, pat, _ = _session_state(case, on)
    out = []
    for ms in st['models']:
        ms = dict(ms, n_cond=pat['n'], g=list(pat['g']))
        out.append(_make_model(None, ms))
    return out


def _session_cv(case, st, obj, sets, on):
    """evaluate.crossval on `sets` -> evaluations as hex strings, or {'exc': …}"""
    from rsatoolbox.inference import evaluate as ev
    eff = _session_eff(case, on)
    _, pby = _axis(eff, 'pat')
    built = _session_models(case, st, on)
    models = [b[0] for b in built]
    fits = []
    for (m_, f_), ms in zip(built, st['models']):
        if ms.get('ridge'):
            fits.append(lambda mdl, data, f_=f_, r_=ms['ridge'], **kw: f_(mdl, data, ridge_weight=r_, **kw))
        else:
            fits.append(f_)
    train, test, ceil = sets
    with np.errstate(all='ignore'), warnings.catch_warnings():
        warnings.simplefilter('ignore')
        old = signal.signal(signal.SIGALRM, _alarm)
        signal.setitimer(signal.ITIMER_REAL, FIT_SECONDS)
        try:
            res = ev.crossval(models, obj, train, test, ceil_set=ceil, method=st['method'], fitter=fits,
                              pattern_descriptor=pby or 'index', calc_noise_ceil=False)
        except _Timeout:
            return {'exc': 'Timeout'}
        except Exception as exc:  # noqa: BLE001
            return {'exc': _exc_name(exc)}
        finally:
            signal.setitimer(signal.ITIMER_REAL, 0)
            signal.signal(signal.SIGALRM, old)
    return [[float(v).hex() for v in row] for row in np.asarray(res.evaluations, dtype=float)[0]]


def _session_cv_standalone(case, st):
    """the same cross-validation from scratch: pristine object, the generator called afresh with the same
    shuffle spec, fresh models"""
    on = st['on']
    eff = _session_eff(case, on)
    obj = _session_object(case, on)
    with ShuffleTap(eff.get('shuffle')):
        try:
            sets = _call_gen(eff, obj)
        except Exception as exc:  # noqa: BLE001
            return {'exc': _exc_name(exc)}
    return _session_cv(case, st, obj, sets, on)


def _run_session(case, upto=None):
    """-> (records per step, raw outputs per gen step {j: (out, eff, pmap)}).  Everything is built from the
    case's numbers inside this call; nothing is shared with other cases or with the oracle's own run."""
    steps = case['steps'] if upto is None else case['steps'][:upto]
    obj = _session_object(case, 0)
    recs, outs = [], {}
    for j, st in enumerate(steps):
        if st['op'] == 'edit':
            _apply_edit(obj, st, case, j)
            rec = {'op': 'edit'}
        elif st['op'] == 'gen':
            eff = _session_eff(case, j)
            pmap = _codes(_axis(eff, 'pat')[0])
            with ShuffleTap(eff.get('shuffle')) as tap:
                try:
                    out = _call_gen(eff, obj)
                    res = _decode_sets(out, eff, pmap)
                except Exception as exc:  # noqa: BLE001
                    out, res = None, {'exc': _exc_name(exc)}
            rec = {'op': 'gen', 'res': res, 'log': tap.log, 'reread_changed_by': None}
            if out is not None:
                outs[j] = (out, eff, pmap)
        else:
            on = st['on']
            if on in outs:
                ev_ = _session_cv(case, st, obj, outs[on][0], on)
                ref = _session_cv_standalone(case, st)
                rec = {'op': 'cv', 'evals': ev_, 'standalone': ref}
            else:
                rec = {'op': 'cv', 'evals': None, 'standalone': None}    # the generator call was rejected
        bad = _content_same(obj, _session_object(case, j + 1))
        rec['content_changed'] = bad
        recs.append(rec)
        # every result handed out so far is read again: later steps must not have touched it
        for i, (out_i, eff_i, pmap_i) in outs.items():
            if i < j and recs[i]['reread_changed_by'] is None:
                try:
                    now = _decode_sets(out_i, eff_i, pmap_i)
                except Exception as exc:  # noqa: BLE001
                    now = {'unreadable': _exc_name(exc)}
                if now != recs[i]['res']:
                    recs[i]['reread_changed_by'] = j
                    recs[i]['reread'] = now
    return recs, outs


def _session_impl(case):
    recs, _ = _run_session(case)
    res = []
    for r in recs:
        if r['op'] == 'gen':
            res.append({'op': 'gen', 'res': r['res'], 'content_unchanged': r['content_changed'] is None,
                        'reread_unchanged': r['reread_changed_by'] is None})
        elif r['op'] == 'cv':
            res.append({'op': 'cv', 'ran': r['evals'] is not None,
                        'same_as_standalone': r['evals'] == r['standalone'],
                        'content_unchanged': r['content_changed'] is None})
        else:
            res.append({'op': 'edit'})
    return {'steps': res}, [r.get('log', []) for r in recs]


def _session_request(case, logs):
    rdm, pat, _ = _session_state(case, 0)
    n_r, n_c = rdm['n'], pat['n']

    def codes(vals):
        m = _codes(vals)
        return [_code_of(m, v) for v in vals]
    c0 = {'rdm': rdm, 'pat': pat}
    for k in ('values', 'dseed', 'nan_copies'):
        if case.get(k) is not None:
            c0[k] = case[k]
    state = {'rG': codes(rdm['g']), 'rIdx': [int(v) for v in (rdm.get('index') or range(n_r))],
             'pG': codes(pat['g']), 'pIdx': [int(v) for v in (pat.get('index') or range(n_c))],
             'dis': [[_num(v) for v in row] for row in _base_matrix(c0)]}
    steps = []
    for j, st in enumerate(case['steps']):
        if st['op'] == 'gen':
            eff = _session_eff(case, j)
            req = _sets_request(eff, logs[j])
            for k in ('op', 'rdesc', 'pdesc', 'dis'):
                req.pop(k)
            req['rby'] = 'g' if eff['rdm']['by'] == 'g' else 'index'
            req['pby'] = 'g' if eff['pat']['by'] == 'g' else 'index'
            steps.append({'call': req})
        elif st['op'] == 'edit':
            if st['what'] == 'relabel_rdm':
                steps.append({'edit': {'rG': codes(st['g'])}})
            elif st['what'] == 'relabel_pat':
                steps.append({'edit': {'pG': codes(st['g'])}})
            else:
                _, _, matrix = _session_state(case, j + 1)
                steps.append({'edit': {'dis': [[_num(v) for v in row] for row in matrix]}})
        else:
            steps.append({'noop': True})
    return {'op': 'c05.session', 'state': state, 'steps': steps}


def _session_model(case, answer):
    if isinstance(answer, dict) and 'model_error' in answer:
        return answer
    out = []
    gen_ok = {}
    for j, (st, a) in enumerate(zip(case['steps'], answer)):
        if st['op'] == 'gen':
            r = a['res']
            if isinstance(r, dict) and 'model_error' in r:
                return r
            if 'exc' in r:
                res = {'exc': r['exc']}
            else:
                folds = [{k: _canon_part(f[k]) for k in ('train', 'test', 'ceil')} for f in r['folds']]
                res = {'folds': folds, 'n_train': r['n_train'], 'n_test': r['n_test'], 'n_ceil': r['n_ceil']}
            gen_ok[j] = 'exc' not in r
            out.append({'op': 'gen', 'res': res, 'content_unchanged': bool(a['content_unchanged']),
                        'reread_unchanged': True})
        elif st['op'] == 'cv':
            out.append({'op': 'cv', 'ran': bool(gen_ok.get(st['on'])), 'same_as_standalone': True,
                        'content_unchanged': True})
        else:
            out.append({'op': 'edit'})
    return {'steps': out}


def _session_valid_cv(case, st):
    """is the cv step inside the domain: an accepted generator call whose folds crossval can evaluate"""
    return _valid_call(_session_eff(case, st['on']))


def _oracle_session(case):
    """every call of the session judged on its own against the case's numbers"""
    recs, outs = _run_session(case)
    for j, (st, r) in enumerate(zip(case['steps'], recs)):
        feat = {'gen': st.get('gen', st['op']), 'default_pattern_descriptor': False, 'step': j,
                'session': True}
        if st['op'] == 'gen':
            eff = _session_eff(case, j)
            valid = _valid_call(eff)
            if 'exc' in r['res']:
                if valid:
                    return _viol(f"session on one object: generator {st['gen']} raises on arguments inside its "
                                 f"documented domain (step {j})", r['res']['exc'],
                                 'a list of (train, test) sets', exc=r['res']['exc'], **feat)
                continue
            if not valid:
                continue
            bad = _check_sets(eff, outs[j][0])         # the objects as they are at the END of the session
            if r['reread_changed_by'] is not None:
                return _viol(f"session on one object: the sets handed out by {st['gen']} changed while a later step "
                             f"ran (step {j} re-read after step {r['reread_changed_by']}: results of an earlier "
                             f"call are not the caller's own)",
                             'contents / pattern_idx differ from what the call returned',
                             'unchanged', changed_by=r['reread_changed_by'], **feat)
            if bad:
                bad['what'] = 'session on one object: ' + bad['what'] + f' (step {j})'
                bad['features'] = dict(bad.get('features', {}), **feat)
                return bad
        if st['op'] == 'cv' and r['evals'] is not None and _session_valid_cv(case, st):
            if r['evals'] != r['standalone'] and not (isinstance(r['standalone'], dict)
                                                      and isinstance(r['evals'], dict)):
                return _viol(f"session on one object: crossval does not return what the same cross-validation "
                             f"returns when run from scratch - fitted parameters / scores depend on what was "
                             f"computed before (step {j} on the sets of step {st['on']})",
                             r['evals'], r['standalone'], part='session_cv', **feat)
        if st['op'] != 'edit' and r['content_changed']:
            return _viol(f"session on one object: the RDMs object passed in was modified by the call "
                         f"(step {j}, {st.get('gen', 'crossval')}: {r['content_changed']})", r['content_changed'],
                         'input object unchanged',
                         part='input_modified', **feat)
    return None


# ------------------------------------------------------------------ engine callbacks

def _impl_cached(case):
    k = _key(case)
    if k not in _CACHE:
        if len(_CACHE) > 20000:
            _CACHE.clear()
        kind = case['kind']
        if kind == 'sets':
            res, log, _ = _run_sets(case)
        elif kind == 'crossval':
            res, log = _crossval_experiment(case)
        elif kind == 'session':
            res, log = _session_impl(case)
        else:
            from rsatoolbox.inference.evaluate import _concat_sampling
            res, log = [int(v) for v in _concat_sampling(list(case['s1']), list(case['s2']))], []
        if _key(case) != k:
            # the case's own numbers were reached through a shared reference (harness defect, not the library's)
            raise RuntimeError('case mutated while it was run: an input container is shared with the library')
        _CACHE[k] = (res, log)
    return _CACHE[k]


def run_impl(case):
    return _impl_cached(case)[0]


def _sets_request(case, log):
    rvals, _ = _axis(case, 'rdm')
    pvals, _ = _axis(case, 'pat')
    rmap, pmap = _codes(rvals), _codes(pvals)
    prm = case['params']
    req = {'op': 'c05.sets', 'gen': case['gen'],
           'rdesc': [_code_of(rmap, v) for v in rvals], 'pdesc': [_code_of(pmap, v) for v in pvals],
           'dis': [[_num(v) for v in row] for row in _base_matrix(case)]}
    for k in ('k_rdm', 'k_pattern', 'k', 'n_rdm', 'n_pattern'):
        if prm.get(k) is not None:
            req[k] = prm[k]
    g = case['gen']
    rlog = lambda l: [_code_of(rmap, v) for v in l]   # noqa: E731
    plog = lambda l: [_code_of(pmap, v) for v in l]   # noqa: E731
    if g == 'random':
        req['draws'] = [[rlog(log[q]), plog(log[q + 1])] for q in range(0, len(log) - 1, 2)]
    elif prm.get('random') and log:
        if g == 'k_fold':
            req['rsel'] = rlog(log[0])
            req['psels'] = [plog(l) for l in log[1:]]
        elif g in ('k_fold_rdm', 'of_k_rdm'):
            req['rsel'] = rlog(log[0])
        elif g in ('k_fold_pattern', 'of_k_pattern'):
            req['psel'] = plog(log[0])
    if case.get('boot_pidx') is not None:
        req['boot_pidx'] = [_code_of(pmap, v) for v in case['boot_pidx']]
    return req


def model_requests(case):
    if case['kind'] == 'concat':
        return [{'op': 'c05.concat', 's1': case['s1'], 's2': case['s2']}]
    res, log = _impl_cached(case)
    if case['kind'] == 'session':
        return [_session_request(case, log)]
    if isinstance(res, dict) and 'skip' in res:
        return []
    if case.get('bootcv'):
        prm = case['params']
        shrink_ = 1 - 1 / float(np.exp(1))
        reqs = [{'op': 'c05.default_k', 'n_rdm_groups': _n_groups(case, 'rdm'),
                 'x_rdm': fbits(shrink_ * _n_groups(case, 'rdm')),
                 'x_pattern': fbits(shrink_ * _n_groups(case, 'pat')),
                 'k_rdm': prm.get('k_rdm'), 'k_pattern': prm.get('k_pattern'),
                 'samples': [[g_[0], g_[1]] for g_ in res.get('guard', [])] if isinstance(res, dict) else []}]
        for c in (log if isinstance(res, dict) and 'exc' not in res else []):
            r = {'op': 'c05.sets', 'gen': 'k_fold', 'rdesc': c['rdesc'], 'pdesc': c['pdesc'],
                 'dis': c['dis'], 'k_rdm': c['k_rdm'], 'k_pattern': c['k_pattern'],
                 'boot_pidx': c['boot_pidx'], 'psels': c['psels']}
            if c['rsel'] is not None:
                r['rsel'] = c['rsel']
            reqs.append(r)
        return reqs
    if case['kind'] == 'crossval' and case.get('boot_pidx') is not None:
        return [_sets_request(case, log),
                {'op': 'c05.boot_guard', 'samples': [], 'k_rdm': case['params']['k_rdm'],
                 'k_pattern': case['params']['k_pattern']}]
    return [_sets_request(case, log)]


def _nc_pair(pr):
    return [sorted(pr[0]), list(pr[1]), sorted(pr[2]), list(pr[3])]


def _canon_part(p):
    if p is None:
        return None
    rows, vecs = p['rows'], p.get('vecs', [[] for _ in p['rows']])
    order = sorted(range(len(rows)), key=lambda q: (rows[q], json.dumps(vecs[q])))
    return {'rows': [rows[q] for q in order], 'conds': p['conds'], 'pidx': sorted(p['pidx']),
            'vecs': [vecs[q] for q in order]}


def model_result(case, answers):
    if case['kind'] == 'session':
        return _session_model(case, answers[0])
    if case['kind'] == 'crossval' and (not answers or case.get('bootcv')):
        for a in answers:
            if isinstance(a, dict) and 'model_error' in a:
                return a
            if isinstance(a, dict) and 'exc' in a:
                return {'model_error': 'model rejects a sample the implementation cross-validated: ' + a['exc']}
        kdef, answers = (answers[0], answers[1:]) if case.get('bootcv') and answers else (None, answers)
        folds = [dict({k: _canon_part(f[k]) for k in ('train', 'test', 'ceil')}, skip=f['skip'])
                 for a in answers for f in a['folds']]
        cv_nc = bool(kdef[3]) if kdef is not None else False
        a = {'n_calls': len(answers),
             'nc_pairs': [_nc_pair(pr) for a_ in answers for pr in (a_['nc_pairs'] or [])] if cv_nc else []}
        if kdef is not None:
            a['k_used'] = [[int(kdef[0]), int(kdef[1])]] if answers else []
            impl_, _ = _impl_cached(case)
            samples = impl_.get('guard', []) if isinstance(impl_, dict) else []
            a['guard'] = [[g_[0], g_[1], bool(r_)] for g_, r_ in zip(samples, kdef[2])]
            a['guard_reps_ok'] = True
    else:
        a = answers[0]
        if case['kind'] == 'concat':
            return a
        if isinstance(a, dict) and 'model_error' in a:
            return a
        if 'exc' in a:
            return {'exc': a['exc']}
        folds = [dict({k: _canon_part(f[k]) for k in ('train', 'test', 'ceil')}, skip=f['skip'])
                 for f in a['folds']]
        if case['kind'] == 'sets':
            # the three lists as the model (built from the source-derived leaves) returns them
            return {'folds': [{k: f[k] for k in ('train', 'test', 'ceil')} for f in folds],
                    'n_train': a['n_train'], 'n_test': a['n_test'], 'n_ceil': a['n_ceil']}
        if not a['crossval_accepts']:
            return {'exc': 'AssertionError'}
        glue = case.get('glue', {})
        if case.get('boot_pidx') is not None:
            uses = bool(answers[1]['cv_nc'])
        else:
            uses = bool(case.get('calc_nc')) and not glue.get('omit_ceil') and a['n_ceil'] is not None
        a = dict(a, nc_pairs=[_nc_pair(pr) for pr in (a['nc_pairs'] or [])] if uses else [])
    # crossval: what the fitter / the comparison must receive, fold by fold; which folds crossval
    # skips is decided by the model (skip test from the source-derived leaf)
    live = [q for q, f in enumerate(folds) if not f['skip']]
    nM = len(_model_specs(case))
    return {'n_folds': len(folds), 'live': live, **({'n_calls': a['n_calls']} if 'n_calls' in a else {}),
            **({'k_used': a['k_used']} if 'k_used' in a else {}),
            **({k_: a[k_] for k_ in ('nc_pairs', 'guard', 'guard_reps_ok') if k_ in a}),
            'fitter_slots_ok': True,
            'n_models': nM,
            # every model of a fold is fitted on the same training part and scored on the same test part
            'fit': [{k: folds[q]['train'][k] for k in ('rows', 'conds', 'vecs', 'pidx')}
                    for q in live for _ in range(nM)],
            'cmp': [{k: folds[q]['test'][k] for k in ('rows', 'conds', 'vecs')}
                    for q in live for _ in range(nM)],
            'pred_matches_test': [True] * (len(live) * nM), 'calls_match': True,
            'stored_matches': [True] * len(live),
            'theta_stable': [True] * len(live), 'score_stable': [True] * len(live),
            'fit_args_stable': [True] * len(live)}


def compare(case, impl, model):
    if isinstance(model, dict) and 'model_error' in model:
        return f"model error: {model['model_error']}"
    if isinstance(impl, dict) and 'skip' in impl:
        return 'refit_other_data: True != False' if impl.get('refit_other_data') else None
    if case['kind'] == 'crossval' and isinstance(impl, dict) and 'exc' not in impl:
        impl = {k: v for k, v in impl.items() if k in model}
    return first_diff(impl, model, rtol=0, atol=0)


# ------------------------------------------------------------------ features

def _many_style(vals):
    """'str-many' / 'float-many' / 'sparse-int-many' when the values form >= 20 groups of >= 2 members each
    and are strings / floats / integers spread over more than 100 x their number; else None"""
    cnt = {}
    for v in vals:
        cnt[str(v)] = cnt.get(str(v), 0) + 1
    if len(cnt) < 20 or min(cnt.values()) < 2:
        return None
    if all(isinstance(v, str) for v in vals):
        return 'str-many'
    if all(_is_float(v) for v in vals):
        return 'float-many'
    if all(_is_int(v) for v in vals) and max(vals) - min(vals) > 100 * len(vals):
        return 'sparse-int-many'
    return None


def _long_selection(case, impl, rdm_axis):
    """does some training set of the call hold >= 20 groups of that axis (a selection by >= 20 values)?"""
    vals = _axis(case, 'rdm' if rdm_axis else 'pat')[0]
    key = 'rows' if rdm_axis else 'conds'
    parts = [f['train'] for f in impl.get('folds', []) if f.get('train')] if case['kind'] == 'sets' \
        else impl.get('fit', [])
    for p_ in parts:
        try:
            if len(set(str(vals[q]) for q in p_[key])) >= 20:
                return True
        except (IndexError, TypeError, KeyError):
            continue
    return False


def _n_groups(case, which):
    return len(set(map(str, _axis(case, which)[0])))


def features(case, impl):
    kind = case['kind']
    if kind == 'concat':
        return {'kind': kind, 'branches': ['concat']}
    if kind == 'session':
        return _session_features(case, impl)
    g, prm = case['gen'], case['params']
    br = ['gen:' + g, 'random:true' if prm.get('random') or g == 'random' else 'random:false']
    rvals, _ = _axis(case, 'rdm')
    pvals, pby = _axis(case, 'pat')
    if case['rdm']['by'] == 'g' and len(set(map(str, rvals))) < len(rvals):
        br.append('grouped:rdm')
    if case['pat']['by'] == 'g' and len(set(map(str, pvals))) < len(pvals):
        br.append('grouped:pattern')
    if case['rdm'].get('index') and len(set(case['rdm']['index'])) < len(case['rdm']['index']):
        br.append('copies:rdm')
    if case['pat'].get('index') and len(set(case['pat']['index'])) < len(case['pat']['index']):
        br.append('copies:pattern')
    if any(isinstance(v, str) for v in rvals + pvals):
        br.append('labels:str')
    # round 7: many groups (>= 20) with >= 2 members each whose labels are not small-range integers, on an
    # axis the generator splits, in a call that is not rejected and that lists >= 20 values in a selection
    if isinstance(impl, dict) and 'exc' not in impl and 'skip' not in impl:
        for vals_, on_ in ((rvals, case['rdm']['by'] == 'g' and g not in ('k_fold_pattern', 'of_k_pattern',
                                                                         'loo_pattern')),
                           (pvals, case['pat']['by'] == 'g' and g not in RDM_ONLY)):
            st_ = _many_style(vals_) if on_ else None
            if st_ and _long_selection(case, impl, vals_ is rvals):
                br.append('labels:' + st_)
    nrg, npg = _n_groups(case, 'rdm'), _n_groups(case, 'pat')
    ks = [(prm.get('k_rdm'), nrg) if g in ('k_fold', 'k_fold_rdm') else None,
          (prm.get('k_pattern'), npg) if g == 'k_fold' else None,
          (prm.get('k'), npg) if g == 'k_fold_pattern' else None]
    for kn in ks:
        if kn is None:
            continue
        k, n = kn
        if k is None:
            br.append('k:default')
        elif k == 1:
            br.append('k:one')
        elif k == n:
            br.append('k:all')
        if k and 0 < k <= n and n % k:
            br.append('uneven')
    if isinstance(impl, dict) and 'exc' in impl:
        br.append('exc:' + impl['exc'])
    if kind == 'sets' and isinstance(impl, dict) and 'exc' not in impl:
        br.append('desc:' + _desc_form(case))
    f = {'kind': kind, 'gen': g, 'n_rdm': case['rdm']['n'], 'n_cond': case['pat']['n'],
         'rdm_by': str(case['rdm']['by']), 'pattern_by': str(pby),
         'random': bool(prm.get('random')), 'branches': br,
         'default_pattern_descriptor': g == 'of_k_pattern' and pby is None}
    if g == 'loo_rdm' and nrg == 1:
        br.append('loo:single_group')
    okres = isinstance(impl, dict) and 'exc' not in impl and 'skip' not in impl
    if g == 'random' and okres and (prm.get('n_rdm') is None or prm.get('n_pattern') is None):
        br.append('random:default_sizes')
    if g in ('of_k_rdm', 'of_k_pattern') and okres and prm.get('k'):
        n_ = nrg if g == 'of_k_rdm' else npg
        k_ = prm['k']
        if 2 * k_ <= n_ and n_ // (n_ // k_) + (1 if n_ % (n_ // k_) else 0) > k_ + 1:
            br.append('of_k:not_k_or_k1')       # the docstring's "groups of k or k+1" does not hold
    if kind == 'crossval':
        ok = isinstance(impl, dict) and 'exc' not in impl and 'skip' not in impl
        if case.get('bootcv'):
            br.append('cv:bootcv')
            if ok and impl.get('n_calls'):
                br.append('bootcv:' + case['bootcv']['boot_type'])
                if case['params'].get('k_rdm') is None:
                    br.append('bootcv:default_k')
        else:
            br.append('cv:boot' if case.get('boot_pidx') is not None else 'cv:direct')
        br.append('cv:' + case['model']['type'])
        if ok and any(b_.startswith('labels:') and b_.endswith('-many') for b_ in br):
            br.append('cv:labels-many')
        if case['model'].get('fitter') and ok:
            br.append('fit:' + case['model']['fitter'])
        if ok and case['method'].endswith('_cov'):
            br.append('cv:cov_method')
        if ok and case.get('calc_nc'):
            br.append('cv:nc_given_ceil' if g not in ('k_fold_pattern', 'of_k_pattern') else 'cv:nc_no_ceil')
        if ok and impl.get('n_folds', 0) > len(impl.get('live', [])):
            br.append('cv:skipped_fold')
        glue = case.get('glue', {})
        if ok and glue.get('omit_ceil'):
            br.append('cv:omit_ceil')
        if ok and glue.get('pdesc_default') and (pby or 'index') == 'index':
            br.append('cv:pdesc_default')
        if ok and glue.get('fitter_form') in ('list', 'default'):
            br.append('cv:fitter_' + glue['fitter_form'])
        if ok and impl.get('nc_pairs'):
            br.append('cv:nc_pairs')
        if ok and case.get('bootcv'):
            if any(not g_[2] for g_ in impl.get('guard', [])):
                br.append('bootcv:guard_rejects')
            if any(g_[2] for g_ in impl.get('guard', [])):
                br.append('bootcv:guard_accepts')
        if ok and case['model'].get('fitter') == 'regress_nn' \
                and (case.get('bootcv') or case.get('boot_pidx') is not None):
            br.append('fit:regress_nn_boot')
        if ok and case.get('bare_model'):
            br.append('cv:bare_model')
        if isinstance(impl, dict) and impl.get('skip') and not impl.get('refit_other_data'):
            br.append('cv:fitter_failure_propagated')
        if ok and any(impl.get('fit_exc', [])):
            br.append('cv:fitter_raised')            # a fit of the base run failed numerically (per call)
        if ok and impl.get('fit_outcome_flipped_elsewhere'):
            br.append('cv:fit_failure_other_fold')   # ... and a perturbed run flipped another fold's outcome
        if ok and impl.get('n_models', 1) >= 2 and len(impl.get('live', [])) >= 2:
            br.append('cv:multi_model_multi_fold')
            if impl.get('n_models') >= 3:
                br.append('cv:three_models')
        f['n_models'] = len(_model_specs(case))
        if isinstance(impl, dict) and any(impl.get('perturbed_test_only', [])) \
                and any(impl.get('perturbed_train_only', [])) and impl.get('sensitive'):
            br.append('cv:perturbed')
        f['model'] = case['model']['type']
        f['method'] = case['method']
    return f


def nontrivial_key(case, impl):
    if case['kind'] == 'concat':
        return ['concat', case['s1'], case['s2']] if len(set(case['s1'])) < len(case['s1']) else None
    if case['kind'] == 'session':
        gens = [r for r in impl.get('steps', []) if r['op'] == 'gen']
        if sum(1 for r in gens if 'exc' in r['res'] or r['res'].get('n_train', 0) >= 2) < 2:
            return None
        return ['session', case['rdm'], case['pat'], case.get('desc_form'), case['steps']]
    if isinstance(impl, dict) and 'skip' in impl:
        return None
    if isinstance(impl, dict) and 'exc' in impl:
        return [case['kind'], case['gen'], 'exc', case['params'], case['rdm'], case['pat']]
    n = impl.get('n_train') if case['kind'] == 'sets' else impl.get('n_folds')
    if not n or n < 2:
        return None
    return [case['kind'], case['gen'], case['params'], case['rdm'], case['pat'],
            case.get('shuffle'), case.get('model'), case.get('extra_models'), case.get('boot_pidx'),
            case.get('bootcv'),
            case.get('method'), case.get('calc_nc'), case.get('glue')]


# ------------------------------------------------------------------ generators

def _labels(rng, n, n_groups, strings):
    """n labels over exactly n_groups groups, in random arrangement"""
    if strings:
        pool = rng.sample(['ab', 'b', 'B', 'a', 'c10', 'c9', 'zz', 'A1', 'd', 'e', 'f', 'g', 'h2', 'H', 'x'],
                          n_groups)
    else:
        pool = rng.sample(range(0, 3 * n + 2), n_groups)
    lab = list(pool) + [rng.choice(pool) for _ in range(n - n_groups)]
    rng.shuffle(lab)
    return lab


def _gen_axis(rng, n, allow_copies=True):
    """descriptor set-up of one axis: grouping by 'g' (repeated values) or by 'index' (optionally
    with repeated index values = bootstrap copies)"""
    mode = rng.choice(['index', 'index', 'g', 'g', 'copies'] if allow_copies else ['index', 'g'])
    strings = rng.random() < 0.3
    ng = rng.randint(max(2, n // 2), n) if n > 2 else n
    ax = {'n': n, 'by': 'index', 'g': _labels(rng, n, ng, strings), 'index': None}
    if mode == 'g':
        ax['by'] = 'g'
    elif mode == 'copies':
        # a bootstrap sample: n draws with replacement from n originals, sorted by original position
        draws = sorted(rng.randrange(n) for _ in range(n))
        if len(set(draws)) < 2:
            draws[-1] = (draws[0] + 1) % n
            draws.sort()
        ax['index'] = draws
    return ax


def _script(rng, sizes):
    out = []
    for s in sizes:
        p = list(range(s))
        rng.shuffle(p)
        out.append(p)
    return out


def _shuffle_spec(rng, case, n_calls_sizes):
    if rng.random() < 0.5:
        return {'seed': rng.randrange(10 ** 6)}
    return {'script': _script(rng, n_calls_sizes)}


def _gen_sets_case(rng, gen=None, malformed=False):
    nR, nC = rng.randint(2, 9), rng.randint(3, 10)
    gen = gen or rng.choice(GENS)
    if gen == 'of_k_pattern' and rng.random() < 0.3:
        nC = rng.randint(11, 14)      # >= 11 groups: test folds larger than k + 1 become possible
    if gen == 'of_k_rdm' and rng.random() < 0.3:
        nR = rng.randint(11, 13)
    case = {'kind': 'sets', 'gen': gen, 'rdm': _gen_axis(rng, nR), 'pat': _gen_axis(rng, nC)}
    if gen == 'loo_rdm' and rng.random() < 0.15:
        # a single RDM group: leave-one-out degenerates to the whole object as its own test set
        lab = rng.choice([3, 'ab'])
        case['rdm'].update({'by': 'g', 'g': [lab] * nR, 'index': None})
    nrg, npg = _n_groups(case, 'rdm'), _n_groups(case, 'pat')
    rnd = rng.random() < 0.5
    prm = {'random': rnd}
    sizes = []

    def pick_k(n):
        r = rng.random()
        if malformed:
            return rng.choice([0, n + 1, n + 2])
        if r < 0.12:
            return None
        if r < 0.24:
            return 1
        if r < 0.36:
            return n
        return rng.randint(1, n)

    if gen == 'k_fold':
        prm['k_rdm'], prm['k_pattern'] = pick_k(nrg), pick_k(npg)
        if malformed and rng.random() < 0.5:
            prm[rng.choice(['k_rdm', 'k_pattern'])] = rng.randint(1, 2)
        kr = prm['k_rdm'] if prm['k_rdm'] is not None else 5
        sizes = [nrg] + [npg] * max(kr, 1)
    elif gen == 'k_fold_rdm':
        prm['k_rdm'] = pick_k(nrg)
        sizes = [nrg]
    elif gen == 'k_fold_pattern':
        prm['k'] = pick_k(npg)
        sizes = [npg]
    elif gen in ('of_k_rdm', 'of_k_pattern'):
        n = nrg if gen == 'of_k_rdm' else npg
        prm['k'] = rng.choice([0, n // 2 + 1, n]) if malformed else rng.randint(1, max(1, n // 2))
        if not malformed and n >= 11 and rng.random() < 0.5:
            prm['k'] = 4 if n == 11 else rng.choice([k_ for k_ in range(2, n // 2 + 1)
                                                     if n // (n // k_) + (1 if n % (n // k_) else 0) > k_ + 1]
                                                    or [n // 2])
        sizes = [n]
        if gen == 'of_k_pattern' and INCLUDE_DEFAULT_NONE and not malformed and case['pat']['by'] == 'index' \
                and rng.random() < 0.3:
            case['pat']['by'] = None
    elif gen == 'random':
        prm['n_cv'] = rng.randint(1, 3)
        prm['n_rdm'] = rng.choice([None, 0, rng.randint(1, nrg)])
        prm['n_pattern'] = rng.choice([None, 0, rng.randint(1, npg - 1)])
        if malformed:
            if rng.random() < 0.5:
                prm['n_rdm'] = nrg + rng.randint(1, 2)
            else:
                prm['n_pattern'] = npg + rng.randint(1, 2)
        sizes = [nrg, npg] * prm['n_cv']
    case['params'] = prm
    if rnd or gen == 'random':
        case['shuffle'] = _shuffle_spec(rng, case, sizes)
    return case


def _extra_models(rng, case):
    """one or two further models (cheap, deterministic fitters; own seeds -> distinguishable
    predictions) unless the case passes a bare Model"""
    if case.get('bare_model'):
        return
    base = case['model']
    extra = []
    for _ in range(rng.choice([1, 2, 2])):
        ms = {'type': rng.choice(['fixed', 'select', 'weighted']), 'n_cond': base['n_cond'],
              'n_rdm': rng.randint(2, 3), 'seed': rng.randrange(10 ** 6)}
        if base.get('g'):
            ms['g'] = list(base['g'])
        if ms['type'] == 'weighted':
            ms['fitter'] = rng.choice(['regress', 'regress', 'regress_nn'])
            if ms['fitter'] == 'regress':
                ms['ridge'] = rng.choice([0.5, 1.0, 2.0])
                if ms['seed'] % 4 == 1:         # round 5; no extra draw: the case streams of a seed stay
                    # as they were apart from this flag; every third fragile fitter hands its failure to
                    # the library in the base run instead of being caught by the recording fitter
                    ms['fragile'] = 'propagate' if (ms['seed'] // 4) % 3 == 0 else True
        extra.append(ms)
    pos = rng.randint(0, len(extra))          # the primary model is not always the first
    case['extra_models'] = extra
    case['primary_pos'] = pos


def _gen_bootcv_case(rng):
    """the public entry point bootstrap_crossval (real bootstrap draws under a seed, every sample
    it cross-validates is described to the model by a hook on _internal_cv)"""
    nR, nC = rng.randint(3, 6), rng.randint(7, 12)     # 7-8 conditions, k_pattern = 2: the guard
    rax = _gen_axis(rng, nR, allow_copies=False)          # (>= 3 * k_pattern distinct) often rejects
    pat = _gen_axis(rng, nC, allow_copies=False)
    if pat['by'] == 'g':                      # few, large pattern groups would never pass the guard
        pat['g'] = _labels(rng, nC, rng.randint(nC - 2, nC), isinstance(pat['g'][0], str))
    mtype = rng.choice(['fixed', 'select', 'weighted'])
    case = {'kind': 'crossval', 'gen': 'k_fold', 'rdm': rax, 'pat': pat,
            'params': {'random': True, 'k_rdm': rng.randint(1, 2), 'k_pattern': rng.randint(1, 2)},
            'bootcv': {'seed': rng.randrange(10 ** 6), 'N': rng.randint(2, 4), 'n_cv': rng.randint(1, 2),
                       'boot_type': rng.choice(['both', 'rdm', 'pattern'])},
            'shuffle': {'seed': rng.randrange(10 ** 6)},
            'model': {'type': mtype, 'n_cond': nC, 'n_rdm': rng.randint(2, 3),
                      'seed': rng.randrange(10 ** 6), 'g': list(pat['g'])},
            'values': 'random', 'dseed': rng.randrange(10 ** 6), 'pseed': rng.randrange(10 ** 6),
            'method': rng.choice(['cosine', 'corr'])}
    if mtype == 'weighted':
        case['model']['fitter'] = rng.choice(['regress', 'regress_nn'])
        if case['model']['fitter'] == 'regress':
            case['model']['ridge'] = rng.choice([0.5, 1.0])
    if rng.random() < 0.3:
        # default fold counts: default_k_*((1 - 1/e) * number of groups), 1 for a single rdm group
        case['params'] = {'random': True, 'k_rdm': None, 'k_pattern': None}
        if rng.random() < 0.3:
            case['bare_model'] = True
        if rng.random() < 0.3:
            case['rdm'].update({'by': 'g', 'g': [7] * nR, 'index': None})
    _extra_models(rng, case)
    return case


def _gen_crossval_case(rng):
    u = rng.random()
    if u < 0.15:
        return _gen_bootcv_case(rng)
    boot = u < 0.45
    nR = rng.randint(2, 6)
    mtype = rng.choice(['fixed', 'select', 'weighted', 'weighted', 'weighted', 'interpolate'])
    fit_name = rng.choice(['regress', 'regress', 'regress', 'fitter_obj', 'fitter_obj', 'regress_nn',
                           'regress_nn', 'optimize', 'optimize_positive'])
    slow = mtype == 'weighted' and fit_name.startswith('optimize')   # BFGS from several starts
    if slow:
        boot = False
    method = rng.choice(['cosine', 'corr'])
    calc_nc = False
    if boot:
        n0 = rng.randint(7, 11)                      # original conditions
        # a bootstrap draw with at least 6 distinct conditions (bootstrap_crossval only
        # cross-validates samples with >= 3 * k_pattern distinct conditions)
        distinct = rng.sample(range(n0), rng.randint(6, n0 - 1))
        draws = sorted(distinct + [rng.choice(distinct) for _ in range(n0 - len(distinct))])
        boot_pidx = list(draws)
        rng.shuffle(boot_pidx)
        rax = _gen_axis(rng, nR, allow_copies=True)
        pat = {'n': n0, 'by': 'index', 'g': list(range(n0)), 'index': draws}
        nrg = len(set(map(str, _axis({'rdm': rax}, 'rdm')[0])))
        npg = len(set(draws))
        prm = {'random': True, 'k_rdm': rng.randint(1, min(nrg, 3)), 'k_pattern': rng.randint(1, 2)}
        case = {'kind': 'crossval', 'gen': 'k_fold', 'rdm': rax, 'pat': pat, 'params': prm,
                'boot_pidx': boot_pidx, 'nan_copies': True,
                'model': {'type': mtype, 'n_cond': n0, 'n_rdm': rng.randint(2, 3), 'seed': rng.randrange(10 ** 6)}}
        kr = prm['k_rdm']
        case['shuffle'] = _shuffle_spec(rng, case, [nrg] + [npg] * kr)
    else:
        nC = rng.randint(6, 10)
        gen = rng.choice(['k_fold', 'k_fold', 'k_fold_rdm', 'k_fold_pattern', 'random', 'loo_rdm',
                          'loo_pattern', 'of_k_pattern'])
        if slow:
            gen = rng.choice(['k_fold_rdm', 'k_fold_pattern'])
        rax = _gen_axis(rng, nR, allow_copies=False)
        pat = _gen_axis(rng, nC, allow_copies=False)
        if gen in RDM_ONLY:
            pat['by'] = 'index'
        case = {'kind': 'crossval', 'gen': gen, 'rdm': rax, 'pat': pat}
        nrg, npg = _n_groups(case, 'rdm'), _n_groups(case, 'pat')
        rnd = rng.random() < 0.5
        prm = {'random': rnd}
        sizes = []
        # the noise ceiling is requested only when every test fold keeps >= 3 condition groups
        calc_nc = gen in ('k_fold', 'k_fold_rdm', 'k_fold_pattern', 'loo_rdm') and rng.random() < 0.5
        kp_max = max(1, npg // 3) if calc_nc else npg
        if gen == 'k_fold':
            prm['k_rdm'] = rng.randint(1, min(nrg, 3))
            prm['k_pattern'] = rng.randint(1, min(kp_max, 4))
            sizes = [nrg] + [npg] * prm['k_rdm']
        elif gen == 'k_fold_rdm':
            prm['k_rdm'] = 2 if slow else rng.randint(2, nrg)
            sizes = [nrg]
        elif gen == 'k_fold_pattern':
            prm['k'] = min(2, kp_max) if slow else rng.randint(1, min(kp_max, 5))
            sizes = [npg]
        elif gen == 'of_k_pattern':
            prm['k'] = rng.randint(1, max(1, npg // 2))
            sizes = [npg]
        elif gen == 'random':
            prm['n_cv'] = 2
            prm['n_rdm'] = rng.randint(0, nrg - 1)
            prm['n_pattern'] = rng.randint(0, max(0, npg - 3))
            sizes = [nrg, npg] * 2
        case['params'] = prm
        if rnd or gen == 'random':
            case['shuffle'] = _shuffle_spec(rng, case, sizes)
        case['model'] = {'type': mtype, 'n_cond': nC, 'n_rdm': rng.randint(2, 3),
                         'seed': rng.randrange(10 ** 6), 'g': list(pat['g'])}
    if mtype == 'weighted':
        case['model']['fitter'] = fit_name
        if slow:
            case['model']['n_rdm'] = 2
        if case['model']['fitter'] in ('regress', 'fitter_obj'):
            case['model']['ridge'] = rng.choice([0.5, 1.0, 2.0])
        if case['model']['fitter'] in ('regress', 'fitter_obj', 'regress_nn') and not boot \
                and rng.random() < 0.3:
            method = rng.choice(['cosine_cov', 'corr_cov'])
    if calc_nc:
        case['calc_nc'] = True
    if not boot and rng.random() < 0.12:
        case['bare_model'] = True       # a Model instead of a list of models
    if not boot:
        # the glue around the modelled core: ceil_set passed or omitted, pattern_descriptor passed or
        # left to its default, one fitter / a list of fitters / the models' default fitters
        case['glue'] = {'omit_ceil': rng.random() < 0.3, 'pdesc_default': rng.random() < 0.5,
                        'fitter_form': rng.choice(['single', 'single', 'list', 'default'])}
    case['values'] = 'random'
    case['dseed'] = rng.randrange(10 ** 6)
    case['pseed'] = rng.randrange(10 ** 6)
    case['method'] = method
    _extra_models(rng, case)
    return case


def _session_features(case, impl):
    br = ['session']
    steps = case['steps']
    res = impl.get('steps', []) if isinstance(impl, dict) else [{} for _ in steps]
    gens = [(j, st) for j, st in enumerate(steps) if st['op'] == 'gen']
    ok = {j: isinstance(res[j].get('res'), dict) and 'exc' not in res[j]['res'] for j, _ in gens if j < len(res)}
    for j, st in gens:
        if ok.get(j):
            br.append('session:gen_' + st['gen'])
    if sum(1 for j, _ in gens if ok.get(j)) >= 2:
        br.append('session:reuse')                 # >= 2 successful generator calls on one object
    if sum(1 for j, _ in gens if ok.get(j)) >= 3:
        br.append('session:three_calls')
    if any(st['gen'] == 'random' and st['params'].get('n_cv', 0) >= 2 and ok.get(j) and j < len(steps) - 1
           for j, st in gens):
        br.append('session:random_multi_then_more')   # folds of sets_random re-read after later calls
    names = [st['gen'] for j, st in gens if ok.get(j)]
    if len(set(names)) < len(names):
        br.append('session:same_gen_twice')
    if len(set(names)) >= 2:
        br.append('session:different_gens')
    br.append('session:desc_' + case.get('desc_form', 'list'))
    for which, tag in (('rdm', 'session:copies_rdm'), ('pat', 'session:copies_pattern')):
        idx = case[which].get('index')
        if idx and len(set(idx)) < len(idx) and any(ok.values()):
            br.append(tag)
    for j, st in enumerate(steps):
        if st['op'] == 'edit' and any(i > j and ok.get(i) for i, _ in gens):
            br.append('session:edit_' + st['what'])
            if st.get('how') == 'inplace':
                br.append('session:edit_elementwise')
    cvs = [(j, st) for j, st in enumerate(steps) if st['op'] == 'cv' and j < len(res) and res[j].get('ran')]
    if cvs:
        br.append('session:crossval')
    ons = [st['on'] for _, st in cvs]
    if len(set(ons)) < len(ons):
        br.append('session:crossval_twice_same_sets')
    if any(i > j and ok.get(i) for j, _ in cvs for i, _ in gens):
        br.append('session:gen_after_crossval')
    if any(st['params'].get('random') or st['gen'] == 'random' for _, st in gens):
        br.append('session:shuffled')
    return {'kind': 'session', 'gen': 'session', 'n_rdm': case['rdm']['n'], 'n_cond': case['pat']['n'],
            'n_steps': len(steps), 'desc_form': case.get('desc_form', 'list'), 'branches': sorted(set(br)),
            'default_pattern_descriptor': False}


def _session_gen_step(rng, case, gen, have_cv, force=None):
    """one generator step on the session's current axes (valid arguments, now and then a rejected k)"""
    nrg = len(set(map(str, case['rdm']['g']))), len(set(map(str, case['rdm'].get('index') or range(case['rdm']['n']))))
    npg = len(set(map(str, case['pat']['g']))), len(set(map(str, case['pat'].get('index') or range(case['pat']['n']))))
    rby = (force or {}).get('rby') or rng.choice(['g', 'index'])
    pby = (force or {}).get('pby') or rng.choice(['g', 'index'])
    if gen in RDM_ONLY:
        pby = 'index'
    if gen == 'of_k_pattern' and pby == 'index' and rng.random() < 0.3:
        pby = None
    nr = nrg[0] if rby == 'g' else nrg[1]
    npn = npg[0] if pby == 'g' else npg[1]
    rnd = rng.random() < 0.6
    prm = {'random': rnd}
    sizes = []
    bad = rng.random() < 0.06

    def pick(n):
        if bad:
            return n + 1
        return rng.choice([None, 2, 2, n, rng.randint(1, n)])
    if gen == 'k_fold':
        prm['k_rdm'], prm['k_pattern'] = pick(nr), pick(npn)
        kr = prm['k_rdm'] if prm['k_rdm'] is not None else 5
        sizes = [nr] + [npn] * max(kr, 1)
    elif gen == 'k_fold_rdm':
        prm['k_rdm'] = pick(nr)
        sizes = [nr]
    elif gen == 'k_fold_pattern':
        prm['k'] = pick(npn)
        sizes = [npn]
    elif gen in ('of_k_rdm', 'of_k_pattern'):
        n = nr if gen == 'of_k_rdm' else npn
        prm['k'] = n if bad else rng.randint(1, max(1, n // 2))
        sizes = [n]
    elif gen == 'random':
        prm = {'random': True, 'n_cv': rng.choice([2, 2, 3]),
               'n_rdm': rng.choice([None, 0, rng.randint(1, max(1, nr - 1))]),
               'n_pattern': rng.choice([None, rng.randint(1, max(1, npn - 1)), rng.randint(1, max(1, npn - 1))])}
        sizes = [nr, npn] * prm['n_cv']
    st = {'op': 'gen', 'gen': gen, 'params': prm, 'rby': rby, 'pby': pby}
    if prm.get('random'):
        st['shuffle'] = _shuffle_spec(rng, case, sizes)
    return st


def _gen_session_case(rng, with_cv=None):
    with_cv = rng.random() < 0.4 if with_cv is None else with_cv
    nR, nC = rng.randint(2, 7), (rng.randint(6, 9) if with_cv else rng.randint(3, 9))
    case = {'kind': 'session', 'rdm': _gen_axis(rng, nR, allow_copies=not with_cv),
            'pat': _gen_axis(rng, nC, allow_copies=not with_cv),
            'desc_form': rng.choice(['list', 'ndarray'])}
    if with_cv:
        case['values'], case['dseed'] = 'random', rng.randrange(10 ** 6)
    elif rng.random() < 0.3:
        case['values'], case['dseed'] = 'random', rng.randrange(10 ** 6)
    n_gen = rng.choice([2, 2, 3, 3, 4])
    first = rng.choice(['random', 'random', 'k_fold', 'k_fold_pattern', 'k_fold_rdm', 'loo_rdm', 'loo_pattern',
                        'of_k_pattern', 'of_k_rdm'])
    gens = [first]
    while len(gens) < n_gen:
        gens.append(gens[0] if rng.random() < 0.3 else rng.choice(
            ['random', 'k_fold', 'k_fold', 'k_fold_pattern', 'k_fold_rdm', 'loo_rdm', 'loo_pattern',
             'of_k_pattern', 'of_k_rdm']))
    steps = []
    cur = {'rdm': copy.deepcopy(case['rdm']), 'pat': copy.deepcopy(case['pat'])}
    gen_pos = []
    # which edit (if any) precedes generator call q; the re-labelled descriptor is the one in use before and
    # after the edit (a cache of its groups kept by the object or by the module goes stale exactly there)
    edits = [None] + [rng.choice(['relabel_rdm', 'relabel_pat', 'rewrite']) if rng.random() < 0.35 else None
                      for _ in gens[1:]]
    for q, g in enumerate(gens):
        force = {}
        for e in (edits[q], edits[q + 1] if q + 1 < len(gens) else None):
            if e == 'relabel_rdm':
                force['rby'] = 'g'
            elif e == 'relabel_pat':
                force['pby'] = 'g'
        if edits[q]:
            what = edits[q]
            if what == 'rewrite':
                steps.append({'op': 'edit', 'what': 'rewrite', 'dseed': rng.randrange(10 ** 6)})
            else:
                ax = cur['rdm' if what == 'relabel_rdm' else 'pat']
                n = ax['n']
                strings = isinstance(ax['g'][0], str)
                ng = rng.randint(max(2, n // 2), n) if n > 2 else n
                new = _labels(rng, n, ng, strings)
                ax['g'] = new
                steps.append({'op': 'edit', 'what': what, 'g': new,
                              'how': rng.choice(['assign', 'inplace'])})
        st = _session_gen_step(rng, cur, g, with_cv, force)
        gen_pos.append(len(steps))
        steps.append(st)
        if with_cv and (q == 0 or rng.random() < 0.3) and g not in ('loo_pattern', 'of_k_pattern'):
            models = []
            for _ in range(rng.choice([1, 2])):
                kind = rng.choice(SESSION_FITS)
                ms = {'type': 'weighted' if kind.startswith('regress') else kind, 'n_rdm': rng.randint(2, 3),
                      'seed': rng.randrange(10 ** 6)}
                if kind.startswith('regress'):
                    ms['fitter'] = kind
                    if kind == 'regress':
                        ms['ridge'] = rng.choice([0.5, 1.0])
                models.append(ms)
            cv = {'op': 'cv', 'on': gen_pos[-1], 'models': models, 'method': rng.choice(['cosine', 'corr'])}
            steps.append(cv)
            if rng.random() < 0.7:
                steps.append(copy.deepcopy(cv))        # the same sets cross-validated a second time
    case['steps'] = steps
    return case


MANY_STYLES = ('str-many', 'float-many', 'sparse-int-many')


def _many_pool(rng, style, n_groups):
    """n_groups distinct labels that are not small-range integers (round 7): subject / stimulus ids as
    strings (not in sorted order of creation, mixed width), floats (incl. negative and integral values),
    or integers spread over a range far wider than the number of entries"""
    if style == 'str-many':
        stem = rng.choice(['sub-', 'S', 'stim_', ''])
        width = rng.choice([0, 2, 3])
        nums = rng.sample(range(1, 400), n_groups)
        return [stem + (str(v).zfill(width) if width else str(v)) + rng.choice(['', '', 'a', 'B']) for v in nums]
    if style == 'float-many':
        return [v / 8.0 for v in rng.sample(range(-80, 4000), n_groups)]
    return rng.sample(range(1000, 900000), n_groups)


def _gen_many_axis(rng, style, n_groups):
    """one axis grouped by 'g': n_groups groups (20-40) with 2-3 members each - sessions of a subject,
    exemplars of a category, copies in a bootstrap sample -, members adjacent, interleaved or shuffled"""
    pool = _many_pool(rng, style, n_groups)
    if len(set(map(str, pool))) < n_groups:              # (string decoration made two ids equal)
        pool = [p + '_' + str(i) if isinstance(p, str) else p for i, p in enumerate(pool)]
    lab = [p for p in pool for _ in range(2)] + [rng.choice(pool) for _ in range(rng.randint(0, n_groups // 4))]
    arr = rng.choice(['adjacent', 'interleaved', 'shuffled'])
    if arr == 'interleaved':
        lab = pool + [l for l in lab[::2][:n_groups]] + lab[2 * n_groups:]
    elif arr == 'shuffled':
        rng.shuffle(lab)
    return {'n': len(lab), 'by': 'g', 'g': lab, 'index': None}


def _small_axis(n):
    return {'n': n, 'by': 'index', 'g': list(range(n)), 'index': None}


def _gen_many_sets_case(rng, gen, style, kind='sets'):
    """round 7: many groups (20-40) with string / float / sparse-integer labels and >= 2 members per group on
    the axis the generator splits (for the two-axis generators: on one of them or on both); the other axis
    and the RDMs are tiny.  Fold counts / group sizes are chosen so that at least one selection handed to
    RDMs.subset / subset_pattern lists >= 20 values"""
    split_r = gen in ('k_fold', 'k_fold_rdm', 'of_k_rdm', 'random', 'loo_rdm')
    split_p = gen in ('k_fold', 'k_fold_pattern', 'of_k_pattern', 'random', 'loo_pattern')
    cheap = kind == 'crossval'
    if split_r and split_p:
        # both axes large only for the generators alone: a two-axis cross-validation on 50 x 50 with its
        # re-runs per fold costs the better part of a minute
        which = rng.choice(['rdm', 'pat'] if cheap else ['rdm', 'pat', 'rdm', 'pat', 'both'])
    else:
        which = 'rdm' if split_r else 'pat'
    ngr = rng.randint(24, 27 if cheap else 40)
    if cheap and gen == 'loo_rdm':
        ngr = rng.randint(21, 23)      # n folds x 2 re-runs x n fits: keep n small (selections of 20-22 values)
    ngp = rng.randint(24, 26 if (cheap or which == 'both') else 32)
    rax = _gen_many_axis(rng, style, ngr) if which in ('rdm', 'both') else _gen_axis(rng, rng.randint(2, 4), False)
    pat = _gen_many_axis(rng, style, ngp) if which in ('pat', 'both') else _gen_axis(rng, rng.randint(3, 5), False)
    if kind == 'crossval' and which == 'rdm':
        pat = _gen_axis(rng, rng.randint(6, 8), False)
    if gen in RDM_ONLY:
        pat['by'] = 'index'
    case = {'kind': kind, 'gen': gen, 'rdm': rax, 'pat': pat}
    nrg, npg = _n_groups(case, 'rdm'), _n_groups(case, 'pat')
    rnd = rng.random() < 0.5
    prm = {'random': rnd}

    def many_k(n, many):
        if not many:
            return rng.randint(1, min(n, 2))
        # training selections of n - ceil(n / k) >= 20 values for most choices
        return rng.choice([None, n, n, rng.randint(max(3, n // 6), n), rng.randint(4, 8)])

    sizes = []
    if gen == 'k_fold':
        prm['k_rdm'], prm['k_pattern'] = many_k(nrg, which != 'pat'), many_k(npg, which != 'rdm')
        if kind == 'crossval' or which == 'both':        # keep the number of folds (objects to decode) moderate
            prm['k_rdm'] = min(prm['k_rdm'] or 5, 6 if which != 'both' else 4)
            prm['k_pattern'] = min(prm['k_pattern'] or 5, 6 if which != 'both' else 4)
            if which == 'both':         # 3-4 folds per axis keep selections of >= 20 of 24+ groups... only for
                prm['k_rdm'] = max(prm['k_rdm'], 2)     # the larger axis; the other one is then the long one

        kr = prm['k_rdm'] if prm['k_rdm'] is not None else 5
        sizes = [nrg] + [npg] * max(kr, 1)
    elif gen == 'k_fold_rdm':
        prm['k_rdm'] = many_k(nrg, True)
        if cheap and prm['k_rdm']:
            prm['k_rdm'] = min(prm['k_rdm'], 8)
        sizes = [nrg]
    elif gen == 'k_fold_pattern':
        prm['k'] = many_k(npg, True)
        if cheap and prm['k']:
            prm['k'] = min(prm['k'], 6)
        sizes = [npg]
    elif gen in ('of_k_rdm', 'of_k_pattern'):
        n = nrg if gen == 'of_k_rdm' else npg
        prm['k'] = rng.randint(1 if not cheap else 3, 4)
        sizes = [n]
    elif gen == 'random':
        prm['n_cv'] = rng.randint(1, 2)
        prm['n_rdm'] = rng.choice([None, rng.randint(1, 3)]) if which != 'pat' else rng.randint(0, nrg - 1)
        prm['n_pattern'] = rng.choice([None, rng.randint(1, 3)]) if which != 'rdm' \
            else rng.randint(0, max(0, npg - 3))
        sizes = [nrg, npg] * prm['n_cv']
    case['params'] = prm
    if rnd or gen == 'random':
        case['shuffle'] = _shuffle_spec(rng, case, sizes)
    case['desc_form'] = rng.choice(['list', 'list', 'ndarray'])
    case['many'] = {'style': style, 'axis': which}
    return case


def _gen_many_crossval_case(rng, gen, style):
    """round 7: the cross-validated evaluation on the folds of such an object (cheap models and fitters;
    per live fold the two perturbation re-runs as for every crossval case)"""
    case = _gen_many_sets_case(rng, gen, style, kind='crossval')
    nC = case['pat']['n']
    mtype = rng.choice(['fixed', 'select', 'weighted', 'weighted'])
    case['model'] = {'type': mtype, 'n_cond': nC, 'n_rdm': rng.randint(2, 3), 'seed': rng.randrange(10 ** 6),
                     'g': list(case['pat']['g'])}
    if mtype == 'weighted':
        case['model']['fitter'] = 'regress'
        case['model']['ridge'] = rng.choice([0.5, 1.0, 2.0])
    case['glue'] = {'omit_ceil': rng.random() < 0.3, 'pdesc_default': rng.random() < 0.5,
                    'fitter_form': rng.choice(['single', 'single', 'list', 'default'])}
    case['values'] = 'random'
    case['dseed'] = rng.randrange(10 ** 6)
    case['pseed'] = rng.randrange(10 ** 6)
    case['method'] = rng.choice(['cosine', 'corr'])
    del case['desc_form']
    case['extra_models'] = []
    case['primary_pos'] = 0
    return case


MANY_CV_GENS = ('loo_rdm', 'k_fold_rdm', 'k_fold', 'k_fold_pattern', 'random', 'of_k_pattern')


def _gen_many(rng, tier):
    """the round-7 domain: every generator x the three label styles (sets), and crossval on a rotating
    generator per style"""
    rounds, cv_rounds = (1, 1) if tier == 'quick' else (8, 3)
    for q in range(rounds):
        for gi, gen in enumerate(GENS):
            for si, style in enumerate(MANY_STYLES):
                yield _gen_many_sets_case(rng, gen, style)
    for q in range(cv_rounds):
        for gi, gen in enumerate(MANY_CV_GENS):     # leave-one-group-out (n folds, n fits per re-run) once a round
            yield _gen_many_crossval_case(rng, gen, MANY_STYLES[(gi + q) % 3])
        for si, style in enumerate(MANY_STYLES):    # every style on the rdm axis through crossval, every round
            yield _gen_many_crossval_case(rng, 'k_fold_rdm', style)


def _gen_concat_case(rng):
    n = rng.randint(2, 9)
    s1 = [rng.randrange(n) for _ in range(rng.randint(1, 12))]
    s2 = rng.sample(range(n + 2), rng.randint(0, n))
    return {'kind': 'concat', 's1': s1, 's2': s2}


def _exhaustive_small(tier):
    """every (n, k) of the k-fold arithmetic for small n, ordered assignment; and, thorough
    only, every shuffle outcome for n <= 5 groups"""
    top = 7 if tier == 'quick' else 14
    for n in range(2, top + 1):
        for k in range(1, n + 1):
            if tier == 'quick' and (n + k) % 2:
                continue
            yield {'kind': 'sets', 'gen': 'k_fold_pattern', 'params': {'random': False, 'k': k},
                   'rdm': {'n': 2, 'by': 'index', 'g': [0, 1], 'index': None},
                   'pat': {'n': n, 'by': 'index', 'g': list(range(n)), 'index': None}}
            if n <= 9:
                yield {'kind': 'sets', 'gen': 'k_fold_rdm', 'params': {'random': False, 'k_rdm': k},
                       'rdm': {'n': n, 'by': 'index', 'g': list(range(n)), 'index': None},
                       'pat': {'n': 3, 'by': 'index', 'g': [0, 1, 2], 'index': None}}
    if tier == 'thorough':
        for n in (3, 4, 5):
            for perm in itertools.permutations(range(n)):
                for k in range(1, n + 1):
                    yield {'kind': 'sets', 'gen': 'k_fold_pattern',
                           'params': {'random': True, 'k': k}, 'shuffle': {'script': [list(perm)]},
                           'rdm': {'n': 2, 'by': 'index', 'g': [0, 1], 'index': None},
                           'pat': {'n': n + 1, 'by': 'g', 'g': list(range(n)) + [0], 'index': None}}
                    yield {'kind': 'sets', 'gen': 'k_fold_rdm',
                           'params': {'random': True, 'k_rdm': k}, 'shuffle': {'script': [list(perm)]},
                           'rdm': {'n': n + 1, 'by': 'g', 'g': list(range(n)) + [n - 1], 'index': None},
                           'pat': {'n': 3, 'by': 'index', 'g': [0, 1, 2], 'index': None}}


def generate(rng, tier):
    n_sets, n_bad, n_cv, n_cc = (700, 100, 150, 30) if tier == 'quick' else (12000, 1200, 2000, 200)
    yield from _exhaustive_small(tier)
    for q in range(n_sets):
        yield _gen_sets_case(rng, gen=GENS[q % len(GENS)])
    bad = [g for g in GENS if not g.startswith('loo')]
    for q in range(n_bad):
        yield _gen_sets_case(rng, gen=bad[q % len(bad)], malformed=True)
    for _ in range(n_cv):
        yield _gen_crossval_case(rng)
    for _ in range(n_cc):
        yield _gen_concat_case(rng)
    # round 4: reuse sessions (own PRNG stream derived from the run's, drawn last: the single-call cases of
    # a seed are the ones they were before)
    srng = _random.Random(rng.randrange(2 ** 32))
    mrng = _random.Random(rng.randrange(2 ** 32))     # round 7: own stream, drawn after everything else
    for q in range(90 if tier == 'quick' else 1500):
        yield _gen_session_case(srng, with_cv=(q % 3 == 0))
    yield from _gen_many(mrng, tier)


def search(rng, tier):
    """failing-input search: the same space, interleaved so that every generator and the
    cross-validation experiment come early"""
    n = 400 if tier == 'quick' else 4000
    srng = _random.Random(rng.randrange(2 ** 32))
    mrng = _random.Random(rng.randrange(2 ** 32))
    for q in range(n):
        r = q % 4
        if q % 8 == 1:            # round 7: many groups with string / float / sparse-integer labels
            j = q // 8
            if j % 6 == 5:
                yield _gen_many_crossval_case(mrng, MANY_CV_GENS[(j // 6) % len(MANY_CV_GENS)],
                                              MANY_STYLES[(j // 6) % 3])
            else:
                yield _gen_many_sets_case(mrng, GENS[j % len(GENS)], MANY_STYLES[(j // len(GENS) + j) % 3])
        elif q % 8 == 5:
            yield _gen_session_case(srng, with_cv=(q % 24 == 5))
        elif r == 3:
            yield _gen_crossval_case(rng)
        elif r == 2 and q % 16 == 2:
            yield _gen_concat_case(rng)
        else:
            yield _gen_sets_case(rng, gen=GENS[(q // 2) % len(GENS)])


# ------------------------------------------------------------------ oracle

def _viol(what, observed, expected, **feat):
    return {'what': what, 'observed': observed, 'expected': expected, 'features': feat}


def _valid_call(case):
    """are the arguments inside the domain on which the property promises sets?"""
    g, prm = case['gen'], case['params']
    nrg, npg = _n_groups(case, 'rdm'), _n_groups(case, 'pat')

    def kok(k, n, default):
        k = default if k is None else k
        return 1 <= k <= n
    dk_r = 2 if nrg < 6 else 3 if nrg < 12 else 4 if nrg < 20 else 5
    dk_p = 2 if npg < 12 else 3 if npg < 24 else 4 if npg < 40 else 5
    if g == 'k_fold':
        return kok(prm.get('k_rdm'), nrg, dk_r) and kok(prm.get('k_pattern'), npg, dk_p)
    if g == 'k_fold_rdm':
        return kok(prm.get('k_rdm'), nrg, dk_r)
    if g == 'k_fold_pattern':
        return kok(prm.get('k'), npg, dk_p)
    if g == 'of_k_rdm':
        return 1 <= prm['k'] and 2 * prm['k'] <= nrg
    if g == 'of_k_pattern':
        return 1 <= prm['k'] and 2 * prm['k'] <= npg
    if g == 'random':
        nr = prm.get('n_rdm')
        nr = nrg // dk_r if nr is None else nr
        np_ = prm.get('n_pattern')
        np_ = npg // dk_p if np_ is None else np_
        return nr <= nrg and np_ < npg
    if g == 'loo_pattern':
        return npg >= 2
    return True


def _oracle_sets(case):
    """plain-loop transcription of the first sentence of C05 on the objects really returned"""
    g, prm = case['gen'], case['params']
    feat = {'gen': g, 'default_pattern_descriptor': g == 'of_k_pattern' and case['pat']['by'] is None}
    valid = _valid_call(case)
    rdms = _build(case)
    with ShuffleTap(case.get('shuffle')):
        try:
            out = _call_gen(case, rdms)
        except Exception as exc:  # noqa: BLE001
            if valid:
                return _viol(f'generator {g} raises on arguments inside its documented domain',
                             _exc_name(exc), 'a list of (train, test) sets', exc=_exc_name(exc), **feat)
            return None
    if not valid:
        return None
    return _check_sets(case, out)


def _check_sets(case, out):
    """the first sentence of C05 on a returned (train, test, ceil) triple, judged against the numbers of
    `case` alone (the objects in `out` may come from a fresh call or from an earlier call of a session)"""
    g, prm = case['gen'], case['params']
    feat = {'gen': g, 'default_pattern_descriptor': g == 'of_k_pattern' and case['pat']['by'] is None}
    base = _base_matrix(case)
    train, test, ceil = out
    rvals, _ = _axis(case, 'rdm')
    pvals, _ = _axis(case, 'pat')
    nR, nC = len(rvals), len(pvals)
    pair_pos = {p_: q_ for q_, p_ in enumerate(_pairs(nC))}
    if len(train) != len(test) or (ceil is not None and len(ceil) != len(test)):
        return _viol('numbers of training, test and ceiling sets differ',
                     [len(train), len(test), None if ceil is None else len(ceil)], 'equal', **feat)
    split_r = g in ('k_fold', 'k_fold_rdm', 'of_k_rdm', 'random', 'loo_rdm')
    split_p = g in ('k_fold', 'k_fold_pattern', 'of_k_pattern', 'random', 'loo_pattern')
    nrg, npg = len(set(map(str, rvals))), len(set(map(str, pvals)))
    dk_r = 2 if nrg < 6 else 3 if nrg < 12 else 4 if nrg < 20 else 5
    dk_p = 2 if npg < 12 else 3 if npg < 24 else 4 if npg < 40 else 5
    if g == 'k_fold':
        many_r = (prm.get('k_rdm') or dk_r) > 1
        many_p = (prm.get('k_pattern') or dk_p) > 1
    elif g == 'k_fold_rdm':
        many_r, many_p = (prm.get('k_rdm') or dk_r) > 1, False
    elif g == 'k_fold_pattern':
        many_r, many_p = False, (prm.get('k') or dk_p) > 1
    elif g == 'random':
        many_r = prm.get('n_rdm') is None or prm['n_rdm'] > 0
        many_p = prm.get('n_pattern') is None or prm['n_pattern'] > 0
    elif g in ('of_k_rdm', 'loo_rdm'):
        many_r, many_p = nrg > 1, False
    else:
        many_r, many_p = False, npg > 1

    def content(entry, name, q):
        """positions held by an object; checks every stored value belongs to those positions"""
        obj, pidx = entry[0], entry[1]
        rows = [int(v) for v in obj.rdm_descriptors['orig']]
        conds = [int(v) for v in obj.pattern_descriptors['orig']]
        d = np.asarray(obj.dissimilarities)
        if d.shape != (len(rows), len(conds) * (len(conds) - 1) // 2):
            return None, _viol(f'{name} set {q}: shape of the dissimilarities does not fit its descriptors',
                               list(d.shape), [len(rows), len(conds) * (len(conds) - 1) // 2], **feat)
        for a, r in enumerate(rows):
            for b, (x, y) in enumerate(_pairs(len(conds))):
                i, j = conds[x], conds[y]
                want = base[r][pair_pos[(min(i, j), max(i, j))]] if i != j else None
                got = d[a, b]
                if (want is None) != bool(np.isnan(got)) or (want is not None and float(want) != float(got)):
                    return None, _viol(f'{name} set {q}: stored dissimilarity is not the input value of '
                                       f'the labelled rdm / condition pair', float(got),
                                       want, rdm=r, pair=[i, j], **feat)
        if sorted(conds) != conds or len(set(conds)) != len(conds):
            return None, _viol(f'{name} set {q}: a condition is repeated or out of order', conds,
                               'distinct input conditions in input order', **feat)
        if len(set(rows)) != len(rows):
            return None, _viol(f'{name} set {q}: an rdm is handed out twice', rows, 'distinct rdms', **feat)
        return (rows, conds, [v.item() if hasattr(v, 'item') else v for v in pidx]), None

    test_r_groups, test_p_groups = [], []
    for q in range(len(train)):
        parts = {}
        for name, lst in (('train', train), ('test', test), ('ceil', ceil)):
            if lst is None:
                continue
            c, bad = content(lst[q], name, q)
            if bad:
                return bad
            parts[name] = c
        for name, (rows, conds, pidx) in parts.items():
            # all members and copies of a group on the same side; advertised conditions
            rg = set(str(rvals[r]) for r in rows)
            full_rows = [r for r in range(nR) if str(rvals[r]) in rg]
            if sorted(rows) != full_rows:
                return _viol(f'{name} set {q}: an rdm group is only partly included',
                             sorted(rows), full_rows, **feat)
            if g in RDM_ONLY:
                want_conds = list(range(nC))
                adv_ok = [int(v) for v in pidx] == list(range(nC))
            else:
                adv = set(str(v) for v in pidx)
                want_conds = [c for c in range(nC) if str(pvals[c]) in adv]
                adv_ok = len(adv) == len(list(pidx))
            if conds != want_conds or not adv_ok:
                return _viol(f'{name} set {q}: conditions of the object are not those of the advertised '
                             f'pattern_idx', conds, want_conds, pattern_idx=[str(v) for v in pidx], **feat)
        trr, trc, _ = parts['train']
        ter, tec, tpidx = parts['test']
        gr_tr, gr_te = set(str(rvals[r]) for r in trr), set(str(rvals[r]) for r in ter)
        gp_tr, gp_te = set(str(pvals[c]) for c in trc), set(str(pvals[c]) for c in tec)
        if split_r and many_r and gr_tr & gr_te:
            return _viol(f'fold {q}: rdm groups {sorted(gr_tr & gr_te)} are in training and test set',
                         sorted(gr_tr & gr_te), [], axis='rdm', **feat)
        if split_p and many_p and gp_tr & gp_te:
            return _viol(f'fold {q}: pattern groups {sorted(gp_tr & gp_te)} are in training and test set',
                         sorted(gp_tr & gp_te), [], axis='pattern', **feat)
        if 'ceil' in parts:
            cr, cc, cpidx = parts['ceil']
            if sorted(cr) != sorted(trr) or cc != tec or sorted(map(str, cpidx)) != sorted(map(str, tpidx)):
                return _viol(f'fold {q}: ceiling set is not the training rdms at the test conditions',
                             {'rows': sorted(cr), 'conds': cc}, {'rows': sorted(trr), 'conds': tec}, **feat)
        test_r_groups.append(frozenset(gr_te))
        test_p_groups.append(frozenset(gp_te))
    if g in EXHAUSTIVE:
        all_r, all_p = set(map(str, rvals)), set(map(str, pvals))
        pairs_seen = {}
        for gr, gp in zip(test_r_groups, test_p_groups):
            for a in (gr if split_r and many_r else ['*']):
                for b in (gp if split_p and many_p else ['*']):
                    pairs_seen[(a, b)] = pairs_seen.get((a, b), 0) + 1
        want = {(a, b) for a in (all_r if split_r and many_r else ['*'])
                for b in (all_p if split_p and many_p else ['*'])}
        wrong = sorted(k for k in want | set(pairs_seen) if pairs_seen.get(k, 0) != 1)
        if wrong:
            return _viol('a group is not in exactly one test fold',
                         {str(k): pairs_seen.get(k, 0) for k in wrong[:6]}, 'every group exactly once', **feat)
        for axis, gs, on in (('rdm', test_r_groups, split_r and many_r),
                             ('pattern', test_p_groups, split_p and many_p)):
            if on:
                sizes = sorted(set(len(s) for s in gs))
                if sizes[-1] - sizes[0] > 1:
                    return _viol(f'test-fold sizes along the {axis} axis differ by more than one',
                                 sizes, 'max - min <= 1', axis=axis, **feat)
    return None


def _oracle_crossval(case):
    res, _ = _crossval_experiment(case)
    feat = {'gen': case['gen'], 'model': case['model']['type'], 'default_pattern_descriptor': False}
    if 'skip' in res:
        if res.get('refit_other_data'):
            return _viol('after a fitter raised LinAlgError for a fold, the cross-validation fitted on data that '
                         'are not the training set of the fold in turn (held-out data reach a fit)',
                         'a fit on other rdms / conditions', 'the exception, or the next fold\'s own training set',
                         part='fit_after_failure', **feat)
        return None      # a fitter's own failure handed to the library (C08): the property is silent
    if 'exc' in res:
        valid = case.get('bootcv') is not None or _valid_call(case)
        if valid:
            return _viol('cross-validated evaluation raises on the folds of a call inside the documented domain',
                         res['exc'], 'one evaluation per fold', exc=res['exc'], part='crossval', **feat)
        return None      # rejected call: the property is silent
    if case.get('bootcv') is None and case.get('boot_pidx') is None:
        # round 7: the folds a direct cross-validation is run on are the generator's: they must satisfy the
        # first sentence of the property themselves (a member of a held-out group inside the training set is
        # not "test-only" for the perturbation experiment below, which takes the split as handed out)
        bad = _oracle_sets(case)
        if bad is not None:
            bad['what'] = 'folds of the cross-validated evaluation: ' + bad['what']
            bad['features'] = dict(bad['features'], part='sets', model=case['model']['type'])
            return bad
    if not res['calls_match']:
        return _viol('the fitter / comparison is not called once per evaluable fold',
                     [len(res['fit']), len(res['cmp'])], len(res['live']), **feat)
    if not res.get('fitter_slots_ok', True):
        return _viol('a model is fitted with the fitter given for another model (fitter list / default fitters)',
                     'fitter of another slot', 'its own fitter', part='fitter', **feat)
    for pr in res.get('nc_pairs', []):
        if len(pr) != 4 or not all(isinstance(x, list) for x in pr):
            continue
        if pr[1] != pr[3] or (set(pr[0]) & set(pr[2]) and set(pr[0]) != set(pr[2])):
            return _viol('the cross-validated noise ceiling pairs a ceiling set with the test set of another '
                         'fold (ceiling RDMs overlap the test RDMs, or other conditions)',
                         {'ceil': [pr[0], pr[1]], 'test': [pr[2], pr[3]]},
                         'training RDMs of the fold at the test conditions of the same fold', part='nc', **feat)
    for pos, q in enumerate(res['live']):
        if not res['stored_matches'][pos]:
            return _viol(f'fold {q}: an evaluation returned by crossval for (model, fold) is not the score of '
                         f'that model on that fold\'s test set with that fold\'s fitted parameters',
                         'returned evaluations differ from the per-fold scores', 'equal',
                         fold=q, part='stored', n_models=res['n_models'], **feat)
        if not res['theta_stable'][pos] or not res['fit_args_stable'][pos]:
            pexc = (res.get('perturbed_exc') or [None] * (pos + 1))[pos]
            if pexc is not None:
                # the re-run did not finish: say so instead of claiming that θ moved (the training view of
                # the fold is asserted bit-identical, fitter failures are caught per call - what is left is
                # the cross-validation itself raising on other values with the same missing-value pattern)
                return _viol(f'fold {q}: the cross-validated evaluation raises when only dissimilarities '
                             f'involving test-only conditions / rdms of this fold are overwritten (same '
                             f'missing-value pattern), and does not raise on the original data',
                             pexc, 'the same folds, fits and evaluations', fold=q, part='fit',
                             exc=pexc, **feat)
            return _viol(f'fold {q}: fitted parameters (or the data handed to the fitter) change when only '
                         f'dissimilarities involving test-only conditions / rdms are overwritten',
                         'θ changed' if not res['theta_stable'][pos] else 'data handed to the fitter changed',
                         'θ unchanged', fold=q, part='fit', **feat)
        if not res['score_stable'][pos]:
            return _viol(f'fold {q}: the score changes when only training-only dissimilarities are '
                         f'overwritten and θ is held fixed', 'score changed', 'score unchanged',
                         fold=q, part='score', **feat)
    return None


def oracle(case):
    kind = case['kind']
    if kind == 'session':
        return _oracle_session(case)
    if kind == 'sets':
        return _oracle_sets(case)
    if kind == 'crossval':
        return _oracle_crossval(case)
    from rsatoolbox.inference.evaluate import _concat_sampling
    s1, s2 = list(case['s1']), list(case['s2'])
    out = list(_concat_sampling(s1, s2))
    for v in set(s1) | set(s2) | set(out):
        want = s1.count(v) if v in s2 else 0
        if out.count(v) != want:
            return _viol('_concat_sampling does not expand a fold id to its bootstrap multiplicity',
                         out.count(v), want, value=v, gen='concat', default_pattern_descriptor=False)
    return None


# ------------------------------------------------------------------ shrinking

def _drop_step(case, j):
    """the session without step j (cv steps that used its sets go too; references re-numbered)"""
    c = copy.deepcopy(case)
    keep = [q for q, st in enumerate(c['steps'])
            if q != j and not (st['op'] == 'cv' and st['on'] == j)]
    renum = {q: i for i, q in enumerate(keep)}
    steps = []
    for q in keep:
        st = c['steps'][q]
        if st['op'] == 'cv':
            st['on'] = renum[st['on']]
        steps.append(st)
    c['steps'] = steps
    return c


_FRESH_CONFIRMS = [0]


def _fails_in_fresh_process(case):
    """does the oracle fail on this case in a new interpreter (= what `--replay` will see)?  State kept at
    module level by the library survives from case to case inside one run; a session shrunk in such a process
    may owe its failure to an earlier case.  None = could not be determined."""
    import os
    import subprocess
    import sys
    here = os.path.dirname(os.path.dirname(os.path.abspath(__file__)))
    repo = os.environ.get('RSA_REPO', '/repo')
    code = ('import sys, json; sys.path.insert(0, %r); sys.path.insert(0, %r); import engines.C05 as E; '
            'print("FAILS" if E.oracle(json.loads(sys.stdin.read())) else "HOLDS")'
            % (here, os.path.join(repo, 'src')))
    try:
        p = subprocess.run([sys.executable, '-c', code], input=json.dumps(case).encode(),
                           stdout=subprocess.PIPE, stderr=subprocess.DEVNULL, timeout=120)
    except Exception:  # noqa: BLE001
        return None
    out = p.stdout.decode(errors='replace')
    return True if 'FAILS' in out else False if 'HOLDS' in out else None


def _shrink_session(case, still_fails):
    """shortest failing call sequence: drop steps (latest first) while the oracle still fails, then try
    the plainer forms of what is left (list descriptors, ordered assignment).  The first few shrunk
    sessions of a run are confirmed in a fresh interpreter; a shrunk session that fails only in the
    running process (library state left by earlier cases) is given up for the unshrunk one."""
    if _FRESH_CONFIRMS[0] >= 6:
        return case
    cur = _shrink_session_steps(case, still_fails)
    _FRESH_CONFIRMS[0] += 1
    if cur != case and _fails_in_fresh_process(cur) is False:
        # shrink again, every candidate judged in a fresh interpreter (slow; bounded)
        budget = [12]

        def fresh(c):
            if budget[0] <= 0:
                return False
            budget[0] -= 1
            return bool(_fails_in_fresh_process(c))
        if fresh(case):
            return _shrink_session_steps(case, fresh)
        return dict(case, _note='fails inside a full run only: the library keeps state at module level that '
                                'earlier cases of the run left behind; a replay of this case alone in a new '
                                'interpreter passes - rerun ./check to reproduce')
    return cur


def _shrink_session_steps(case, still_fails):
    cur = copy.deepcopy(case)
    progress = True
    while progress:
        progress = False
        for j in reversed(range(len(cur['steps']))):
            if len(cur['steps']) <= 1:
                break
            c = _drop_step(cur, j)
            if c['steps'] and still_fails(c):
                cur, progress = c, True
                break
    if cur.get('desc_form') == 'ndarray':
        c = dict(copy.deepcopy(cur), desc_form='list')
        if still_fails(c):
            cur = c
    for j, st in enumerate(cur['steps']):
        if st['op'] == 'gen' and st['gen'] != 'random' and st['params'].get('random'):
            c = copy.deepcopy(cur)
            c['steps'][j]['params']['random'] = False
            c['steps'][j].pop('shuffle', None)
            if still_fails(c):
                cur = c
    return cur


def shrink(case, still_fails):
    """drop RDMs / conditions from the end, then simplify parameters, while the oracle still fails"""
    if case['kind'] == 'concat':
        return case
    if case['kind'] == 'session':
        return _shrink_session(case, still_fails)
    cur = copy.deepcopy(case)

    def cut(c, which, n):
        c = copy.deepcopy(c)
        a = c[which]
        if n < 2 or n >= a['n']:
            return None
        a['n'] = n
        a['g'] = a['g'][:n]
        if a.get('index'):
            a['index'] = a['index'][:n]
        if which == 'pat' and c.get('model'):
            return None
        c.pop('shuffle', None)
        if c['params'].get('random') or c['gen'] == 'random':
            c['shuffle'] = {'seed': 1}
        return c

    progress = True
    while progress:
        progress = False
        for which in ('rdm', 'pat'):
            c = cut(cur, which, cur[which]['n'] - 1)
            if c is not None and still_fails(c):
                cur, progress = c, True
    return cur
