"""C09 — bootstrap samples are faithful with-replacement resamples of whole groups.

Engine interface (see harness/run_check.py):
  THEOREMS, LEVEL, RULE, BRANCHES, generate, run_impl, model_requests, model_result,
  compare, oracle, features, nontrivial_key, search, shrink

A case is one call of rsatoolbox.inference.bootstrap_sample / _rdm / _pattern on an RDM stack
whose dissimilarities are unique integer tags (1000*(rdm+1) + pair number), so that the origin
of every entry of the sample is readable from its value.  The draws are either *recorded*
(np.random.seed + the library's own np.random.randint, tapped from outside) or *injected*
(scripted return values of np.random.randint).  The recorded draws are handed to the Lean
model (driver op c09.boot), whose whole result (vectors, every descriptor, index arrays, the
randint request) is compared with the library's.  With `pred` the returned pattern indices
are also used to resample a model-prediction RDMs object, on both sides.
`op = freq` cases run many real draws and compare the selection frequency of every group with
its expectation (6 sigma) — the only statement about the generator itself.
"""
import json
import math
import numpy as np
from scipy.spatial.distance import squareform

from rsatoolbox.rdm import RDMs
from rsatoolbox.inference import bootstrap as B

from lean import rat
from engines import C09_r3 as R3
from engines import C09_r4 as R4
from engines import C09_r6 as R6

OPS = dict(R3.OPS)
OPS.update(R4.OPS)
OPS.update(R6.OPS)

PROPERTY = 'C09'
LEVEL = 'proof'
P = 'Rsa.Props.C09.'
THEOREMS = [P + n for n in (
    'draw_size', 'idx_are_groups', 'select_bijective', 'equal_selection_counts',
    'mean_selection_one', 'equal_frequency_partial',
    'rdm_sample_contents', 'rdm_sample_multiplicity', 'rdm_groups_together',
    'pattern_sample_contents', 'pattern_sample_multiplicity', 'pattern_groups_together',
    'sample_entry', 'sample_nan_iff', 'sample_pred_aligned',
    'bootstrap_sample_rdm_spec', 'bootstrap_sample_pattern_spec', 'bootstrap_sample_spec',
    'bootstrap_sample_entry', 'rdm_sample_size_recovered', 'rdm_model_subsample_agrees',
    'rdm_model_subsamplePattern_agrees', 'rdm_model_subsamplePattern_defined',
    # round 3
    'draw_request_tied', 'draw_request_valid', 'nan_rule_tied', 'np_model_agrees',
    'mixed_rdm_int_never_sampled', 'np_sample_multiplicity', 'session_aligned',
    'resample_commute', 'testset_partition', 'testset_size', 'testset_thresholds_tied',
    'boot_testset_pattern_spec', 'equal_frequency_symmetric', 'equal_frequency_of_uniform',
    # round 4: no hidden state — in-place operations between draws
    'subsamplePattern_eq_gather', 'gather_entry', 'sample_after_inplace', 'inplace_same_conditions',
    'session_no_hidden_state', 'draw_reorder_draw',
    # round 6: large stacks — every RDM incl. the last, block-wise evaluation, restriction to some RDMs
    'sample_every_rdm', 'blockwise_eq', 'blocks_cover', 'subsamplePattern_rdm_local',
    'largeSample_full')]
RULE = ('one PRNG; stacks of 1-5 RDMs x 2-8 conditions with unique integer tags as '
        'dissimilarities (some source entries NaN or 0), built from vectors or matrices; grouping '
        'descriptors int or str, unique or repeated, list or numpy array, default `index` or a '
        'user-supplied repeated `index`; extra descriptors on both axes; draws recorded from the '
        'seeded numpy generator or injected (thorough: every draw outcome of small stacks); '
        'optional resampling of a prediction with the returned pattern indices; stacks built from a '
        '1-d vector, with scalar descriptors, without descriptor arguments; explicit '
        'pattern_descriptor=None; direct RDMs.subsample / subsample_pattern calls with by None or '
        'named and value a scalar, list, tuple or array of (repeated, possibly absent) values; '
        'multi-step sessions on ONE object (draw, then sort_by / reorder / append / write to '
        '.dissimilarities / descriptor edit in place, then draw again, also with models whose rdm_obj is '
        'reordered alike), every draw judged against the current labelled content; LARGE stacks '
        '(100-3500 RDMs x 8-128 conditions, e.g. 300 x 64, 120 x 100, 3000 x 20, sizes just past '
        'multiples of 2^16..2^20 / n_cond^2; 1-5 RDMs x 150-1200 conditions) with formula-defined '
        'provenance tags, judged entry by entry with vectorised numpy.  A case is '
        'non-trivial when the sample differs from the source (a group left out or drawn twice); '
        'distinct = distinct (mode, stack, descriptors, draws).')
BRANCHES = ['mode:both', 'mode:rdm', 'mode:pattern', 'desc:int', 'desc:str', 'container:list',
            'container:array', 'by:default', 'by:named', 'grouped:rdm', 'grouped:pattern',
            'dup:rdm', 'dup:pattern', 'left_out:pattern', 'src:nan', 'src:zero', 'form:3d',
            'form:2d', 'draws:recorded', 'draws:injected', 'pred', 'freq', 'index:repeated',
            # round 2: constructor branches and the scalar / by=None branches of subsample*
            'form:1d', 'container:scalar', 'container:scalar_pattern', 'n_cond:1', 'container:tuple', 'rdm_desc:none', 'pat_desc:none',
            'descriptors:none', 'pat_by:explicit_none', 'op:resample', 'resample:rdm',
            'resample:pattern', 'value:scalar', 'value:np_scalar', 'value:list', 'value:tuple',
            'value:array', 'value:absent', 'value:repeated', 'resample_by:none', 'resample_by:named',
            # round 3: cross-object sessions, boot_testset, exhaustive frequency, exotic descriptors
            'op:session', 'session:fixed', 'session:select', 'session:weighted', 'session:interp',
            'session:multi', 'session:classes', 'session:multi_rdm_model',
            'op:testset', 'testset:both', 'testset:pattern', 'testset:rdm', 'testset:some',
            'testset:none', 'testset:grouped', 'testset:pat_left2', 'testset:pat_left3',
            'testset:rdm_left0', 'testset:rdm_left1',
            'op:freq_exact', 'freq_exact:rdm', 'freq_exact:pattern', 'freq_exact:unbalanced',
            'op:exotic', 'exotic:mixed_rdm', 'exotic:mixed_pattern', 'exotic:none_rdm',
            'exotic:none_pattern', 'exotic:2d_rdm', 'exotic:2d_pattern', 'exotic:rejected',
            'exotic:handled', 'desc:bool', 'container:array_obj', 'container:array_small',
            'nested:pattern', 'nested:subset',
            # round 4: multi-step sessions on one mutable object
            'op:inplace', 'inplace:sort_by', 'inplace:sort_alpha', 'inplace:sort_list', 'inplace:reindex',
            'inplace:reorder', 'inplace:pdesc', 'inplace:regroup', 'inplace:rdesc', 'inplace:write_item',
            'inplace:write_rebind', 'inplace:append', 'inplace:draw_op_draw', 'inplace:order_changed',
            'inplace:multi_op', 'inplace:model', 'inplace:model_predict', 'inplace:model_rdm_obj',
            'inplace:from_initial', 'inplace:fn_pattern', 'inplace:fn_both', 'inplace:fn_rdm',
            'inplace:fn_direct', 'inplace:regroup_rdm', 'inplace:append_between', 'inplace:model_reordered',
            'inplace:model_fixed', 'inplace:model_select', 'inplace:model_weighted', 'inplace:model_interp',
            # round 6: large stacks (many RDMs: more than any internal block; many conditions)
            'op:large', 'size:many-rdms', 'size:many-conds', 'size:last-rdm-checked',
            'size:over-2^20-matrix-entries', 'size:conds-over-1024', 'large:fn_pattern', 'large:fn_both',
            'large:fn_rdm', 'large:fn_direct', 'large:lean_restriction', 'large:lean_restricted_conds',
            'large:by_named', 'large:by_default', 'large:values_not_float32',
            'large:twin_same_shape']
ASSUMPTIONS = [
    'np.random.randint(0, n, size=n) returns n integers in [0, n) (checked on every recorded '
    'call); its uniformity is trusted and only sanity-checked by the 6-sigma frequency cases',
    'descriptor values are of one kind per descriptor (all ints or all strings), as the property '
    'quantifies; np.unique sorts ints numerically and strings by code point',
]
TRUSTED_EXTRA = [
    'numpy: np.unique (sorted distinct values), np.sort, fancy indexing m[:, sel][:, :, sel], '
    'np.fill_diagonal; scipy squareform (condensed <-> square, row-major upper triangle) — '
    'modelled in Rsa.Core.Boot / Rsa.Core.Tri and covered by the correspondence',
]

STR_POOL = ['a', 'B', 'b', 'a1', '10', '9', 'zz', 'Z', 'é', 'sub-01', 'sub-02', '', ' x']


# ------------------------------------------------------------------ building inputs

def _tag_vecs(n_rdm, n_cond):
    npair = n_cond * (n_cond - 1) // 2
    return [[1000 * (r + 1) + k + 1 for k in range(npair)] for r in range(n_rdm)]


def _container(vals, cont):
    if cont == 'array':
        return np.array(vals)
    if cont == 'array_obj':
        return np.array(vals, dtype=object)
    if cont == 'array_small':      # a narrow integer dtype (uint8 / int16) or a fixed-width str dtype
        if all(isinstance(v, bool) for v in vals):
            return np.array(vals, dtype=bool)
        if all(isinstance(v, int) for v in vals):
            return np.array(vals, dtype=np.uint8 if min(vals) >= 0 else np.int16)
        return np.array(vals)
    if cont == 'tuple':
        return tuple(vals)
    if cont == 'scalar':          # a one-item axis described by a bare value (the constructor wraps it)
        assert len(vals) == 1
        return vals[0]
    return list(vals)


def _build(case, vecs=None, desc_key='rdm_desc'):
    """the real RDMs object of a case (fresh containers every time)"""
    vecs = case['vecs'] if vecs is None else vecs
    v = np.array([[np.nan if x is None else float(x) for x in row] for row in vecs], dtype=float)
    if v.ndim == 1:
        v = v.reshape(len(vecs), 0)
    rd = {k: _container(vals, cont) for k, vals, cont in case[desc_key]}
    pd = {k: _container(vals, cont) for k, vals, cont in case['pat_desc']}
    if case.get('form') == '3d':
        x = np.array([squareform(row) for row in v])
    elif case.get('form') == '1d':
        assert len(vecs) == 1
        x = v[0]
    else:
        x = v
    # an empty descriptor list in the case = the argument is not given at all (None)
    return RDMs(x, dissimilarity_measure='tag',
                descriptors=None if case.get('no_descriptors') else {'session': 1},
                rdm_descriptors=rd if rd else None, pattern_descriptors=pd if pd else None)


def _norm(x):
    """descriptor / index values -> plain python int or str"""
    if isinstance(x, (np.ndarray,)) and x.ndim == 0:
        x = x.item()
    if isinstance(x, (np.integer,)):
        return int(x)
    if isinstance(x, (np.str_, str)):
        return str(x)
    if isinstance(x, (bool, np.bool_)):
        return int(x)
    if isinstance(x, (int,)):
        return int(x)
    if isinstance(x, (float, np.floating)) and float(x) == int(x):
        return int(x)
    return repr(x)


def _num(x):
    x = float(x)
    if math.isnan(x):
        return None
    if x == int(x):
        return int(x)
    return rat(x)          # exact dyadic rational "p/q"


def _stack_json(rdms):
    return {'n_cond': int(rdms.n_cond),
            'vecs': [[_num(x) for x in row] for row in np.asarray(rdms.dissimilarities)],
            'rdm_desc': [[k, [_norm(x) for x in v]] for k, v in rdms.rdm_descriptors.items()],
            'pat_desc': [[k, [_norm(x) for x in v]] for k, v in rdms.pattern_descriptors.items()]}


def _canon_stack(st):
    """order of descriptor keys is not part of the property"""
    out = {'n_cond': st['n_cond'], 'vecs': st['vecs'],
           'rdm_desc': {k: v for k, v in st['rdm_desc']},
           'pat_desc': {k: v for k, v in st['pat_desc']}}
    if 'n_cond_2d' in st:        # model only: size recovered by the generated leaf
        out['n_cond_2d'] = st['n_cond_2d']
    return out


# ------------------------------------------------------------------ the randint tap

class Tap:
    """stands in for np.random.randint while the library runs; records every request"""

    def __init__(self, script=None):
        self.script = script
        self.calls = []
        self.orig = np.random.randint

    def __call__(self, low, high=None, size=None, dtype=int):
        if high is None:
            low, high = 0, low
        k = len(self.calls)
        n = size if isinstance(size, (int, np.integer)) else \
            (int(np.prod(size)) if size is not None else None)
        out = None
        scripted = False
        if self.script is not None and k < len(self.script) and self.script[k] is not None:
            s = self.script[k]
            if n == len(s) and all(low <= d < high for d in s):
                out = np.array(s, dtype=int).reshape(size if size is not None else ())
                scripted = True
        if out is None:
            out = self.orig(low, high, size=size)
        self.calls.append({'low': int(low), 'high': int(high), 'size': None if n is None else int(n),
                           'out': [int(d) for d in np.ravel(out)], 'scripted': scripted})
        return out

    def __enter__(self):
        np.random.randint = self
        return self

    def __exit__(self, *a):
        np.random.randint = self.orig


def _value(case):
    """the `value` argument of a direct subsample / subsample_pattern call"""
    v = case['value']
    kind = case['value_kind']
    if kind == 'scalar':
        return v[0]
    if kind == 'np_scalar':
        return np.array(v)[0]
    return _container(v, kind)


def _script(case):
    if case.get('op') == 'resample':
        return None
    d = case['draws']
    if 'seed' in d:
        return None
    if case['mode'] == 'both':
        return [d.get('r'), d.get('p')]
    if case['mode'] == 'rdm':
        return [d.get('r')]
    return [d.get('p')]


_CACHE = {}


def _call(case):
    """run the real library once on a case; returns the raw objects (memoised by case)"""
    key = json.dumps(case, sort_keys=True)
    if key in _CACHE:
        return _CACHE[key]
    res = {}
    try:
        rdms = _build(case)
        if case.get('nested'):
            # the stack under test is the product of an earlier step (its `index` is no longer
            # 0..n-1): a subset of the conditions, or an earlier bootstrap sample over conditions
            nst = case['nested']
            if nst['kind'] == 'subset':
                rdms = rdms.subset_pattern('index', list(nst['keep']))
            else:
                np.random.seed(nst['seed'])
                rdms, _ = B.bootstrap_sample_pattern(rdms)
            rdms.pattern_descriptors[TAG] = [f'c{i}' for i in range(rdms.n_cond)]   # fresh identities
            src = _stack_json(rdms)
            res['nested_case'] = dict(
                case, n_cond=src['n_cond'], vecs=src['vecs'],
                pat_desc=[[k, v, 'list'] for k, v in src['pat_desc']])
            res['nested_source'] = True
        res['source'] = _stack_json(rdms)
        if 'seed' in case.get('draws', {}):
            np.random.seed(case['draws']['seed'])
        else:
            np.random.seed(12345)
        kw = {}
        if case.get('rdm_by') is not None:
            kw['rdm_descriptor'] = case['rdm_by']
        if case.get('pat_by') is not None:
            kw['pattern_descriptor'] = case['pat_by']
        elif case.get('pat_by_explicit_none'):
            kw['pattern_descriptor'] = None      # documented: None means 'index'
        with Tap(_script(case)) as tap:
            try:
                if case.get('op') == 'resample':
                    val = _value(case)
                    if case['axis'] == 'rdm':
                        sample, ridx, pidx = rdms.subsample(case.get('by'), val), val, None
                    else:
                        sample, ridx, pidx = rdms.subsample_pattern(case.get('by'), val), None, val
                elif case['mode'] == 'both':
                    sample, ridx, pidx = B.bootstrap_sample(rdms, **kw)
                elif case['mode'] == 'rdm':
                    kw.pop('pattern_descriptor', None)
                    sample, ridx = B.bootstrap_sample_rdm(rdms, **kw)
                    pidx = None
                else:
                    kw.pop('rdm_descriptor', None)
                    sample, pidx = B.bootstrap_sample_pattern(rdms, **kw)
                    ridx = None
            finally:
                res['calls'] = tap.calls
        res.update(sample=sample, ridx=ridx, pidx=pidx, rdms=rdms)
        if case.get('pred') and pidx is not None:
            pred = _build(case, vecs=case['pred']['vecs'], desc_key='pred_rdm_desc')
            res['pred_source'] = _stack_json(pred)
            res['pred'] = pred.subsample_pattern(case.get('pat_by') or 'index', pidx)
    except Exception as exc:  # noqa: BLE001  library exceptions become a small enum
        name = type(exc).__name__
        res['exc'] = name if name in ('ValueError', 'TypeError', 'KeyError', 'IndexError',
                                      'AssertionError') else 'other:' + name
        res['msg'] = str(exc)[:200]
    if len(_CACHE) > 20000:
        _CACHE.clear()
    _CACHE[key] = res
    return res


def _idx_json(idx):
    return None if idx is None else [_norm(x) for x in np.asarray(idx).ravel()]


# ------------------------------------------------------------------ frequency cases

def _freq_impl(case):
    key = json.dumps(case, sort_keys=True)
    if key in _CACHE:
        return _CACHE[key]
    unknown = 0
    try:
        rdms = _build(case)
        np.random.seed(case['draws']['seed'])
        axis = case['axis']
        by = case.get('rdm_by' if axis == 'rdm' else 'pat_by') or 'index'
        desc = rdms.rdm_descriptors[by] if axis == 'rdm' else rdms.pattern_descriptors[by]
        groups = sorted({_norm(x) for x in desc}, key=lambda z: (isinstance(z, str), z))
        counts = {json.dumps(g): 0 for g in groups}
        for _ in range(case['n_draws']):
            if axis == 'rdm':
                _, idx = B.bootstrap_sample_rdm(rdms, by)
            else:
                _, idx = B.bootstrap_sample_pattern(rdms, by)
            for g in np.asarray(idx).ravel():
                k = json.dumps(_norm(g))
                if k in counts:
                    counts[k] += 1
                else:
                    unknown += 1
        res = {'select': groups, 'counts': counts, 'unknown': unknown, 'n_draws': case['n_draws']}
    except Exception as exc:  # noqa: BLE001
        res = {'exc': type(exc).__name__, 'msg': str(exc)[:200]}
    _CACHE[key] = res
    return res


def _freq_bad(res):
    """6-sigma test of the selection counts: expectation n_draws per group"""
    if 'exc' in res:
        return f"exception {res['exc']}"
    m = len(res['select'])
    n = res['n_draws']
    if res['unknown']:
        return f"{res['unknown']} drawn values are not groups"
    if m < 2:
        return None
    sigma = math.sqrt(n * (1 - 1 / m))
    for g, c in res['counts'].items():
        if abs(c - n) > 6 * sigma + 1:
            return f'group {g} selected {c} times in {n} draws of {m} groups (expected {n} +- {sigma:.1f})'
    return None


# ------------------------------------------------------------------ engine callbacks

def run_impl(case):
    if case.get('op') in OPS:
        return OPS[case['op']]['impl'](case)
    if case.get('op') == 'freq':
        return _freq_impl(case)
    r = _call(case)
    if 'exc' in r:
        return {'exc': r['exc'], 'msg': r.get('msg'), 'calls': r.get('calls', [])}
    if case.get('op') == 'resample':
        return {'stack': _canon_stack(_stack_json(r['sample'])), 'requests': [c['size'] for c in r['calls']]}
    out = {'stack': _canon_stack(_stack_json(r['sample'])),
           'rdm_idx': _idx_json(r['ridx']), 'pat_idx': _idx_json(r['pidx']),
           'idx_types': [type(x).__name__ for x in (r['ridx'], r['pidx']) if x is not None],
           'requests': [[c['low'], c['high'], c['size']] for c in r['calls']],
           'draws': [c['out'] for c in r['calls']]}
    if 'pred' in r:
        out['pred'] = _canon_stack(_stack_json(r['pred']))
    if 'nested_source' in r:
        out['nested'] = True
    return out


def _draws_for_model(case):
    r = _call(case)
    calls = r.get('calls', [])
    outs = [c['out'] for c in calls]
    if case['mode'] == 'both':
        return (outs[0] if len(outs) > 0 else []), (outs[1] if len(outs) > 1 else [])
    if case['mode'] == 'rdm':
        return (outs[0] if outs else []), []
    return [], (outs[0] if outs else [])


def model_requests(case):
    if case.get('op') in OPS:
        return OPS[case['op']]['requests'](case)
    if case.get('op') == 'freq':
        # descriptor taken from the case itself (the real constructor may be what is broken)
        axis = case['axis']
        by = case.get('rdm_by' if axis == 'rdm' else 'pat_by') or 'index'
        n = case['n_rdm'] if axis == 'rdm' else case['n_cond']
        desc = list(range(n))
        for k, vals, _ in case['rdm_desc' if axis == 'rdm' else 'pat_desc']:
            if k == by:
                desc = vals
        return [{'op': 'c09.unique', 'desc': [_norm(x) for x in desc]}]
    r = _call(case)
    src = r.get('source')
    if src is None:           # the constructor itself raised: nothing to model
        return []
    if case.get('op') == 'resample':
        op = 'c09.resample_rdm' if case['axis'] == 'rdm' else 'c09.resample'
        return [dict(src, op=op, rdm_by=case.get('by') or 'index', pat_by=case.get('by') or 'index',
                     value=[_norm(x) for x in case['value']])]
    dr, dp = _draws_for_model(case)
    req = dict(src, op='c09.boot', mode=case['mode'], draws_r=dr, draws_p=dp,
               rdm_by=case.get('rdm_by') or 'index', pat_by=case.get('pat_by') or 'index')
    reqs = [req]
    if case.get('pred') and case['mode'] != 'rdm':
        # the prediction is resampled with the *model's* pattern indices: second request is
        # resolved in model_result (needs the first answer) -> we send the library's indices
        # only if they are what the model returns; compare() checks that equality separately.
        pidx = _idx_json(r.get('pidx')) if r.get('pidx') is not None else []
        ps = r.get('pred_source')
        if ps is not None:
            reqs.append(dict(ps, op='c09.resample', pat_by=case.get('pat_by') or 'index', value=pidx))
    return reqs


def model_result(case, answers):
    if case.get('op') in OPS:
        return OPS[case['op']]['model'](case, answers)
    if case.get('op') == 'freq':
        return {'select': answers[0]}
    if not answers:
        return {'exc': 'constructor'}
    a = answers[0]
    if isinstance(a, dict) and 'model_error' in a:
        return a
    if 'exc' in a:
        return {'exc': a['exc']}
    if case.get('op') == 'resample':
        return {'stack': _canon_stack(a['stack']), 'requests': []}
    out = {'stack': _canon_stack(a['stack']), 'rdm_idx': a['rdm_idx'], 'pat_idx': a['pat_idx'],
           'requests': [list(sp) for sp in (a['spec_r'], a['spec_p']) if sp is not None]}
    if len(answers) > 1:
        b = answers[1]
        out['pred'] = _canon_stack(b['stack']) if 'stack' in b else b
    return out


def _diff_stack(name, a, b):
    """first difference between a library stack `a` and a model stack `b` (canonical form)"""
    if a['n_cond'] != b['n_cond']:
        return f"{name}.n_cond {a['n_cond']} != {b['n_cond']}"
    if b.get('n_cond_2d') is not None and a.get('n_cond_2d') is None and b['n_cond_2d'] != a['n_cond']:
        return (f"{name}: size recovered from the vector length by the generated leaf "
                f"{b['n_cond_2d']} != library n_cond {a['n_cond']}")
    if len(a['vecs']) != len(b['vecs']):
        return f"{name}: {len(a['vecs'])} RDMs != {len(b['vecs'])}"
    for r, (x, y) in enumerate(zip(a['vecs'], b['vecs'])):
        if x != y:
            k = next((i for i, (p, q) in enumerate(zip(x, y)) if p != q), min(len(x), len(y)))
            return f'{name}.vecs[{r}][{k}]: library {x[k:k+1]} != model {y[k:k+1]} (lengths {len(x)}, {len(y)})'
    for d in ('rdm_desc', 'pat_desc'):
        if sorted(a[d]) != sorted(b[d]):
            return f'{name}.{d} keys {sorted(a[d])} != {sorted(b[d])}'
        for k in sorted(a[d]):
            if a[d][k] != b[d][k]:
                return f'{name}.{d}[{k}]: library {a[d][k]} != model {b[d][k]}'
    return None


def _compare_boot(case, impl, model):
    """one bootstrap call: exceptions, randint requests, index arrays, the sample"""
    if isinstance(model, dict) and 'model_error' in model:
        return f'model error {model}'
    if 'exc' in impl or 'exc' in model:
        if impl.get('exc') != model.get('exc'):
            return f"library {impl.get('exc')} ({impl.get('msg')}) vs model {model.get('exc')}"
        return None
    for k in ('requests', 'rdm_idx', 'pat_idx'):
        if impl.get(k) != model.get(k):
            return f'{k}: library {impl.get(k)} != model {model.get(k)}'
    if any(t != 'ndarray' for t in impl.get('idx_types', [])):
        return f"indices are not numpy arrays: {impl['idx_types']}"
    return _diff_stack('stack', impl['stack'], model['stack'])


def compare(case, impl, model):
    if isinstance(model, dict) and 'model_error' in model:
        return f'model error {model}'
    if case.get('op') in OPS:
        return OPS[case['op']]['compare'](case, impl, model)
    if case.get('op') == 'freq':
        if 'exc' in impl:
            return f"library raised {impl['exc']}: {impl.get('msg')}"
        if impl['select'] != model['select']:
            return f"groups {impl['select']} != model unique {model['select']}"
        return _freq_bad(impl)
    if 'exc' in impl or 'exc' in model:
        if impl.get('exc') != model.get('exc'):
            return f"library {impl.get('exc')} ({impl.get('msg')}) vs model {model.get('exc')}"
        return None
    if case.get('op') == 'resample':
        return _diff_stack('stack', impl['stack'], model['stack'])
    d = _compare_boot(case, impl, model)
    if d:
        return d
    if ('pred' in impl) != ('pred' in model):
        return 'pred: present on one side only'
    if 'pred' in impl:
        if not isinstance(model['pred'], dict) or 'vecs' not in model['pred']:
            return f"pred: model {model['pred']}"
        d = _diff_stack('pred', impl['pred'], model['pred'])
        if d:
            return d
        if impl['pred']['pat_desc'] != impl['stack']['pat_desc'] and case.get('pred', {}).get('same_desc', True):
            return 'resampled prediction and sample have different pattern descriptors'
    return None


# ------------------------------------------------------------------ oracle (independent)

TAG = '_tag'


def _tagpos(vals, what):
    """position encoded in a tag descriptor value 'r3' / 'c5'"""
    return [int(str(x)[1:]) for x in vals]


def _check_sample(case, src_vecs, sample, ridx, pidx, rdm_desc_key='rdm_desc', free=False):
    """the property statement on one (source, sample, indices); returns None or a finding"""
    n_rdm, n_cond = len(src_vecs), case['n_cond']
    rd = {k: [_norm(x) for x in vals] for k, vals, _ in case[rdm_desc_key]}
    pd = {k: [_norm(x) for x in vals] for k, vals, _ in case['pat_desc']}
    rd.setdefault('index', list(range(n_rdm)))
    pd.setdefault('index', list(range(n_cond)))
    src = np.full((n_rdm, n_cond, n_cond), np.nan)
    for r in range(n_rdm):
        k = 0
        for i in range(n_cond):
            for j in range(i + 1, n_cond):
                x = src_vecs[r][k]
                src[r, i, j] = src[r, j, i] = np.nan if x is None else float(x)
                k += 1
    s_rd = {k: [_norm(x) for x in v] for k, v in sample.rdm_descriptors.items()}
    s_pd = {k: [_norm(x) for x in v] for k, v in sample.pattern_descriptors.items()}
    vec = np.asarray(sample.dissimilarities, dtype=float)
    # --- which source item is each sample item?  (hidden unique tag descriptors)
    #     an axis built without descriptors is identified by the constructor's own unique `index`
    rkey = TAG if TAG in rd else 'index'
    ckey = TAG if TAG in pd else 'index'
    if rkey not in s_rd or ckey not in s_pd:
        return {'what': 'descriptor lost in the sample', 'observed': [sorted(s_rd), sorted(s_pd)],
                'expected': [sorted(rd), sorted(pd)]}
    o_r = _tagpos(s_rd[rkey], 'r') if rkey == TAG else list(s_rd[rkey])
    o_c = _tagpos(s_pd[ckey], 'c') if ckey == TAG else list(s_pd[ckey])
    for axis, by_key, idx, desc, orig, sdesc, n_src in (
            ('rdm', 'rdm_by', ridx, rd, o_r, s_rd, n_rdm),
            ('pattern', 'pat_by', pidx, pd, o_c, s_pd, n_cond)):
        by = (case.get('by') if free else case.get(by_key)) or 'index'
        if idx is None:
            # axis not resampled: same items in the same order
            if orig != list(range(n_src)):
                return {'what': f'{axis} axis changed although it was not resampled',
                        'observed': orig, 'expected': list(range(n_src))}
            want = {j: 1 for j in range(n_src)}
        elif free:
            # direct subsample / subsample_pattern call with caller-chosen values
            drawn = [_norm(x) for x in case['value']]
            want = {j: drawn.count(desc[by][j]) for j in range(n_src)}
        else:
            if not isinstance(idx, np.ndarray):
                return {'what': f'{axis} indices are not returned as an index array',
                        'observed': type(idx).__name__, 'expected': 'ndarray'}
            groups = sorted(set(desc[by]), key=lambda z: (isinstance(z, str), z))
            drawn = [_norm(x) for x in idx.ravel()]
            if len(drawn) != len(groups):
                return {'what': f'number of drawn {axis} groups differs from the number of distinct groups',
                        'observed': len(drawn), 'expected': len(groups)}
            if any(g not in groups for g in drawn):
                return {'what': f'a drawn {axis} index is not a descriptor value',
                        'observed': drawn, 'expected': groups}
            want = {j: drawn.count(desc[by][j]) for j in range(n_src)}
        got = {j: orig.count(j) for j in range(n_src)}
        if any(not (0 <= j < n_src) for j in orig) or got != want:
            return {'what': f'{axis}s in the sample are not the members of the drawn groups with the drawn multiplicity',
                    'observed': got, 'expected': want, 'features': {'axis': axis}}
        for k, vals in desc.items():
            exp = [vals[j] for j in orig]
            if sdesc.get(k) != exp:
                return {'what': f'{axis} descriptor {k!r} of the sample does not belong to the sampled items',
                        'observed': sdesc.get(k), 'expected': exp, 'features': {'axis': axis}}
        extra = set(sdesc) - set(desc)
        if extra:
            return {'what': f'{axis} descriptors appeared', 'observed': sorted(extra), 'expected': []}
    # --- entries
    kc = len(o_c)
    if vec.shape != (len(o_r), kc * (kc - 1) // 2) or sample.n_cond != kc or sample.n_rdm != len(o_r):
        return {'what': 'shape of the sample', 'observed': [list(vec.shape), sample.n_rdm, sample.n_cond],
                'expected': [len(o_r), kc * (kc - 1) // 2]}
    for p, r in enumerate(o_r):
        k = 0
        for i in range(kc):
            for j in range(i + 1, kc):
                a, b = o_c[i], o_c[j]
                got = vec[p, k]
                exp = np.nan if a == b else src[r, a, b]
                if (math.isnan(got) != math.isnan(exp)) or (not math.isnan(exp) and got != exp):
                    what = ('an entry of the sample is not the source dissimilarity of its RDM and '
                            'original conditions')
                    if math.isnan(got) and not math.isnan(exp):
                        what = 'an entry between two different conditions became NaN'
                    elif math.isnan(exp) and a == b:
                        what = 'an entry pairing two copies of one condition is not NaN'
                    return {'what': what, 'observed': None if math.isnan(got) else got,
                            'expected': None if math.isnan(exp) else exp,
                            'features': {'where': [p, i, j], 'orig': [r, a, b]}}
                k += 1
    return None


def oracle(case):
    if case.get('op') in OPS:
        return OPS[case['op']]['oracle'](case)
    if case.get('op') == 'freq':
        res = _freq_impl(case)
        bad = _freq_bad(res)
        if bad:
            return {'what': 'groups are not selected equally often', 'observed': bad,
                    'expected': 'every count within 6 sigma of n_draws', 'features': {'op': 'freq'}}
        return None
    r = _call(case)
    if case.get('op') == 'resample' and 'exc' not in r:
        return _check_sample(case, case['vecs'], r['sample'], r['ridx'], r['pidx'], free=True)
    if 'exc' in r:
        return {'what': 'bootstrap raised on a valid stack', 'observed': f"{r['exc']}: {r.get('msg')}",
                'expected': 'a sample', 'features': {'exc': r['exc']}}
    c0 = r.get('nested_case', case)       # nested: the derived stack is the source
    f = _check_sample(c0, c0['vecs'], r['sample'], r['ridx'], r['pidx'])
    if f:
        return f
    if 'pred' in r:
        f = _check_sample(case, case['pred']['vecs'], r['pred'], None, r['pidx'],
                          rdm_desc_key='pred_rdm_desc')
        if f:
            f['what'] = 'resampled prediction: ' + f['what']
            return f
        key = TAG if TAG in r['sample'].pattern_descriptors else 'index'
        a = [_norm(x) for x in r['pred'].pattern_descriptors[key]]
        b = [_norm(x) for x in r['sample'].pattern_descriptors[key]]
        if a != b:
            return {'what': 'conditions of the resampled prediction are not in the order of the sample',
                    'observed': a, 'expected': b}
    return None


# ------------------------------------------------------------------ features

def _groups(vals):
    return len(set(vals))


def features(case, impl):
    if case.get('op') in OPS:
        return OPS[case['op']]['features'](case, impl)
    if case.get('op') == 'freq':
        return {'op': 'freq', 'axis': case['axis'], 'branches': ['freq']}
    resample = case.get('op') == 'resample'
    rd = {k: (vals, cont) for k, vals, cont in case['rdm_desc']}
    pd = {k: (vals, cont) for k, vals, cont in case['pat_desc']}
    used = []
    if resample:
        br = ['op:resample', 'resample:' + case['axis'], 'form:' + case.get('form', '2d'),
              'value:' + case['value_kind'], 'resample_by:' + ('none' if case.get('by') is None else 'named')]
        d, n = (rd, case['n_rdm']) if case['axis'] == 'rdm' else (pd, case['n_cond'])
        col = d.get(case.get('by') or 'index', (list(range(n)), 'list'))[0]
        if any(v not in col for v in case['value']):
            br.append('value:absent')
        if len(set(case['value'])) < len(case['value']):
            br.append('value:repeated')
        used.append((case['axis'], case.get('by'), d, n))
    else:
        br = ['mode:' + case['mode'], 'form:' + case.get('form', '2d'),
              'draws:' + ('recorded' if 'seed' in case['draws'] else 'injected')]
        if case['mode'] != 'pattern':
            used.append(('rdm', case.get('rdm_by'), rd, case['n_rdm']))
        if case['mode'] != 'rdm':
            used.append(('pattern', case.get('pat_by'), pd, case['n_cond']))
        if case.get('pat_by_explicit_none') and case['mode'] != 'rdm':
            br.append('pat_by:explicit_none')
    if not case['rdm_desc']:
        br.append('rdm_desc:none')
    if not case['pat_desc']:
        br.append('pat_desc:none')
    if case.get('no_descriptors'):
        br.append('descriptors:none')
    if any(cont == 'scalar' for _, _, cont in case['rdm_desc']):
        br.append('container:scalar')
    if any(cont == 'scalar' for _, _, cont in case['pat_desc']):
        br.append('container:scalar_pattern')
    if case['n_cond'] == 1:
        br.append('n_cond:1')
    kinds = set()
    for axis, by, d, n in used:
        if not resample:
            br.append('by:default' if by is None else 'by:named')
        vals, cont = d.get(by or 'index', (list(range(n)), 'list'))
        br.append('container:' + cont)
        kinds.add('str' if any(isinstance(x, str) for x in vals) else
                  'bool' if vals and all(isinstance(x, bool) for x in vals) else 'int')
        if _groups(vals) < len(vals):
            br.append('grouped:' + axis)
            if (by or 'index') == 'index':
                br.append('index:repeated')
    br += ['desc:' + k for k in kinds]
    flat = [x for row in case['vecs'] for x in row]
    if any(x is None for x in flat):
        br.append('src:nan')
    if any(x == 0 for x in flat if x is not None):
        br.append('src:zero')
    if case.get('pred') and not resample and case['mode'] != 'rdm':
        br.append('pred')
    if case.get('nested'):
        br.append('nested:' + ('subset' if case['nested']['kind'] == 'subset' else 'pattern'))
    f = {'op': case.get('op', 'boot'), 'mode': case.get('mode', case.get('axis')), 'n_rdm': case['n_rdm'], 'n_cond': case['n_cond'],
         'form': case.get('form', '2d'), 'desc_kind': '+'.join(sorted(kinds))}
    if impl and 'draws' in impl:
        draws = impl['draws']
        reqs = impl['requests']
        for (axis, *_), d, q in zip(used, draws, reqs):
            if len(set(d)) < len(d):
                br.append('dup:' + axis)
            if len(set(d)) < q[1]:
                br.append('left_out:' + axis)
        f['sample_n_cond'] = impl['stack']['n_cond']
    if impl and 'exc' in impl:
        f['exc'] = impl['exc']
    f['branches'] = sorted(set(br))
    return f


def nontrivial_key(case, impl):
    if case.get('op') in OPS:
        return [case['op'], json.dumps(case, sort_keys=True)]
    if case.get('op') == 'freq':
        return ['freq', case['axis'], case['n_rdm'], case['n_cond'], case['draws']['seed']]
    if case.get('op') == 'resample':
        return ['resample', case['axis'], case['vecs'], case['rdm_desc'], case['pat_desc'],
                case.get('by'), case['value'], case['value_kind']]
    if not impl or 'draws' not in impl:
        return None
    if all(sorted(d) == list(range(len(d))) for d in impl['draws']) and \
            all(_groups(vals) == len(vals) for _, vals, _ in case['rdm_desc'] + case['pat_desc']):
        return None       # identity resample of ungrouped items
    return [case['mode'], case['vecs'], case['rdm_desc'], case['pat_desc'], case.get('rdm_by'),
            case.get('pat_by'), impl['draws'], case.get('nested')]


# ------------------------------------------------------------------ generation

def _labels(rng, n, kind, grouped):
    """n descriptor values of one kind; grouped -> some values repeat"""
    m = n if not grouped else rng.randint(1, max(1, n - 1))
    if kind == 'int':
        pool = rng.sample(range(-3, 12), min(m, 15))
    elif kind == 'bool':
        pool = rng.sample([False, True], min(m, 2))
    else:
        pool = rng.sample(STR_POOL, min(m, len(STR_POOL)))
    vals = list(pool)
    while len(vals) < n:
        vals.append(rng.choice(pool))
    rng.shuffle(vals)
    return vals[:n]


def _cont(rng):
    return rng.choice(['list', 'list', 'list', 'list', 'array', 'array', 'array', 'tuple',
                       'array_obj', 'array_small'])


def _axis_desc(rng, n, tagchar):
    """descriptors of one axis: hidden tag, the grouping descriptor, extras; returns (list, by)"""
    descs = [[TAG, [f'{tagchar}{i}' for i in range(n)], _cont(rng)]]
    style = rng.choice(['default', 'default', 'named', 'named', 'named', 'index_rep'])
    by = None
    if style == 'named':
        by = rng.choice(['group', 'subj', 'cat'])
        kind = rng.choice(['int', 'int', 'int', 'str', 'str', 'str', 'bool'])
        descs.append([by, _labels(rng, n, kind, rng.random() < 0.7 or kind == 'bool'), _cont(rng)])
    elif style == 'index_rep':
        # a stack that already is a bootstrap sample: `index` repeats
        descs.append(['index', sorted(_labels(rng, n, 'int', True)), _cont(rng)])
    if rng.random() < 0.6:
        descs.append(['name', [rng.choice(STR_POOL) + str(i % 3) for i in range(n)],
                      _cont(rng)])
    if rng.random() < 0.4:
        descs.append(['run', [rng.randint(0, 3) for _ in range(n)], _cont(rng)])
    rng.shuffle(descs)
    return descs, by


def _n_groups(descs, by, n):
    for k, vals, _ in descs:
        if k == (by or 'index'):
            return len(set(vals))
    return n


def _make_case(rng, n_rdm=None, n_cond=None, mode=None):
    n_rdm = n_rdm or rng.choice([1, 2, 2, 3, 3, 4, 5])
    n_cond = n_cond or rng.choice([2, 3, 3, 4, 4, 5, 5, 6, 7, 8])
    mode = mode or rng.choice(['both', 'both', 'rdm', 'pattern', 'pattern'])
    vecs = _tag_vecs(n_rdm, n_cond)
    if rng.random() < 0.3 and vecs[0]:
        for _ in range(rng.randint(1, 2)):
            r, k = rng.randrange(n_rdm), rng.randrange(len(vecs[0]))
            vecs[r][k] = rng.choice([None, 0])
    rd, rby = _axis_desc(rng, n_rdm, 'r')
    pd, pby = _axis_desc(rng, n_cond, 'c')
    case = {'op': 'boot', 'mode': mode, 'n_rdm': n_rdm, 'n_cond': n_cond, 'vecs': vecs,
            'form': rng.choice(['2d', '2d', '3d']), 'rdm_desc': rd, 'pat_desc': pd,
            'rdm_by': rby, 'pat_by': pby}
    if mode != 'rdm' and rng.random() < 0.5:
        npair = n_cond * (n_cond - 1) // 2
        case['pred'] = {'vecs': [[9000 + k + 1 for k in range(npair)]]}
        case['pred_rdm_desc'] = [[TAG, ['r0'], 'list'], ['model', ['m'], 'list']]
    return case


def _vary_construction(rng, case):
    """round 2: the constructor / default branches of the anchored code"""
    r = rng.random()
    if case['n_rdm'] == 1 and r < 0.5:
        if rng.random() < 0.5:
            case['form'] = '1d'
        if rng.random() < 0.6:
            case['rdm_desc'] = [[k, v, 'scalar'] for k, v, _ in case['rdm_desc']]
    r = rng.random()
    if r < 0.08 and case.get('rdm_by') is None and not any(k == 'index' for k, _, _ in case['rdm_desc']):
        case['rdm_desc'] = []          # rdm_descriptors=None; items identified by the auto index
        if 'pred' in case:
            case['pred_rdm_desc'] = []
    r = rng.random()
    if r < 0.08 and case.get('pat_by') is None and not any(k == 'index' for k, _, _ in case['pat_desc']):
        case['pat_desc'] = []
    if rng.random() < 0.1:
        case['no_descriptors'] = True
    if case.get('pat_by') is None and rng.random() < 0.3:
        case['pat_by_explicit_none'] = True
    return case


def _resample_case(rng):
    """a direct call rdms.subsample(by, value) / rdms.subsample_pattern(by, value)"""
    case = _make_case(rng, mode='both')
    case.pop('pred', None)
    case.pop('pred_rdm_desc', None)
    case.pop('mode')
    axis = rng.choice(['rdm', 'pattern'])
    descs, by, n = (case['rdm_desc'], case['rdm_by'], case['n_rdm']) if axis == 'rdm' else \
        (case['pat_desc'], case['pat_by'], case['n_cond'])
    col = list(range(n))
    for k, vals, _ in descs:
        if k == (by or 'index'):
            col = vals
    kind = rng.choice(['scalar', 'np_scalar', 'list', 'list', 'tuple', 'array', 'array'])
    if kind in ('scalar', 'np_scalar'):
        value = [rng.choice(col)]
    else:
        value = [rng.choice(col) for _ in range(rng.randint(1, n + 2))]
        if rng.random() < 0.2:       # a value no item carries selects nothing
            absent = 'nope' if isinstance(col[0], str) else 99
            value.insert(rng.randrange(len(value) + 1), absent)
    case.pop('rdm_by')
    case.pop('pat_by')
    case.update(op='resample', axis=axis, by=by, value=value, value_kind=kind)
    if case['n_rdm'] == 1 and rng.random() < 0.3:
        case['form'] = '1d'
    return case


def _with_draws(rng, case, how):
    gr = _n_groups(case['rdm_desc'], case['rdm_by'], case['n_rdm'])
    gp = _n_groups(case['pat_desc'], case['pat_by'], case['n_cond'])
    if how == 'seed':
        case['draws'] = {'seed': rng.randrange(2 ** 31)}
    else:
        case['draws'] = {'r': [rng.randrange(gr) for _ in range(gr)],
                         'p': [rng.randrange(gp) for _ in range(gp)]}
    return case


def _freq_case(rng, n_draws):
    case = _make_case(rng, mode='both')
    case.pop('pred', None)
    case.pop('pred_rdm_desc', None)
    case.update(op='freq', axis=rng.choice(['rdm', 'pattern']), n_draws=n_draws,
                draws={'seed': rng.randrange(2 ** 31)})
    return case


def _nested_case(rng):
    """default-descriptor bootstrap of a stack whose `index` is no longer 0..n-1: a subset of the
    conditions (index e.g. 0,2,3,5) or an earlier bootstrap sample (index e.g. 0,0,3,3)"""
    case = _make_case(rng, n_cond=rng.choice([4, 5, 6, 7]), mode=rng.choice(['pattern', 'pattern', 'both']))
    case.pop('pred', None)
    case.pop('pred_rdm_desc', None)
    case['pat_desc'] = [d for d in case['pat_desc'] if d[0] != 'index']
    case['pat_by'] = None
    n = case['n_cond']
    if rng.random() < 0.5:
        keep = sorted(rng.sample(range(n), rng.randint(2, n - 1)))
        case['nested'] = {'kind': 'subset', 'keep': keep}
        g = len(keep)
    else:
        case['nested'] = {'kind': 'boot', 'seed': rng.randrange(2 ** 31)}
        g = None
    if rng.random() < 0.3:
        case['pat_by_explicit_none'] = True
    gr = _n_groups(case['rdm_desc'], case['rdm_by'], case['n_rdm'])
    if g is not None and rng.random() < 0.5:
        case['draws'] = {'r': [rng.randrange(gr) for _ in range(gr)], 'p': [rng.randrange(g) for _ in range(g)]}
    else:
        case['draws'] = {'seed': rng.randrange(2 ** 31)}
    return case


def _round3_stream(rng, scale):
    """scale = 1 for the quick tier"""
    for _ in range(150 * scale):
        yield R3.make_session(rng)
    for _ in range(120 * scale):
        yield R3.make_testset(rng)
    for _ in range(100 * scale):
        yield _nested_case(rng)
    for _ in range(120 * scale):
        yield R3.make_exotic(rng)
    for _ in range(10 * min(scale, 6)):
        yield R3.make_fx(rng)
    for i in range(200 * scale):
        yield R4.make_inplace(rng, with_models=(i % 10 < 4))
    yield from R6.stream(rng, 'quick' if scale == 1 else 'thorough')


def _all_draws(m):
    out = [[]]
    for _ in range(m):
        out = [o + [d] for o in out for d in range(m)]
    return out


def generate(rng, tier):
    n = 1500 if tier == 'quick' else 30000
    for i in range(n):
        c = _make_case(rng)
        if i % 3 == 0:
            c = _vary_construction(rng, c)
        yield _with_draws(rng, c, 'seed' if i % 2 else 'inject')
    for _ in range(n // 4):
        yield _resample_case(rng)
    # degenerate stacks with a single condition (vector length 0), scalar pattern descriptors
    for i in range(max(6, n // 100)):
        c = _make_case(rng, n_cond=1)
        if i % 2 == 0:
            c['pat_desc'] = [[k, v, 'scalar'] for k, v, _ in c['pat_desc']]
        yield _with_draws(rng, _vary_construction(rng, c), 'seed' if i % 3 else 'inject')
    for _ in range(12 if tier == 'quick' else 60):
        yield _freq_case(rng, 300 if tier == 'quick' else 1500)
    yield from _round3_stream(rng, 1 if tier == 'quick' else 15)
    # every draw outcome of small stacks (quick: one stack of 3 groups; thorough: up to 4 groups)
    sizes = [(2, 3), (3, 3)] if tier == 'quick' else \
        [(2, 3), (3, 3), (3, 4), (2, 4), (4, 4), (1, 4), (4, 3), (3, 5), (2, 5)]
    for n_rdm, n_cond in sizes:
        for mode in ['pattern', 'rdm', 'both']:
            base = _make_case(rng, n_rdm=n_rdm, n_cond=n_cond, mode=mode)
            gr = _n_groups(base['rdm_desc'], base['rdm_by'], n_rdm)
            gp = _n_groups(base['pat_desc'], base['pat_by'], n_cond)
            if mode == 'both':
                combos = [(a, b) for a in _all_draws(gr) for b in _all_draws(gp)]
                cap = 150 if tier == 'quick' else 1500
                if len(combos) > cap:
                    combos = rng.sample(combos, cap)
            elif mode == 'rdm':
                combos = [(a, []) for a in _all_draws(gr)]
            else:
                combos = [([], b) for b in _all_draws(gp)]
            if len(combos) > 3200:
                combos = rng.sample(combos, 3200)
            for a, b in combos:
                c = json.loads(json.dumps(base))
                c['draws'] = {'r': a, 'p': b}
                yield c


def search(rng, tier):
    """failing-input search: more injected draws on small stacks, then the general stream"""
    for i in range(4000):
        if i % 5 == 4:
            yield _resample_case(rng)
            continue
        c = _make_case(rng)
        if i % 4 == 0:
            c = _vary_construction(rng, c)
        yield _with_draws(rng, c, 'inject' if i % 3 else 'seed')
        if i % 25 == 0:
            yield _freq_case(rng, 300)
        if i % 10 == 0:
            yield R3.make_session(rng)
            yield R3.make_testset(rng)
            yield _nested_case(rng)
        if i % 4 == 1:
            yield R4.make_inplace(rng)
        if i % 200 == 0:
            yield R3.make_fx(rng)
        if i % 40 == 2:
            yield R6.make_large(rng)


def _fix_draws(c):
    if 'seed' in c['draws']:
        return
    gr = _n_groups(c['rdm_desc'], c.get('rdm_by'), c['n_rdm'])
    gp = _n_groups(c['pat_desc'], c.get('pat_by'), c['n_cond'])
    for key, g in (('r', gr), ('p', gp)):
        d = [min(x, g - 1) for x in c['draws'].get(key, [])][:g]
        c['draws'][key] = d + [0] * (g - len(d))


def _drop_rdm(c):
    assert c['n_rdm'] > 1
    c['n_rdm'] -= 1
    c['vecs'] = c['vecs'][:-1]
    c['rdm_desc'] = [[k, v[:-1], ct] for k, v, ct in c['rdm_desc']]
    _fix_draws(c)


def _drop_cond(c):
    assert c['n_cond'] > 2
    c['n_cond'] -= 1
    c['vecs'] = _tag_vecs(c['n_rdm'], c['n_cond'])
    c['pat_desc'] = [[k, v[:-1], ct] for k, v, ct in c['pat_desc']]
    if 'pred' in c:
        c['pred'] = {'vecs': [[9000 + k + 1 for k in range(len(c['vecs'][0]))]]}
    _fix_draws(c)


def shrink(case, still_fails):
    """drop what is not needed for the failure: prediction, extra descriptors, 3-d form,
    trailing RDMs and conditions"""
    if case.get('op') == 'session':
        return R3.shrink_session(case, still_fails)
    if case.get('op') == 'inplace':
        return R4.shrink_inplace(case, still_fails)
    if case.get('op') == 'large':
        return R6.shrink_large(case, still_fails)
    if case.get('op') in ('freq', 'resample') or case.get('op') in OPS or case.get('nested'):
        return case
    cur = json.loads(json.dumps(case))

    def attempt(mod):
        nonlocal cur
        c = json.loads(json.dumps(cur))
        try:
            mod(c)
            if still_fails(c):
                cur = c
                return True
        except Exception:  # noqa: BLE001
            pass
        return False

    def drop_pred(c):
        c.pop('pred')
        c.pop('pred_rdm_desc')
    if 'pred' in cur:
        attempt(drop_pred)
    attempt(lambda c: c.update(form='2d'))
    for key, by in (('rdm_desc', 'rdm_by'), ('pat_desc', 'pat_by')):
        for k in [d[0] for d in cur[key]]:
            if k not in (TAG, cur.get(by) or 'index'):
                attempt(lambda c, key=key, k=k: c.update({key: [d for d in c[key] if d[0] != k]}))
        attempt(lambda c, key=key: c.update({key: [[d[0], d[1], 'list'] for d in c[key]]}))
    attempt(lambda c: c.update(vecs=_tag_vecs(c['n_rdm'], c['n_cond'])))
    if cur['mode'] == 'both':
        if not attempt(lambda c: c.update(mode='pattern')):
            attempt(lambda c: c.update(mode='rdm'))
    for _ in range(12):
        a = attempt(_drop_rdm)
        b = attempt(_drop_cond)
        if not (a or b):
            break
    return cur
