"""C02, round 4 — reuse sessions: ONE Dataset object analysed by several successive calls.

A single-call engine builds fresh objects for every case and therefore cannot see *state that
survives a call*: an argument centred / sorted / normalised in place (only a LATER call on the same
object is wrong), a per-object cache that an in-place operation does not invalidate, a module-level
memo with too coarse a key, a result that is a view of a buffer a later call overwrites.

A session case (JSON):

  {'kind': 'session', 'P': channels,
   'ckind' / 'ckind2' / 'fkind'   label types of the descriptors 'cond' / 'cond2' / 'fold'
   'cond', 'cond2', 'fold'        one label per observation; 'cond2' is a second condition descriptor
                                  ('rename': other labels, other sort order; 'merge': two conditions per
                                  label), both fold-balanced w.r.t. 'fold' and w.r.t. the default folds
   'x'                            observations x channels, exact dyadic numbers (non-negative when a
                                  poisson_cv step occurs)
   'layout', 'desc_container', 'noise_dtype', 'extra'      as in single cases
   'noises': {'m0', 'm1': P x P matrices; 'l0', 'l1': one SPD matrix per fold (sorted fold order)}
                                  the caller's precision OBJECTS: built once, handed to every step that
                                  names them (so a write into a precision argument reaches later steps)
   'steps': [ {'t': 'call', 'method', 'via', 'descriptor': 'cond' | 'cond2', 'default_cv': bool,
               'remove_mean', 'noise': None | 'm0' | 'm1' | 'l0' | 'l1',
               'noise_container': 'list' | 'dict' | 'array3d', 'prior_lambda', 'prior_weight'}
            | {'t': 'sort', 'by': 'cond' | 'cond2' | 'fold'} ]      the user calls ds.sort_by(by)
   optional 'twin': {'cond', 'cond2', 'fold', 'x', 'ckind', 'ckind2', 'fkind', 'kind'}   a SECOND Dataset object
                                  with the same descriptor names, shape, dtype, layout, number of
                                  observations and the same smallest / largest condition label, but other
                                  values, another row order and (kind 'merge') another grouping — made to
                                  collide with the first object on every key that is coarser than the
                                  content (name, count, shape, first / last label); a step addresses it by
                                  'ds': 1 (default 0)
  }

`step_case(case, i)` is step i as a stand-alone single-call case on the content the object must have
at that moment, computed from the case's ORIGINAL numbers in plain Python (the sorts so far applied as
stable `sorted`); model, oracle and formula all work on that, never on the live object.

`run_session(case, …)` builds the object once and performs the steps.  After every call the dataset
(measurement array: identity, dtype, shape, strides, bytes; every descriptor dict: keys in order,
container types, values) and every precision object must be bit-identical to the snapshot taken before
the call; after a `sort` the content must be the independently permuted original.  All returned RDMs
are kept and read again at the end of the session: an earlier result must not change afterwards.
"""
import json
from fractions import Fraction as F

import numpy as np

from lean import rat, unrat

CALL_DEFAULTS = {'t': 'call', 'method': 'crossnobis', 'via': 'calc_rdm', 'descriptor': 'cond',
                 'default_cv': False, 'remove_mean': False, 'noise': None, 'noise_container': 'list',
                 'prior_lambda': 1.0, 'prior_weight': 0.1}


def call(**kw):
    st = dict(CALL_DEFAULTS)
    st.update(kw)
    return st


def calls_of(case):
    return [i for i, st in enumerate(case['steps']) if st['t'] == 'call']


# ------------------------------------------------------------------ generation

RECIPES = {
    # the order of the brief: remove_mean first, then without; noise None / matrix / per-fold list;
    # default folds then explicit folds; other descriptor
    'remove_mean_first': lambda: [call(remove_mean=True), call(remove_mean=False),
                                  call(remove_mean=True, via='direct', noise='m0'),
                                  call(remove_mean=False, via='direct', noise='m0')],
    'noise_kinds': lambda: [call(noise=None, via='direct'), call(noise='m0'), call(noise='l0'),
                            call(noise='m0', via='direct')],
    'noise_changes': lambda: [call(noise='l0', remove_mean=True), call(noise='l1'), call(noise='m1'),
                              call(noise='m0')],
    'default_then_explicit': lambda: [call(default_cv=True), call(default_cv=False),
                                      call(default_cv=True, descriptor='cond2')],
    'explicit_then_default': lambda: [call(default_cv=False, via='direct'),
                                      call(default_cv=True, via='direct')],
    'descriptor_changes': lambda: [call(descriptor='cond'), call(descriptor='cond2'),
                                   call(descriptor='cond')],
    'methods': lambda: [call(method='poisson_cv', default_cv=True), call(noise='m0'),
                        call(method='poisson_cv', via='direct'), call(default_cv=True)],
    'poisson_twice': lambda: [call(method='poisson_cv', via='direct', default_cv=True),
                              call(method='poisson_cv', via='direct', default_cv=True, descriptor='cond2')],
    'repeat': lambda: [call(noise='l0', noise_container='array3d'), call(noise='l0', noise_container='array3d')],
    'sorted_between': lambda: [call(default_cv=True), {'t': 'sort', 'by': 'fold'}, call(default_cv=True),
                               call(default_cv=False)],
    'sorted_between2': lambda: [call(default_cv=True, method='poisson_cv'), {'t': 'sort', 'by': 'cond2'},
                                call(default_cv=True, method='poisson_cv', descriptor='cond2'),
                                call(default_cv=True)],
}
TWIN_FIXED = ['descriptor_changes', 'default_then_explicit', 'methods', 'noise_kinds']
FIXED = [('remove_mean_first', 'c'), ('noise_kinds', 'fortran'), ('noise_changes', 'c'),
         ('default_then_explicit', 'int'), ('explicit_then_default', 'strided'),
         ('descriptor_changes', 'c'), ('methods', 'int'), ('poisson_twice', 'fortran'), ('repeat', 'c'),
         ('sorted_between', 'c'), ('sorted_between2', 'int')]


def _random_steps(rng):
    n = rng.choice([2, 2, 3, 3, 4])
    steps = []
    for k in range(n):
        method = rng.choice(['crossnobis', 'crossnobis', 'crossnobis', 'poisson_cv'])
        st = call(method=method, via=rng.choice(['calc_rdm', 'direct']),
                  descriptor=rng.choice(['cond', 'cond', 'cond2']),
                  default_cv=rng.random() < 0.45)
        if method == 'crossnobis':
            st['remove_mean'] = rng.random() < (0.7 if k == 0 else 0.3)
            st['noise'] = rng.choice([None, None, 'm0', 'm1', 'l0', 'l1'])
            st['noise_container'] = rng.choice(['list', 'list', 'dict', 'array3d'])
        else:
            st['prior_lambda'] = rng.choice([1.0, 0.5, 2.0])
            st['prior_weight'] = rng.choice([0.1, 0.25, 1.0])
        steps.append(st)
    if rng.random() < 0.35:
        steps.insert(rng.randrange(1, len(steps)), {'t': 'sort', 'by': rng.choice(['fold', 'cond', 'cond2'])})
    return steps


def gen_session(rng, labels, spd, nonsym, recipe=None, layout=None, twin=False):
    """`labels(rng, kind, n)`, `spd(rng, p)`, `nonsym(rng, p)`: the single-case generators of C02.py"""
    steps = RECIPES[recipe]() if recipe else _random_steps(rng)
    C = rng.choice([2, 3, 4, 4])
    M = rng.randint(2, 4)
    R = rng.choice([1, 1, 2])
    if twin:
        C = rng.choice([3, 4, 4, 4])
    P = rng.randint(1, 4)
    if any(st['t'] == 'call' and st['noise'] in ('l0', 'l1') and st['default_cv'] for st in steps):
        R = 1                      # one precision per default fold: as many default folds as folds
    ckind, fkind = rng.choice(['int', 'str', 'rat']), rng.choice(['int', 'str', 'rat'])
    ckind2 = rng.choice(['int', 'str', 'rat'])
    conds, folds = labels(rng, ckind, C), labels(rng, fkind, M)
    merge = C == 4 and rng.random() < 0.5
    new = labels(rng, ckind2, 2 if merge else C)
    order_c = sorted(conds)
    ren = {json.dumps(c): new[(k // 2) if merge else k] for k, c in enumerate(rng.sample(order_c, C))}
    pois = any(st['t'] == 'call' and st['method'] == 'poisson_cv' for st in steps)
    layout = layout or rng.choice(['c', 'c', 'int', 'fortran', 'strided'])
    fine = layout != 'int' and rng.random() < 0.5
    rows = []
    for c in conds:
        for f in folds:
            for _ in range(R):
                if pois:
                    v = [F(rng.randint(0, 80), 8) if fine else F(rng.randint(0, 12)) for _ in range(P)]
                else:
                    v = [F(rng.randint(-40, 40), 8) if fine else F(rng.randint(-6, 6)) for _ in range(P)]
                rows.append((c, f, [rat(x) for x in v]))
    rng.shuffle(rows)
    case = {'kind': 'session', 'P': P, 'ckind': ckind, 'ckind2': ckind2, 'fkind': fkind,
            'cond': [r[0] for r in rows], 'cond2': [ren[json.dumps(r[0])] for r in rows],
            'fold': [r[1] for r in rows], 'x': [r[2] for r in rows],
            'cond2_kind': 'merge' if merge else 'rename',
            'layout': layout, 'desc_container': rng.choice(['list', 'list', 'array']),
            'noise_dtype': rng.choice(['float', 'float', 'int']), 'extra': rng.random() < 0.3,
            'noises': {'m0': spd(rng, P), 'm1': nonsym(rng, P) if rng.random() < 0.4 else spd(rng, P),
                       'l0': [spd(rng, P) for _ in range(M)], 'l1': [spd(rng, P) for _ in range(M)]},
            'steps': steps}
    if twin:
        case['twin'] = make_twin(rng, case, labels)
        calls = [st for st in steps if st['t'] == 'call']
        for k, st in enumerate(steps):
            st['ds'] = 0
        # alternate between the objects, the twin never first
        flip = 0
        for st in steps[1:]:
            flip = 1 - flip if rng.random() < 0.8 else flip
            st['ds'] = flip
        if all(st['ds'] == 0 for st in steps):
            steps[-1]['ds'] = 1
    return normalise(case)


def make_twin(rng, case, labels):
    """a second dataset that agrees with the first on everything coarser than the content"""
    n, P = len(case['cond']), case['P']
    conds = sorted(set(case['cond']))
    folds = sorted(set(case['fold']))
    M = len(folds)
    R = n // (len(conds) * M)
    kind = 'merge' if len(conds) == 4 else 'regroup'
    if kind == 'merge':
        # {c0, c1} -> c0, {c2, c3} -> c3: same smallest and largest label, two observations per cell
        ren = {json.dumps(conds[0]): conds[0], json.dumps(conds[1]): conds[0],
               json.dumps(conds[2]): conds[3], json.dumps(conds[3]): conds[3]}
    else:
        perm = conds[:]
        rng.shuffle(perm)
        ren = {json.dumps(c): p for c, p in zip(conds, perm)}
    pois = any(st['t'] == 'call' and st['method'] == 'poisson_cv' for st in case['steps'])
    integer = case['layout'] == 'int'
    rows = []
    for c in conds:
        for f in folds:
            for _ in range(R):
                if pois:
                    v = [F(rng.randint(0, 12)) if integer else F(rng.randint(0, 80), 8) for _ in range(P)]
                else:
                    v = [F(rng.randint(-6, 6)) if integer else F(rng.randint(-40, 40), 8) for _ in range(P)]
                rows.append((ren[json.dumps(c)], f, c, [rat(x) for x in v]))
    for _ in range(20):
        rng.shuffle(rows)
        # keep the first and the last label of every descriptor where the first object has them
        if rows[0][0] == case['cond'][0] and rows[-1][0] == case['cond'][-1]:
            break
    c2 = sorted(set(case['cond2']))
    ren2 = {json.dumps(c): c2[k % len(c2)] for k, c in enumerate(conds)} if len(c2) == len(conds) else \
        {json.dumps(c): c2[k // 2] for k, c in enumerate(conds)}
    return {'kind': kind, 'cond': [r[0] for r in rows], 'cond2': [ren2[json.dumps(r[2])] for r in rows],
            'fold': [r[1] for r in rows], 'x': [r[3] for r in rows],
            'ckind': case['ckind'], 'ckind2': case['ckind2'], 'fkind': case['fkind']}


def normalise(case):
    """make every step admissible for the data: a per-fold precision list needs exactly as many
    folds as it has matrices; poisson_cv has no precision and no centring"""
    M = len(set(map(json.dumps, case['fold'])))
    for st in case['steps']:
        if st['t'] != 'call':
            continue
        if st['method'] == 'poisson_cv':
            st['noise'], st['remove_mean'] = None, False
        if st['noise'] in ('l0', 'l1'):
            if st['default_cv']:
                lab = base(case, st.get('ds', 0))[st['descriptor']]
                if lab.count(lab[0]) != M:
                    st['default_cv'] = False
    return case


# ------------------------------------------------------------------ the content at step i (plain Python)

def base(case, which):
    """the original numbers of dataset object `which` (0 = the case itself, 1 = its twin)"""
    return case if not which else case['twin']


def orders(case, which=0):
    """row order (indices into the original rows) object `which` must have before each step"""
    b = base(case, which)
    cur = list(range(len(b['cond'])))
    out = []
    for st in case['steps']:
        out.append(list(cur))
        if st['t'] == 'sort' and st.get('ds', 0) == which:
            lab = b[st['by']]
            cur = sorted(cur, key=lambda i: lab[i])          # stable, like np.argsort(kind='stable')
    out.append(list(cur))
    return out


def step_case(case, i):
    """call step i as a stand-alone single-call case (fresh lists, original numbers)"""
    st = case['steps'][i]
    assert st['t'] == 'call'
    which = st.get('ds', 0)
    order = orders(case, which)[i]
    case = dict(base(case, which), noises=case['noises'], P=case['P'], steps=case['steps'],
                           desc_container=case.get('desc_container', 'list'),
                           layout=case.get('layout', 'c'), noise_dtype=case.get('noise_dtype', 'float'))
    dname = st['descriptor']
    noise_kind, noise = 'none', None
    if st['noise'] is not None:
        noise_kind = 'matrix' if st['noise'].startswith('m') else 'list'
        noise = json.loads(json.dumps(case['noises'][st['noise']]))
    return {'method': st['method'], 'via': st['via'],
            'ckind': case['ckind'] if dname == 'cond' else case['ckind2'], 'fkind': case['fkind'],
            'cond': [case[dname][k] for k in order],
            'fold': None if st['default_cv'] else [case['fold'][k] for k in order],
            'x': [list(case['x'][k]) for k in order], 'P': case['P'],
            'noise_kind': noise_kind, 'noise': noise, 'remove_mean': bool(st['remove_mean']),
            'prior_lambda': st['prior_lambda'], 'prior_weight': st['prior_weight'],
            'extra': False, 'view': None, 'descriptor': True,
            'noise_container': st.get('noise_container', 'list'),
            'desc_container': case.get('desc_container', 'list'), 'layout': case.get('layout', 'c'),
            'noise_dtype': case.get('noise_dtype', 'float'), 'in_session': True}


# ------------------------------------------------------------------ snapshots

def snap(obj):
    """bit-level, type-aware snapshot of an argument"""
    if isinstance(obj, np.ndarray):
        if obj.dtype == object:
            return ('ndobj', obj.shape, [snap(v) for v in obj.ravel().tolist()])
        return ('nd', obj.dtype.str, obj.shape, obj.strides, obj.tobytes())
    if isinstance(obj, dict):
        return ('dict', [(k, snap(v)) for k, v in obj.items()])
    if isinstance(obj, (list, tuple)):
        return (type(obj).__name__, [snap(v) for v in obj])
    return (type(obj).__name__, repr(obj))


def snap_dataset(ds):
    return {'measurements': snap(ds.measurements), 'measurements_id': id(ds.measurements),
            'descriptors': snap(ds.descriptors), 'obs_descriptors': snap(ds.obs_descriptors),
            'channel_descriptors': snap(ds.channel_descriptors),
            'attrs': sorted(vars(ds).keys())}


def snap_diff(before, after):
    for k in before:
        if before[k] != after.get(k):
            if k == 'attrs':
                return f'dataset attributes {before[k]} -> {after.get(k)}'
            if k == 'measurements_id':
                return 'dataset.measurements was rebound to another array'
            return f'dataset.{k} changed'
    return None


# ------------------------------------------------------------------ running

def run_session(case, measurements, descriptor, noise_array, plain, canon):
    """-> {'steps': [...], 'late': None | text}.  The callbacks are C02.py's builders:
    measurements(case) -> array; descriptor(case, values) -> list | array; noise_array(case, m);
    plain(v); canon(RDMs) -> {'pairs': …} | {'exc': …}"""
    from rsatoolbox.data import Dataset
    from rsatoolbox.rdm import calc as rcalc
    def build(b):
        X = measurements(dict(case, x=b['x']))
        obs = {'cond': descriptor(case, b['cond']), 'cond2': descriptor(case, b['cond2']),
               'fold': descriptor(case, b['fold'])}
        if case.get('extra'):
            obs['family'] = ['g' + str(plain(c)) for c in b['cond']]
        dsc = {'subj': 's1'}
        if case.get('extra'):
            dsc['params'] = [1.5, 2.5, 3.5]
        return Dataset(X, descriptors=dsc, obs_descriptors=obs)

    objs = [build(case)] + ([build(case['twin'])] if case.get('twin') else [])
    pool = {}

    def noise_obj(key, container):
        if key is None:
            return None
        if key.startswith('m'):
            k = (key, 'matrix')
            if k not in pool:
                pool[k] = noise_array(case, case['noises'][key])
            return pool[k]
        k = (key, container)
        if k not in pool:
            ms = [noise_array(case, m) for m in case['noises'][key]]
            pool[k] = dict(enumerate(ms)) if container == 'dict' else \
                np.array(ms) if container == 'array3d' else ms
        return pool[k]

    all_orders = [orders(case, w) for w in range(len(objs))]
    out, kept = [], []
    for i, st in enumerate(case['steps']):
        which = st.get('ds', 0)
        ds = objs[which]
        if st['t'] == 'sort':
            others = [snap_dataset(o) for o in objs]
            try:
                ds.sort_by(st['by'])
                problem = _content_diff(ds, dict(base(case, which), P=case['P']), all_orders[which][i + 1], plain)
            except Exception as exc:  # noqa: BLE001
                problem = 'sort_by raised ' + type(exc).__name__
            for w, o in enumerate(objs):
                if w != which and problem is None and snap_diff(others[w], snap_dataset(o)):
                    problem = 'sort_by changed another dataset object'
            out.append({'t': 'sort', 'ok': problem})
            continue
        noise = noise_obj(st['noise'], st.get('noise_container', 'list'))
        before_ds, before_pool = [snap_dataset(o) for o in objs], {k: snap(v) for k, v in pool.items()}
        cv = None if st['default_cv'] else 'fold'
        r = None
        try:
            if st['method'] == 'crossnobis':
                if st['via'] == 'calc_rdm':
                    r = rcalc.calc_rdm(ds, method='crossnobis', descriptor=st['descriptor'], noise=noise,
                                       cv_descriptor=cv, remove_mean=st['remove_mean'])
                else:
                    r = rcalc.calc_rdm_crossnobis(ds, st['descriptor'], noise=noise, cv_descriptor=cv,
                                                  remove_mean=st['remove_mean'])
            else:
                if st['via'] == 'calc_rdm':
                    r = rcalc.calc_rdm(ds, method='poisson_cv', descriptor=st['descriptor'], cv_descriptor=cv,
                                       prior_lambda=st['prior_lambda'], prior_weight=st['prior_weight'],
                                       remove_mean=st['remove_mean'])
                else:
                    r = rcalc.calc_rdm_poisson_cv(ds, st['descriptor'], prior_lambda=st['prior_lambda'],
                                                  prior_weight=st['prior_weight'], cv_descriptor=cv)
            res = canon(r, st['descriptor'])
        except Exception as exc:      # noqa: BLE001  any library exception is a result
            name = type(exc).__name__
            res = {'exc': name if name in ('ValueError', 'TypeError', 'AssertionError') else 'other'}
        mutated = None
        for w, o in enumerate(objs):
            d = snap_diff(before_ds[w], snap_dataset(o))
            if d and mutated is None:
                mutated = d if w == which else 'the OTHER dataset object: ' + d
        if mutated is None:
            for k, v in pool.items():
                if k in before_pool and before_pool[k] != snap(v):
                    mutated = f'precision argument {k[0]} ({k[1]}) changed'
                    break
        out.append({'t': 'call', 'res': res, 'mutated': mutated})
        kept.append((len(out) - 1, r, st['descriptor']))
    late = None
    for pos, r, dname in kept:
        if r is None:
            continue
        try:
            again = canon(r, dname)
        except Exception as exc:  # noqa: BLE001
            again = {'exc': 'other'}
        if again != out[pos]['res']:
            late = f'the RDM returned by step {pos + 1} changed after later calls'
            out[pos]['late'] = again
            break
    return {'steps': out, 'late': late}


def _content_diff(ds, case, order, plain):
    """after ds.sort_by: the object must hold the original rows in the stably sorted order"""
    want_x = [[float(unrat(v)) for v in case['x'][k]] for k in order]
    got = np.asarray(ds.measurements, dtype=float)
    if got.shape != (len(order), case['P']) or got.tolist() != want_x:
        return 'measurements are not the original rows in sorted order'
    for name in ('cond', 'cond2', 'fold'):
        got_l = [plain(v) for v in ds.obs_descriptors[name]]
        if got_l != [case[name][k] for k in order]:
            return f'obs descriptor {name} is not in sorted order with its rows'
    return None


# ------------------------------------------------------------------ coverage tags

def branches(case):
    steps = case['steps']
    cs = [st for st in steps if st['t'] == 'call']
    br = ['session', 'session:steps_%d' % min(len(cs), 4), 'session:layout_' + case.get('layout', 'c')]
    if case.get('desc_container') == 'array':
        br.append('session:desc_array')
    if case.get('cond2_kind') == 'merge':
        br.append('session:cond2_merge')
    for st in cs:
        br.append('session:step_' + st['method'])
        br.append('session:via_' + st['via'])
        if st['method'] == 'crossnobis':
            br.append('session:step_noise_' + ('none' if st['noise'] is None else
                                               'matrix' if st['noise'].startswith('m') else 'list'))
    if cs and cs[0]['method'] == 'crossnobis' and cs[0]['remove_mean'] and \
            any(st['method'] == 'crossnobis' and not st['remove_mean'] for st in cs[1:]):
        br.append('session:remove_mean_first')
    keys = [st['noise'] for st in cs if st['noise'] is not None]
    if len(keys) != len(set(keys)):
        br.append('session:noise_object_reused')
    for kind in 'ml':
        if len({k for k in keys if k.startswith(kind)}) > 1:
            br.append('session:noise_object_changes')
    kinds = [None if st['noise'] is None else st['noise'][0] for st in cs if st['method'] == 'crossnobis']
    if len(set(kinds)) > 1:
        br.append('session:noise_kind_changes')
    for a, b in zip(cs, cs[1:]):
        if a['default_cv'] and not b['default_cv']:
            br.append('session:default_then_explicit')
        if not a['default_cv'] and b['default_cv']:
            br.append('session:explicit_then_default')
        if a['descriptor'] != b['descriptor']:
            br.append('session:descriptor_changes')
        if a['method'] != b['method']:
            br.append('session:method_changes')
        if a == b:
            br.append('session:same_call_twice')
    if case.get('twin'):
        br.append('session:two_objects')
        br.append('session:twin_' + case['twin']['kind'])
        for a, b in zip(cs, cs[1:]):
            if a.get('ds', 0) != b.get('ds', 0) and a['descriptor'] == b['descriptor']:
                br.append('session:same_descriptor_name_other_object')
    seen_sort = False
    for st in steps:
        if st['t'] == 'sort':
            seen_sort = True
            br.append('session:sort_step')
        elif seen_sort and st['default_cv']:
            br.append('session:default_after_sort')
    return sorted(set(br))


REQUIRED = ['session', 'session:steps_2', 'session:steps_3', 'session:steps_4',
            'session:layout_c', 'session:layout_int', 'session:layout_fortran', 'session:layout_strided',
            'session:step_crossnobis', 'session:step_poisson_cv', 'session:via_calc_rdm', 'session:via_direct',
            'session:step_noise_none', 'session:step_noise_matrix', 'session:step_noise_list',
            'session:remove_mean_first', 'session:noise_object_reused', 'session:noise_object_changes',
            'session:noise_kind_changes', 'session:default_then_explicit', 'session:explicit_then_default',
            'session:descriptor_changes', 'session:method_changes', 'session:same_call_twice',
            'session:sort_step', 'session:default_after_sort', 'session:two_objects', 'session:twin_merge',
            'session:twin_regroup', 'session:same_descriptor_name_other_object']


# ------------------------------------------------------------------ shrinking

def _clone(c):
    return json.loads(json.dumps(c))


def _drop_rows(case, keep):
    c = _clone(case)
    idx = [i for i in range(len(case['cond'])) if keep(i)]
    for k in ('cond', 'cond2', 'fold', 'x'):
        c[k] = [case[k][i] for i in idx]
    return c


def shrink(case, still_fails):
    """shortest failing call sequence first (sub-sequences in order of length), then a smaller
    dataset (conditions, folds, channels), then plainer options"""
    cur = _clone(case)
    n = len(cur['steps'])
    if n > 1:
        import itertools
        done = False
        for size in range(1, n):
            for keep in itertools.combinations(range(n), size):
                c = _clone(cur)
                c['steps'] = [cur['steps'][i] for i in keep]
                if not any(st['t'] == 'call' for st in c['steps']):
                    continue
                if still_fails(c):
                    cur, done = c, True
                    break
            if done:
                break
    for _ in range(40):
        for cand in _candidates(cur):
            if still_fails(cand):
                cur = cand
                break
        else:
            break
    return cur


def _candidates(case):
    if case.get('twin'):
        used = {st.get('ds', 0) for st in case['steps']}
        if used == {0}:
            c = _clone(case)
            del c['twin']
            yield c
        elif used == {1}:
            c = _clone(case)
            c.update(c.pop('twin'))
            c.pop('kind', None)
            c['kind'] = 'session'
            for st in c['steps']:
                st['ds'] = 0
            yield normalise(c)
        if case['P'] > 1:
            c = _clone(case)
            c['P'] = case['P'] - 1
            c['x'] = [row[:-1] for row in case['x']]
            c['twin']['x'] = [row[:-1] for row in case['twin']['x']]
            for key in ('m0', 'm1'):
                c['noises'][key] = [row[:-1] for row in case['noises'][key][:-1]]
            for key in ('l0', 'l1'):
                c['noises'][key] = [[row[:-1] for row in m[:-1]] for m in case['noises'][key]]
            yield c
        for i, st in enumerate(case['steps']):
            if st['t'] != 'call':
                continue
            for key, val in (('via', 'direct'), ('remove_mean', False), ('noise', None),
                             ('default_cv', False), ('noise_container', 'list')):
                if st.get(key) != val:
                    c = _clone(case)
                    c['steps'][i][key] = val
                    yield normalise(c)
        return
    conds = sorted(set(map(json.dumps, case['cond'])))
    if len(conds) > 2:
        for d in conds:
            c = _drop_rows(case, lambda i, d=d: json.dumps(case['cond'][i]) != d)
            if len(set(map(json.dumps, c['cond2']))) >= 2:
                yield c
    folds = sorted(set(case['fold']))
    if len(folds) > 2:
        for k, d in enumerate(folds):
            c = _drop_rows(case, lambda i, d=d: case['fold'][i] != d)
            for key in ('l0', 'l1'):
                c['noises'][key] = [m for j, m in enumerate(case['noises'][key]) if j != k]
            yield normalise(c)
    if case['P'] > 1:
        c = _clone(case)
        c['P'] = case['P'] - 1
        c['x'] = [row[:-1] for row in case['x']]
        for key in ('m0', 'm1'):
            c['noises'][key] = [row[:-1] for row in case['noises'][key][:-1]]
        for key in ('l0', 'l1'):
            c['noises'][key] = [[row[:-1] for row in m[:-1]] for m in case['noises'][key]]
        yield c
    for key, val in (('layout', 'c'), ('desc_container', 'list'), ('extra', False), ('noise_dtype', 'float')):
        if case.get(key) != val:
            c = _clone(case)
            c[key] = val
            yield c
    for i, st in enumerate(case['steps']):
        if st['t'] != 'call':
            continue
        for key, val in (('via', 'direct'), ('remove_mean', False), ('noise', None), ('descriptor', 'cond'),
                         ('default_cv', False), ('noise_container', 'list')):
            if st.get(key) != val:
                c = _clone(case)
                c['steps'][i][key] = val
                yield normalise(c)
    if any(not isinstance(v, int) for row in case['x'] for v in row):
        c = _clone(case)
        c['x'] = [[int(round(float(unrat(v)))) for v in row] for row in case['x']]
        yield c
