LEAVES = [
    # calc_rdm_poisson:  measurements = (measurements + prior_lambda * prior_weight) / (1 + prior_weight)
    dict(name='poissonPrior', file='rdm/calc.py', func='calc_rdm_poisson', kind='assign',
         target='measurements', nth=0,
         params={'measurements': 'A', 'prior_lambda': 'A', 'prior_weight': 'A'}, ret='A'),
]
