"""leaf specs of C01: scalar arithmetic of rdm/calc.py, rdm/combine.py regenerated every run"""
_TRIU = {'_extract_triu_(rdm)': 'triu'}

LEAVES = [
    # calc_rdm_poisson:  measurements = (measurements + prior_lambda * prior_weight) / (1 + prior_weight)
    dict(name='poissonPrior', file='rdm/calc.py', func='calc_rdm_poisson', kind='assign',
         target='measurements', nth=0,
         params={'measurements': 'A', 'prior_lambda': 'A', 'prior_weight': 'A'}, ret='A'),
    # calc_rdm_euclidean:  rdm = sum_sq + sum_sq.T - 2 * np.dot(measurements, measurements.T)
    dict(name='euclidEntry', file='rdm/calc.py', func='calc_rdm_euclidean', kind='assign',
         target='rdm', nth=0,
         opaque={'np.dot(measurements, measurements.T)': 'gram'},
         params={'sum_sq_measurements': 'A', 'sum_sq_measurements_T': 'A', 'gram': 'A'}, ret='A'),
    # calc_rdm_euclidean:  rdm = _extract_triu_(rdm) / measurements.shape[1]
    dict(name='euclidNorm', file='rdm/calc.py', func='calc_rdm_euclidean', kind='assign',
         target='rdm', nth=1, opaque=_TRIU,
         params={'triu': 'A', 'measurements_shape_1': 'Nat'}, ret='A'),
    # calc_rdm_mahalanobis:  rdm = expand_dims(diag(kernel), 0) + expand_dims(diag(kernel), 1) - 2 * kernel
    dict(name='mahalEntry', file='rdm/calc.py', func='calc_rdm_mahalanobis', kind='assign',
         target='rdm', nth=0,
         opaque={'np.expand_dims(np.diag(kernel), 0)': 'diag_col',
                 'np.expand_dims(np.diag(kernel), 1)': 'diag_row'},
         params={'diag_col': 'A', 'diag_row': 'A', 'kernel': 'A'}, ret='A'),
    dict(name='mahalNorm', file='rdm/calc.py', func='calc_rdm_mahalanobis', kind='assign',
         target='rdm', nth=1, opaque=_TRIU,
         params={'triu': 'A', 'measurements_shape_1': 'Nat'}, ret='A'),
    # calc_rdm_poisson:  rdm = expand_dims(diag, 0) + expand_dims(diag, 1) - kernel - kernel.T
    dict(name='poissonEntry', file='rdm/calc.py', func='calc_rdm_poisson', kind='assign',
         target='rdm', nth=0,
         opaque={'np.expand_dims(np.diag(kernel), 0)': 'diag_col',
                 'np.expand_dims(np.diag(kernel), 1)': 'diag_row'},
         params={'diag_col': 'A', 'diag_row': 'A', 'kernel': 'A', 'kernel_T': 'A'}, ret='A'),
    dict(name='poissonNorm', file='rdm/calc.py', func='calc_rdm_poisson', kind='assign',
         target='rdm', nth=1, opaque=_TRIU,
         params={'triu': 'A', 'measurements_shape_1': 'Nat'}, ret='A'),
    # calc_rdm_correlation:  rdm = 1 - np.einsum('ik,jk', ma, ma)
    dict(name='corrEntry', file='rdm/calc.py', func='calc_rdm_correlation', kind='assign',
         target='rdm', nth=0, opaque={"np.einsum('ik,jk', ma, ma)": 'gram'},
         params={'gram': 'A'}, ret='A'),
    # _parse_input:  measurements = measurements - measurements.mean(axis=1, keepdims=True)
    dict(name='removeMean', file='rdm/calc.py', func='_parse_input', kind='assign',
         target='measurements', nth=1,
         opaque={'measurements.mean(axis=1, keepdims=True)': 'row_mean'},
         params={'measurements': 'A', 'row_mean': 'A'}, ret='A'),
    # from_partials:  vector_len = int(n_patterns * (n_patterns-1) / 2)
    dict(name='vectorLen', file='rdm/combine.py', func='from_partials', kind='assign',
         target='vector_len', nth=0, params={'n_patterns': 'Nat'}, ret='Nat'),
]


# ======================================================================================
# Round 3: derived leaves — dispatch conditions, option forwarding, defaults, descriptor
# rules.  These are *structural* facts of calc.py / build_rdm.py / computations.py (which
# estimator a method name reaches, which options are forwarded where, which index picks the
# per-dataset noise, how the movie's time descriptor is formed ...).  They are outside
# py2lean's scalar subset, so this module first derives, from the current source text
# (Python `ast`), a tiny Python function per fact into `harness/leaves/_C01_derived.py`;
# py2lean then translates those functions as usual.  Nothing is cached.  Every derivation
# fails closed: an unexpected shape of the anchor yields a call of `__underivable__`,
# which py2lean reports as an untranslatable leaf (= broken obligation).
#
# Codes: method names / estimators  euclidean 0, correlation 1, mahalanobis 2, poisson 3
# (anything else 9); flags are 0 / 1.
# ======================================================================================
import ast
import os
import re

SRC = os.environ.get('RSA_REPO_SRC', '/repo/src/rsatoolbox')
HERE = os.path.dirname(os.path.abspath(__file__))
DERIVED = os.path.join(HERE, '_C01_derived.py')

METHODS = {'euclidean': 0, 'correlation': 1, 'mahalanobis': 2, 'poisson': 3}
ESTIMATORS = {'calc_rdm_euclidean': 0, 'calc_rdm_correlation': 1, 'calc_rdm_mahalanobis': 2,
              'calc_rdm_poisson': 3}


class Underivable(Exception):
    pass


_TREES = {}


def _tree(path):
    if path not in _TREES:
        _TREES[path] = ast.parse(open(os.path.join(SRC, path)).read())
    return _TREES[path]


def _func(path, name):
    for node in ast.walk(_tree(path)):
        if isinstance(node, ast.FunctionDef) and node.name == name:
            return node
    raise Underivable(f'{path}: function {name} not found')


def _bind(call, fn):
    """actual argument expression of every formal parameter of `fn` at `call` (None = not passed)"""
    formals = [a.arg for a in fn.args.args]
    got = {f: None for f in formals}
    if any(isinstance(a, ast.Starred) for a in call.args) or any(k.arg is None for k in call.keywords):
        raise Underivable(f'star arguments in `{ast.unparse(call)}`')
    for f, a in zip(formals, call.args):
        got[f] = a
    for k in call.keywords:
        if k.arg not in got:
            raise Underivable(f'unknown keyword {k.arg} in `{ast.unparse(call)}`')
        got[k.arg] = k.value
    return got


def _default(fn, name):
    formals = [a.arg for a in fn.args.args]
    defaults = fn.args.defaults
    i = formals.index(name) - (len(formals) - len(defaults))
    return defaults[i] if i >= 0 else None


def _is_name(e, name):
    return isinstance(e, ast.Name) and e.id == name


def _top_split(fn, what):
    """the `if isinstance(dataset, Iterable): A else: B` at the top level of calc_rdm / calc_rdm_movie"""
    ifs = [n for n in fn.body if isinstance(n, ast.If)
           and ast.unparse(n.test) == 'isinstance(dataset, Iterable)']
    if len(ifs) != 1 or not ifs[0].orelse:
        raise Underivable(f'{fn.name}: top-level `isinstance(dataset, Iterable)` split not found')
    return ifs[0].body if what == 'list' else ifs[0].orelse


def _method_chain():
    """[(method name, call node)] of the `if method == '...': rdm = calc_rdm_x(...)` chain"""
    body = _top_split(_func('rdm/calc.py', 'calc_rdm'), 'single')
    chain = [n for n in body if isinstance(n, ast.If)]
    if not chain or not isinstance(body[0], ast.If):
        raise Underivable('calc_rdm: method dispatch chain not found')
    node, out = body[0], []
    while True:
        t = node.test
        if not (isinstance(t, ast.Compare) and len(t.ops) == 1 and isinstance(t.ops[0], ast.Eq)
                and _is_name(t.left, 'method') and isinstance(t.comparators[0], ast.Constant)
                and isinstance(t.comparators[0].value, str)):
            raise Underivable(f'calc_rdm: dispatch test `{ast.unparse(t)}` is not `method == "<name>"`')
        if not (len(node.body) == 1 and isinstance(node.body[0], ast.Assign)
                and _is_name(node.body[0].targets[0], 'rdm')
                and isinstance(node.body[0].value, ast.Call)
                and isinstance(node.body[0].value.func, ast.Name)):
            raise Underivable(f'calc_rdm: branch of {ast.unparse(t)} is not `rdm = f(...)`')
        out.append((t.comparators[0].value, node.body[0].value))
        if len(node.orelse) == 1 and isinstance(node.orelse[0], ast.If):
            node = node.orelse[0]
        else:
            break
    return out


def _branch(name):
    hits = [c for n, c in _method_chain() if n == name]
    if len(hits) != 1:
        raise Underivable(f'calc_rdm: {len(hits)} dispatch branches for {name!r}')
    return hits[0]


def _chain_fn(per_method, params, other='0'):
    """python source of an if/elif chain over the four method codes"""
    lines = []
    for k, (name, code) in enumerate(METHODS.items()):
        lines.append(f"    {'if' if k == 0 else 'elif'} method == {code}:")
        lines.append(f'        return {per_method(name)}')
    lines.append('    else:')
    lines.append(f'        return {other}')
    return lines


def _parse_input_flag(est_fn):
    """what the estimator hands to `_parse_input` as remove_mean: 'param' | '0' | '1'"""
    calls = [n for n in ast.walk(est_fn) if isinstance(n, ast.Call)
             and isinstance(n.func, ast.Name) and n.func.id == '_parse_input']
    if len(calls) != 1:
        raise Underivable(f'{est_fn.name}: expected one _parse_input call, found {len(calls)}')
    got = _bind(calls[0], _func('rdm/calc.py', '_parse_input'))
    if not (_is_name(got['dataset'], 'dataset') and _is_name(got['descriptor'], 'descriptor')):
        raise Underivable(f'{est_fn.name}: _parse_input is not called on (dataset, descriptor)')
    e = got['remove_mean']
    if e is None:
        d = _default(_func('rdm/calc.py', '_parse_input'), 'remove_mean')
        e = d
    if _is_name(e, 'remove_mean'):
        return 'param'
    if isinstance(e, ast.Constant) and isinstance(e.value, bool):
        return '1' if e.value else '0'
    raise Underivable(f'{est_fn.name}: remove_mean argument `{ast.unparse(e)}` of _parse_input')


def _d_dispatch():
    def per(name):
        call = _branch(name)
        return str(ESTIMATORS.get(call.func.id, 9))
    return _chain_fn(per, ['method'], other='9')


def _d_parse_flag():
    def per(name):
        call = _branch(name)
        est = _func('rdm/calc.py', call.func.id)
        got = _bind(call, est)
        if not (_is_name(got.get('dataset'), 'dataset') and _is_name(got.get('descriptor'), 'descriptor')):
            raise Underivable(f'{name}: estimator is not called on (dataset, descriptor)')
        inner = _parse_input_flag(est)
        if inner != 'param':
            return inner
        e = got.get('remove_mean')
        if e is None:
            e = _default(est, 'remove_mean')
        if _is_name(e, 'remove_mean'):
            return 'remove_mean'
        if isinstance(e, ast.Constant) and isinstance(e.value, bool):
            return '1' if e.value else '0'
        raise Underivable(f'{name}: remove_mean argument `{ast.unparse(e)}`')
    return _chain_fn(per, ['method', 'remove_mean'])


def _d_fwd(option_names):
    def per(name):
        call = _branch(name)
        est = _func('rdm/calc.py', call.func.id)
        got = _bind(call, est)
        return '1' if all(o in got and _is_name(got[o], o) for o in option_names) else '0'
    return lambda: _chain_fn(per, ['method'])


def _d_mahal_none():
    fn = _func('rdm/calc.py', 'calc_rdm_mahalanobis')
    first = [n for n in fn.body if isinstance(n, ast.If)]
    if not first or ast.unparse(first[0].test) != 'noise is None' or len(first[0].body) != 1 \
            or not isinstance(first[0].body[0], ast.Return) \
            or not isinstance(first[0].body[0].value, ast.Call):
        raise Underivable('calc_rdm_mahalanobis: `if noise is None: return f(...)` not found')
    call = first[0].body[0].value
    if not isinstance(call.func, ast.Name) or call.func.id != 'calc_rdm_euclidean':
        raise Underivable('calc_rdm_mahalanobis: noise=None does not fall back to calc_rdm_euclidean')
    got = _bind(call, _func('rdm/calc.py', 'calc_rdm_euclidean'))
    if not (_is_name(got['dataset'], 'dataset') and _is_name(got['descriptor'], 'descriptor')):
        raise Underivable('calc_rdm_mahalanobis: fallback is not called on (dataset, descriptor)')
    e = got['remove_mean'] or _default(_func('rdm/calc.py', 'calc_rdm_euclidean'), 'remove_mean')
    if _is_name(e, 'remove_mean'):
        return ['    return remove_mean']
    if isinstance(e, ast.Constant) and isinstance(e.value, bool):
        return [f'    return {int(e.value)}']
    raise Underivable(f'fallback remove_mean `{ast.unparse(e)}`')


def _d_default(fname, pname):
    def go():
        d = _default(_func('rdm/calc.py', fname), pname)
        if not (isinstance(d, ast.Constant) and isinstance(d.value, (int, float))
                and not isinstance(d.value, bool)):
            raise Underivable(f'{fname}: default of {pname} is not a number')
        return [f'    return {d.value!r}']
    return go


def _rec_calls(body, fname):
    calls = []
    for stmt in body:
        for n in ast.walk(stmt):
            if isinstance(n, ast.Call) and isinstance(n.func, ast.Name) and n.func.id == fname:
                calls.append(n)
    if not calls:
        raise Underivable(f'{fname}: no recursive call in the list branch')
    return calls


def _d_list_fwd(fname, option, default_from=None):
    """value the per-dataset call of the list branch receives for `option`"""
    def go():
        fn = _func('rdm/calc.py', fname)
        calls = _rec_calls(_top_split(fn, 'list'), fname)
        vals = set()
        for c in calls:
            got = _bind(c, fn)
            e = got.get(option)
            if e is None:
                e = _default(fn, option)
            vals.add(ast.unparse(e))
        if len(vals) != 1:
            raise Underivable(f'{fname}: list branch passes {option} inconsistently: {sorted(vals)}')
        v = vals.pop()
        if v == option:
            return [f'    return {option}']
        if v in ('None', 'False'):
            return ['    return 0']
        if v == 'True':
            return ['    return 1']
        try:
            float(v)
        except ValueError:
            raise Underivable(f'{fname}: list branch passes {option}={v}') from None
        return [f'    return {v}']
    return go


def _d_noise_index(fname):
    """index into a per-dataset noise list used for dataset i_dat (list branch)"""
    def go():
        fn = _func('rdm/calc.py', fname)
        body = _top_split(fn, 'list')
        loops = [n for n in body if isinstance(n, ast.For)]
        if len(loops) != 1 or ast.unparse(loops[0].iter) != 'enumerate(dataset)' \
                or ast.unparse(loops[0].target) != '(i_dat, ds_i)':
            raise Underivable(f'{fname}: `for i_dat, ds_i in enumerate(dataset)` not found')
        subs = [n for n in ast.walk(loops[0]) if isinstance(n, ast.Subscript)
                and _is_name(n.value, 'noise')]
        if len(subs) != 1:
            raise Underivable(f'{fname}: expected one `noise[...]`, found {len(subs)}')
        idx = subs[0].slice
        if _is_name(idx, 'i_dat'):
            r = 'i_dat'
        elif isinstance(idx, ast.Constant) and isinstance(idx.value, int) and idx.value >= 0:
            r = str(idx.value)
        else:
            r = ast.unparse(idx)
        # every per-dataset call must be on ds_i
        for c in _rec_calls(loops[0].body, fname):
            got = _bind(c, fn)
            if not _is_name(got['dataset'], 'ds_i'):
                raise Underivable(f'{fname}: per-dataset call is not on ds_i')
        return [f'    return {r}']
    return go


def _movie_single():
    return _top_split(_func('rdm/calc.py', 'calc_rdm_movie'), 'single')


def _movie_bins_if():
    body = _movie_single()
    ifs = [n for n in body if isinstance(n, ast.If) and ast.unparse(n.test) == 'bins is not None']
    if len(ifs) != 1 or not ifs[0].orelse:
        raise Underivable('calc_rdm_movie: `if bins is not None: ... else: ...` not found')
    return ifs[0]


def _assigned(stmts, target):
    hits = [s for s in stmts if isinstance(s, ast.Assign) and len(s.targets) == 1
            and ast.unparse(s.targets[0]) == target]
    if len(hits) != 1:
        raise Underivable(f'calc_rdm_movie: expected one assignment to {target}')
    return ast.unparse(hits[0].value)


def _d_movie_source(target, binned_text, raw_text):
    def go():
        node = _movie_bins_if()
        b = _assigned(node.body, target)
        r = _assigned(node.orelse, target)
        if _assigned(node.body, 'binned_data') != 'dataset.bin_time(time_descriptor, bins)':
            raise Underivable('calc_rdm_movie: binned_data is not dataset.bin_time(time_descriptor, bins)')

        def code(text):
            if text == binned_text:
                return 1
            if text == raw_text:
                return 0
            raise Underivable(f'calc_rdm_movie: {target} = {text}')
        return ['    if binned == 1:', f'        return {code(b)}', '    else:',
                f'        return {code(r)}']
    return go


def _d_movie_time_rule():
    body = _movie_single()
    hits = [s for s in body if isinstance(s, ast.Assign) and len(s.targets) == 1
            and ast.unparse(s.targets[0]) == 'rdm.rdm_descriptors[time_descriptor]']
    if len(hits) != 1:
        raise Underivable('calc_rdm_movie: assignment to rdm.rdm_descriptors[time_descriptor] not found')
    v = ast.unparse(hits[0].value)
    if v == 'get_unique_unsorted(time)':
        return ['    return 1']
    if v == 'time':
        return ['    return 0']
    raise Underivable(f'calc_rdm_movie: time descriptor of the stack = {v}')


def _d_movie_frame_fwd(option):
    """what calc_rdm receives for `option` from calc_rdm_movie (per frame)"""
    def go():
        body = _movie_single()
        calls = _rec_calls(body, 'calc_rdm')
        fn = _func('rdm/calc.py', 'calc_rdm')
        if len(calls) != 1:
            raise Underivable(f'calc_rdm_movie: {len(calls)} calc_rdm calls')
        got = _bind(calls[0], fn)
        if not _is_name(got['dataset'], 'dat_single'):
            raise Underivable('calc_rdm_movie: calc_rdm is not called on dat_single')
        e = got.get(option) or _default(fn, option)
        v = ast.unparse(e)
        if v == option:
            return [f'    return {option}']
        if v in ('None', 'False'):
            return ['    return 0']
        float(v)
        return [f'    return {v}']
    return go


def _d_wrap_vector():
    fn = _func('util/build_rdm.py', '_build_rdms')
    ifs = [n for n in ast.walk(fn) if isinstance(n, ast.If) and len(n.body) == 1
           and ast.unparse(n.body[0]) == 'value = [value]']
    if len(ifs) != 1:
        raise Underivable('_build_rdms: `value = [value]` block not found')
    t = ast.unparse(ifs[0].test)
    subs = {'isinstance(value, (list, tuple, np.ndarray))': 'is_seq == 1',
            'np.ndim(value)': 'ndim', 'len(value)': 'len_value'}
    for a, b in subs.items():
        if a not in t:
            raise Underivable(f'_build_rdms: `{a}` not in the wrap condition `{t}`')
        t = t.replace(a, b)
    return [f'    if {t}:', '        return 1', '    else:', '        return 0']


def _d_averaging():
    fn = _func('util/build_rdm.py', '_averaging_occurred')
    rets = [n for n in fn.body if isinstance(n, ast.Return)]
    if len(rets) != 1:
        raise Underivable('_averaging_occurred: final return not found')
    t = ast.unparse(rets[0].value)
    for a, b in {'len(obs_desc_vals)': 'n_unique', 'len(orig_obs_desc_vals)': 'n_obs'}.items():
        if a not in t:
            raise Underivable(f'_averaging_occurred: `{a}` not in `{t}`')
        t = t.replace(a, b)
    src = ast.unparse(fn)
    if 'orig_obs_desc_vals = ds.obs_descriptors[obs_desc_name]' not in src:
        raise Underivable('_averaging_occurred: orig_obs_desc_vals is not the dataset descriptor')
    return [f'    if {t}:', '        return 1', '    else:', '        return 0']


def _d_mean_buffer():
    fn = _func('data/computations.py', 'average_dataset_by')
    hits = [n for n in fn.body if isinstance(n, ast.Assign) and ast.unparse(n.targets[0]) == 'average']
    if len(hits) != 1:
        raise Underivable('average_dataset_by: allocation of `average` not found')
    e = hits[0].value
    if isinstance(e, ast.BinOp) and isinstance(e.op, ast.Mult) and ast.unparse(e.left) == 'np.nan':
        e = e.right
    if not (isinstance(e, ast.Call) and ast.unparse(e.func) in ('np.empty', 'np.zeros', 'np.full')):
        raise Underivable(f'average_dataset_by: allocation `{ast.unparse(hits[0].value)}`')
    dt = [k.value for k in e.keywords if k.arg == 'dtype']
    if not dt:
        return ['    return 1']
    if ast.unparse(dt[0]) in ('float', 'np.float64', "'float64'", 'np.double'):
        return ['    return 1']
    return ['    return 0']     # buffer in some other (e.g. the data's) dtype


# ---- round 4: memory effects (which array a call writes to) --------------------------------
_COPYING = ('dataset.measurements.copy()', 'np.array(dataset.measurements)',
            'np.array(dataset.measurements, dtype=float)', 'np.copy(dataset.measurements)',
            'deepcopy(dataset.measurements)', 'copy.deepcopy(dataset.measurements)')


def _parse_input_ifs():
    fn = _func('rdm/calc.py', '_parse_input')
    none_if = [n for n in fn.body if isinstance(n, ast.If)
               and ast.unparse(n.test) == 'descriptor is None']
    rm_if = [n for n in fn.body if isinstance(n, ast.If) and ast.unparse(n.test) == 'remove_mean']
    if len(none_if) != 1 or not none_if[0].orelse or len(rm_if) != 1 or rm_if[0].orelse:
        raise Underivable('_parse_input: `if descriptor is None: .. else: ..` / `if remove_mean:` not found')
    if fn.body.index(none_if[0]) > fn.body.index(rm_if[0]):
        raise Underivable('_parse_input: centring precedes the choice of the working array')
    rets = [n for n in fn.body if isinstance(n, ast.Return)]
    if len(rets) != 1 or ast.unparse(rets[0].value) != '(measurements, desc)':
        raise Underivable('_parse_input: does not return (measurements, desc)')
    return none_if[0], rm_if[0]


def _d_parse_shares():
    """1 = the working array `_parse_input` returns may be the dataset's own array"""
    none_if, _ = _parse_input_ifs()

    def working(stmts):
        hits = [s for s in stmts if isinstance(s, ast.Assign) and len(s.targets) == 1
                and 'measurements' in [n.id for n in ast.walk(s.targets[0]) if isinstance(n, ast.Name)]]
        if len(hits) != 1 or any(isinstance(s, (ast.AugAssign, ast.For, ast.While)) for s in stmts):
            raise Underivable('_parse_input: working array is not assigned exactly once per branch')
        return hits[0]
    a = working(none_if.body)
    if not _is_name(a.targets[0], 'measurements'):
        raise Underivable('_parse_input: descriptor=None branch does not assign `measurements`')
    v = ast.unparse(a.value)
    no_desc = 0 if v in _COPYING else 1      # anything else built from the dataset may share memory
    b = working(none_if.orelse)
    vb = ast.unparse(b)
    if vb != 'measurements, desc, _ = average_dataset_by(dataset, descriptor)':
        raise Underivable(f'_parse_input: descriptor branch is `{vb}`')
    # average_dataset_by returns the buffer it allocates itself (see leaf mean_buffer_float)
    avg = _func('data/computations.py', 'average_dataset_by')
    rets = [n for n in avg.body if isinstance(n, ast.Return)]
    if len(rets) != 1 or not ast.unparse(rets[0].value).startswith('(average,'):
        raise Underivable('average_dataset_by: does not return its own buffer `average`')
    _d_mean_buffer()
    return ['    if has_desc == 1:', '        return 0', '    else:', f'        return {no_desc}']


def _d_centre_in_place():
    """1 = the centring statement of `_parse_input` writes into the working array"""
    _, rm_if = _parse_input_ifs()
    if len(rm_if.body) != 1:
        raise Underivable('_parse_input: `if remove_mean:` has more than one statement')
    st = rm_if.body[0]
    if isinstance(st, ast.Assign) and len(st.targets) == 1 and _is_name(st.targets[0], 'measurements') \
            and isinstance(st.value, ast.BinOp) and 'out=' not in ast.unparse(st.value):
        return ['    return 0']       # `measurements = measurements - ...` binds a new array
    if isinstance(st, ast.AugAssign) or 'out=' in ast.unparse(st) \
            or (isinstance(st, ast.Assign) and isinstance(st.targets[0], ast.Subscript)):
        return ['    return 1']
    raise Underivable(f'_parse_input: centring statement `{ast.unparse(st)}`')


def _writes_to(fn, var):
    """does `fn` write into the array first bound to `var` (before `var` is rebound)?"""
    def stores(node):
        for n in ast.walk(node):
            if isinstance(n, ast.AugAssign) and var in [m.id for m in ast.walk(n.target)
                                                        if isinstance(m, ast.Name)]:
                return True
            if isinstance(n, (ast.Assign, ast.AnnAssign)):
                tg = n.targets if isinstance(n, ast.Assign) else [n.target]
                for t in tg:
                    if isinstance(t, (ast.Subscript, ast.Attribute)) and \
                            var in [m.id for m in ast.walk(t) if isinstance(m, ast.Name)]:
                        return True
            if isinstance(n, ast.Call):
                for k in n.keywords:
                    if k.arg == 'out' and var in [m.id for m in ast.walk(k.value)
                                                  if isinstance(m, ast.Name)]:
                        return True
                if isinstance(n.func, ast.Attribute) and _is_name(n.func.value, var) and \
                        n.func.attr in ('sort', 'fill', 'put', 'itemset', 'resize', 'partition',
                                        'setfield', 'byteswap'):
                    return True
        return False
    seen = False
    for st in fn.body:
        if not seen:
            if isinstance(st, ast.Assign) and isinstance(st.value, ast.Call) \
                    and isinstance(st.value.func, ast.Name) and st.value.func.id == '_parse_input':
                t = st.targets[0]
                if not (isinstance(t, ast.Tuple) and _is_name(t.elts[0], var)):
                    raise Underivable(f'{fn.name}: result of _parse_input is not unpacked into {var}')
                seen = True
            continue
        if stores(st):
            return True
        if isinstance(st, ast.Assign) and any(_is_name(t, var) for t in st.targets):
            return False        # rebound to a new array; later writes do not reach the input
        if isinstance(st, (ast.For, ast.While, ast.If, ast.With, ast.Try)):
            # conservative: a rebinding inside a block is not tracked
            pass
    if not seen:
        raise Underivable(f'{fn.name}: no `{var}, desc = _parse_input(...)`')
    return False


def _d_est_writes():
    """per estimator: 1 = it writes into the array `_parse_input` handed to it"""
    lines = []
    for k, (fname, code) in enumerate(ESTIMATORS.items()):
        fn = _func('rdm/calc.py', fname)
        var = None
        for n in ast.walk(fn):
            if isinstance(n, ast.Assign) and isinstance(n.value, ast.Call) \
                    and isinstance(n.value.func, ast.Name) and n.value.func.id == '_parse_input' \
                    and isinstance(n.targets[0], ast.Tuple) and isinstance(n.targets[0].elts[0], ast.Name):
                var = n.targets[0].elts[0].id
        if var is None:
            raise Underivable(f'{fname}: `x, desc = _parse_input(...)` not found')
        w = 1 if _writes_to(fn, var) else 0
        lines.append(f"    {'if' if k == 0 else 'elif'} est == {code}:")
        lines.append(f'        return {w}')
    lines += ['    else:', '        return 0']
    return lines


# ---- round 5: the normalisation of calc_rdm_correlation (no additive constants in the norm) ----
_ROWNORM = ("np.sqrt(np.einsum('ij,ij->i', {v}, {v}))",)


def _d_corr_unit():
    """what `calc_rdm_correlation` does to one element of the centred pattern array between
    `_parse_input` and `rdm = 1 - ...`, as ONE expression in `ma` (the element) and `rownorm`
    (= np.sqrt(np.einsum('ij,ij->i', ma, ma)) of its row, the only array call recognised).
    Statements are substituted into each other; broadcasting subscripts `[:, None]` are dropped.
    Anything else (np.finfo(...).eps, np.maximum(..), a clip) stays in the text and is either
    translated (a literal: the proof of `corr_algo_eq_spec` then fails) or untranslatable."""
    fn = _func('rdm/calc.py', 'calc_rdm_correlation')
    var, start, stop = None, None, None
    for k, st in enumerate(fn.body):
        if isinstance(st, ast.Assign) and isinstance(st.value, ast.Call) \
                and isinstance(st.value.func, ast.Name) and st.value.func.id == '_parse_input':
            t = st.targets[0]
            if not (isinstance(t, ast.Tuple) and isinstance(t.elts[0], ast.Name)):
                raise Underivable('calc_rdm_correlation: result of _parse_input is not unpacked')
            var, start = t.elts[0].id, k + 1
        elif start is not None and isinstance(st, ast.Assign) and _is_name(st.targets[0], 'rdm'):
            stop = k
            break
    if var is None or stop is None:
        raise Underivable('calc_rdm_correlation: `x, desc = _parse_input(...)` ... `rdm = ...` not found')
    final = fn.body[stop].value
    if ast.unparse(final) != f"1 - np.einsum('ik,jk', {var}, {var})":
        raise Underivable(f'calc_rdm_correlation: rdm = {ast.unparse(final)}')
    rownorm = {t.format(v=var) for t in _ROWNORM}

    class Sub(ast.NodeTransformer):
        def __init__(self, env):
            self.env = env

        def visit(self, node):
            if isinstance(node, ast.Call) and ast.unparse(node) in rownorm and var not in self.env:
                return ast.Name(id='rownorm', ctx=ast.Load())
            return super().visit(node)

        def visit_Name(self, node):
            if node.id in self.env:
                return self.env[node.id]
            return node

        def visit_Subscript(self, node):
            sl = node.slice
            if isinstance(sl, ast.Tuple) and len(sl.elts) == 2 and isinstance(sl.elts[0], ast.Slice) \
                    and sl.elts[0].lower is None and sl.elts[0].upper is None and sl.elts[0].step is None \
                    and ast.unparse(sl.elts[1]) in ('None', 'np.newaxis'):
                return self.visit(node.value)        # `[:, None]`: broadcasting only
            return self.generic_visit(node)

    import copy
    env = {}
    for st in fn.body[start:stop]:
        if isinstance(st, ast.Expr) and isinstance(st.value, ast.Constant):
            continue
        if isinstance(st, ast.Assign) and len(st.targets) == 1 and isinstance(st.targets[0], ast.Name):
            name, val = st.targets[0].id, Sub(env).visit(copy.deepcopy(st.value))
        elif isinstance(st, ast.AugAssign) and isinstance(st.target, ast.Name):
            name = st.target.id
            cur = env.get(name, ast.Name(id=name, ctx=ast.Load()))
            val = ast.BinOp(left=copy.deepcopy(cur), op=st.op,
                            right=Sub(env).visit(copy.deepcopy(st.value)))
        else:
            raise Underivable(f'calc_rdm_correlation: statement `{ast.unparse(st)}` between '
                              '_parse_input and the Gram matrix')
        if name == var and var in env:
            # the row norm of a second pass would be the norm of the *modified* array
            raise Underivable(f'calc_rdm_correlation: `{var}` is modified more than once')
        env[name] = val
    if var not in env:
        raise Underivable(f'calc_rdm_correlation: `{var}` is not normalised before the Gram matrix')
    text = ast.unparse(ast.fix_missing_locations(env[var]))
    text = re.sub(r'\b%s\b' % re.escape(var), 'ma', text) if var != 'ma' else text
    return [f'    return {text}']


_DERIVED_FUNCS = [
    # name, params, body builder
    ('dispatch', ['method'], _d_dispatch),
    ('parse_flag', ['method', 'remove_mean'], _d_parse_flag),
    ('fwd_noise', ['method'], _d_fwd(['noise'])),
    ('fwd_prior', ['method'], _d_fwd(['prior_lambda', 'prior_weight'])),
    ('mahal_none_flag', ['remove_mean'], _d_mahal_none),
    ('default_prior_lambda', [], _d_default('calc_rdm', 'prior_lambda')),
    ('default_prior_weight', [], _d_default('calc_rdm', 'prior_weight')),
    ('movie_default_prior_lambda', [], _d_default('calc_rdm_movie', 'prior_lambda')),
    ('movie_default_prior_weight', [], _d_default('calc_rdm_movie', 'prior_weight')),
    ('poisson_default_prior_lambda', [], _d_default('calc_rdm_poisson', 'prior_lambda')),
    ('poisson_default_prior_weight', [], _d_default('calc_rdm_poisson', 'prior_weight')),
    ('list_remove_mean', ['remove_mean'], _d_list_fwd('calc_rdm', 'remove_mean')),
    ('list_method', ['method'], _d_list_fwd('calc_rdm', 'method')),
    ('list_prior_lambda', ['prior_lambda'], _d_list_fwd('calc_rdm', 'prior_lambda')),
    ('list_prior_weight', ['prior_weight'], _d_list_fwd('calc_rdm', 'prior_weight')),
    ('list_noise_index', ['i_dat'], _d_noise_index('calc_rdm')),
    ('movie_list_method', ['method'], _d_list_fwd('calc_rdm_movie', 'method')),
    ('movie_list_bins', ['bins'], _d_list_fwd('calc_rdm_movie', 'bins')),
    ('movie_list_tdesc', ['time_descriptor'], _d_list_fwd('calc_rdm_movie', 'time_descriptor')),
    ('movie_list_prior_lambda', ['prior_lambda'], _d_list_fwd('calc_rdm_movie', 'prior_lambda')),
    ('movie_list_prior_weight', ['prior_weight'], _d_list_fwd('calc_rdm_movie', 'prior_weight')),
    ('movie_list_noise_index', ['i_dat'], _d_noise_index('calc_rdm_movie')),
    ('movie_frame_method', ['method'], _d_movie_frame_fwd('method')),
    ('movie_frame_prior_lambda', ['prior_lambda'], _d_movie_frame_fwd('prior_lambda')),
    ('movie_frame_prior_weight', ['prior_weight'], _d_movie_frame_fwd('prior_weight')),
    ('movie_frame_remove_mean', [], _d_movie_frame_fwd('remove_mean')),
    ('movie_split_source', ['binned'],
     _d_movie_source('splited_data', 'binned_data.split_time(time_descriptor)',
                     'dataset.split_time(time_descriptor)')),
    ('movie_time_source', ['binned'],
     _d_movie_source('time', 'binned_data.time_descriptors[time_descriptor]',
                     'dataset.time_descriptors[time_descriptor]')),
    ('movie_time_rule', [], _d_movie_time_rule),
    ('wrap_vector', ['is_seq', 'ndim', 'len_value'], _d_wrap_vector),
    ('averaging_occurred', ['n_unique', 'n_obs'], _d_averaging),
    ('mean_buffer_float', [], _d_mean_buffer),
    ('parse_shares', ['has_desc'], _d_parse_shares),
    ('centre_in_place', [], _d_centre_in_place),
    ('est_writes', ['est'], _d_est_writes),
    ('corr_unit', ['ma', 'rownorm'], _d_corr_unit),
]


def _derive():
    out = ['# DERIVED by harness/leaves/C01.py from the source tree under check - do not edit', '']
    for name, params, build in _DERIVED_FUNCS:
        try:
            lines = build()
        except Exception as exc:  # noqa: BLE001  (fail closed: any surprise = underivable)
            lines = ['    return __underivable__(' + repr(f'{type(exc).__name__}: {exc}') + ')']
        out.append(f'def {name}({", ".join(params)}):')
        out.extend(lines)
        out.append('')
    text = '\n'.join(out)
    if not (os.path.exists(DERIVED) and open(DERIVED).read() == text):
        with open(DERIVED + '.tmp', 'w') as f:
            f.write(text)
        os.replace(DERIVED + '.tmp', DERIVED)


_derive()


def _leaf(lean_name, py_name, params, ret):
    return dict(name=lean_name, file=DERIVED, func=py_name, kind='func', params=params, ret=ret)


_M = {'method': 'Nat'}
LEAVES += [
    _leaf('dispatch', 'dispatch', _M, 'Nat'),
    _leaf('parseFlag', 'parse_flag', {'method': 'Nat', 'remove_mean': 'Nat'}, 'Nat'),
    _leaf('fwdNoise', 'fwd_noise', _M, 'Nat'),
    _leaf('fwdPrior', 'fwd_prior', _M, 'Nat'),
    _leaf('mahalNoneFlag', 'mahal_none_flag', {'remove_mean': 'Nat'}, 'Nat'),
    _leaf('defaultPriorLambda', 'default_prior_lambda', {}, 'A'),
    _leaf('defaultPriorWeight', 'default_prior_weight', {}, 'A'),
    _leaf('movieDefaultPriorLambda', 'movie_default_prior_lambda', {}, 'A'),
    _leaf('movieDefaultPriorWeight', 'movie_default_prior_weight', {}, 'A'),
    _leaf('poissonDefaultPriorLambda', 'poisson_default_prior_lambda', {}, 'A'),
    _leaf('poissonDefaultPriorWeight', 'poisson_default_prior_weight', {}, 'A'),
    _leaf('listRemoveMean', 'list_remove_mean', {'remove_mean': 'Nat'}, 'Nat'),
    _leaf('listMethod', 'list_method', _M, 'Nat'),
    _leaf('listPriorLambda', 'list_prior_lambda', {'prior_lambda': 'A'}, 'A'),
    _leaf('listPriorWeight', 'list_prior_weight', {'prior_weight': 'A'}, 'A'),
    _leaf('listNoiseIndex', 'list_noise_index', {'i_dat': 'Nat'}, 'Nat'),
    _leaf('movieListMethod', 'movie_list_method', _M, 'Nat'),
    _leaf('movieListBins', 'movie_list_bins', {'bins': 'Nat'}, 'Nat'),
    _leaf('movieListTdesc', 'movie_list_tdesc', {'time_descriptor': 'Nat'}, 'Nat'),
    _leaf('movieListPriorLambda', 'movie_list_prior_lambda', {'prior_lambda': 'A'}, 'A'),
    _leaf('movieListPriorWeight', 'movie_list_prior_weight', {'prior_weight': 'A'}, 'A'),
    _leaf('movieListNoiseIndex', 'movie_list_noise_index', {'i_dat': 'Nat'}, 'Nat'),
    _leaf('movieFrameMethod', 'movie_frame_method', _M, 'Nat'),
    _leaf('movieFramePriorLambda', 'movie_frame_prior_lambda', {'prior_lambda': 'A'}, 'A'),
    _leaf('movieFramePriorWeight', 'movie_frame_prior_weight', {'prior_weight': 'A'}, 'A'),
    _leaf('movieFrameRemoveMean', 'movie_frame_remove_mean', {}, 'Nat'),
    _leaf('movieSplitSource', 'movie_split_source', {'binned': 'Nat'}, 'Nat'),
    _leaf('movieTimeSource', 'movie_time_source', {'binned': 'Nat'}, 'Nat'),
    _leaf('movieTimeRule', 'movie_time_rule', {}, 'Nat'),
    _leaf('wrapVector', 'wrap_vector', {'is_seq': 'Nat', 'ndim': 'Nat', 'len_value': 'Nat'}, 'Nat'),
    _leaf('averagingOccurred', 'averaging_occurred', {'n_unique': 'Nat', 'n_obs': 'Nat'}, 'Nat'),
    _leaf('meanBufferFloat', 'mean_buffer_float', {}, 'Nat'),
    # round 4: memory effects
    _leaf('parseShares', 'parse_shares', {'has_desc': 'Nat'}, 'Nat'),
    _leaf('centreInPlace', 'centre_in_place', {}, 'Nat'),
    _leaf('estWrites', 'est_writes', {'est': 'Nat'}, 'Nat'),
    # round 5: normalisation statement(s) of calc_rdm_correlation, element-wise
    _leaf('corrUnit', 'corr_unit', {'ma': 'A', 'rownorm': 'A'}, 'A'),
]
