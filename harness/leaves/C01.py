"""leaf specs of C01: scalar arithmetic of rdm/calc.py, rdm/combine.py regenerated every run"""
_TRIU = {'_extract_triu_(rdm)': 'triu'}

LEAVES = [
    # calc_rdm_poisson:  measurements = (measurements + prior_lambda * prior_weight) / (1 + prior_weight)
    dict(name='poissonPrior', file='rdm/calc.py', func='calc_rdm_poisson', kind='assign',
         target='measurements', nth=0,
         params={'measurements': 'A', 'prior_lambda': 'A', 'prior_weight': 'A'}, ret='A'),
    # calc_rdm_euclidean:  rdm = sum_sq + sum_sq.T - 2 * np.dot(measurements, measurements.T)
    dict(name='euclidEntry', file='rdm/calc.py', func='calc_rdm_euclidean', kind='assign',
         target='rdm', nth=0,
         opaque={'np.dot(measurements, measurements.T)': 'gram'},
         params={'sum_sq_measurements': 'A', 'sum_sq_measurements_T': 'A', 'gram': 'A'}, ret='A'),
    # calc_rdm_euclidean:  rdm = _extract_triu_(rdm) / measurements.shape[1]
    dict(name='euclidNorm', file='rdm/calc.py', func='calc_rdm_euclidean', kind='assign',
         target='rdm', nth=1, opaque=_TRIU,
         params={'triu': 'A', 'measurements_shape_1': 'Nat'}, ret='A'),
    # calc_rdm_mahalanobis:  rdm = expand_dims(diag(kernel), 0) + expand_dims(diag(kernel), 1) - 2 * kernel
    dict(name='mahalEntry', file='rdm/calc.py', func='calc_rdm_mahalanobis', kind='assign',
         target='rdm', nth=0,
         opaque={'np.expand_dims(np.diag(kernel), 0)': 'diag_col',
                 'np.expand_dims(np.diag(kernel), 1)': 'diag_row'},
         params={'diag_col': 'A', 'diag_row': 'A', 'kernel': 'A'}, ret='A'),
    dict(name='mahalNorm', file='rdm/calc.py', func='calc_rdm_mahalanobis', kind='assign',
         target='rdm', nth=1, opaque=_TRIU,
         params={'triu': 'A', 'measurements_shape_1': 'Nat'}, ret='A'),
    # calc_rdm_poisson:  rdm = expand_dims(diag, 0) + expand_dims(diag, 1) - kernel - kernel.T
    dict(name='poissonEntry', file='rdm/calc.py', func='calc_rdm_poisson', kind='assign',
         target='rdm', nth=0,
         opaque={'np.expand_dims(np.diag(kernel), 0)': 'diag_col',
                 'np.expand_dims(np.diag(kernel), 1)': 'diag_row'},
         params={'diag_col': 'A', 'diag_row': 'A', 'kernel': 'A', 'kernel_T': 'A'}, ret='A'),
    dict(name='poissonNorm', file='rdm/calc.py', func='calc_rdm_poisson', kind='assign',
         target='rdm', nth=1, opaque=_TRIU,
         params={'triu': 'A', 'measurements_shape_1': 'Nat'}, ret='A'),
    # calc_rdm_correlation:  rdm = 1 - np.einsum('ik,jk', ma, ma)
    dict(name='corrEntry', file='rdm/calc.py', func='calc_rdm_correlation', kind='assign',
         target='rdm', nth=0, opaque={"np.einsum('ik,jk', ma, ma)": 'gram'},
         params={'gram': 'A'}, ret='A'),
    # _parse_input:  measurements = measurements - measurements.mean(axis=1, keepdims=True)
    dict(name='removeMean', file='rdm/calc.py', func='_parse_input', kind='assign',
         target='measurements', nth=1,
         opaque={'measurements.mean(axis=1, keepdims=True)': 'row_mean'},
         params={'measurements': 'A', 'row_mean': 'A'}, ret='A'),
    # from_partials:  vector_len = int(n_patterns * (n_patterns-1) / 2)
    dict(name='vectorLen', file='rdm/combine.py', func='from_partials', kind='assign',
         target='vector_len', nth=0, params={'n_patterns': 'Nat'}, ret='Nat'),
]
