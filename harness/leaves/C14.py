"""C14 leaves: the three degrees-of-freedom expressions of data/noise.py, regenerated
from the current source text on every run (lean/Rsa/Gen/C14.lean).

  dofResiduals n      `_check_demean`, 1-D/2-D branch : dof = matrix.shape[0] - 1
  dofTensor C R       `_check_demean`, 3-D branch     : dof of a (C, P, R) tensor
                      (conditions x channels x repetitions, as get_measurements_tensor
                      builds it) -- the property demands C * (R - 1)
  dofUnbalanced n C   `cov_from_unbalanced`           : dof = matrix.shape[0] - len(values)
"""
LEAVES = [
    dict(name='dofResiduals', file='data/noise.py', func='_check_demean', kind='assign',
         target='dof', nth=0, count=2,
         params={'matrix_shape_0': 'Nat'}, ret='Nat'),
    dict(name='dofTensor', file='data/noise.py', func='_check_demean', kind='assign',
         target='dof', nth=1, count=2,
         params={'matrix_shape_0': 'Nat', 'matrix_shape_2': 'Nat'},
         ret='Nat'),
    dict(name='dofUnbalanced', file='data/noise.py', func='cov_from_unbalanced', kind='assign',
         target='dof', nth=0, count=1,
         params={'matrix_shape_0': 'Nat', 'len_values': 'Nat'}, ret='Nat'),
]

# ---- round 2: the scalar arithmetic of the two shrinkage estimators and of 'full', entry-wise.
# Array-valued names of the source (s_sum, s, eye, mask, ...) stand for one entry of the array;
# calls that build / reduce arrays are opaque parameters (their value is computed by the model).
_A = 'A'
_EYE = 'np.eye(s.shape[0])'
LEAVES += [
    dict(name='fullNorm', file='data/noise.py', func='_covariance_full', kind='func',
         params={'xtx': _A, 'dof': _A}, ret=_A,
         opaque={"np.einsum('ij, ik-> jk', matrix, matrix, optimize=True)": 'xtx'}),
    # Ledoit-Wolf
    dict(name='lwS', file='data/noise.py', func='_covariance_eye', kind='assign', target='s', nth=0,
         count=1, params={'s_sum': _A, 'matrix_shape_0': _A}, ret=_A),
    dict(name='lwB2', file='data/noise.py', func='_covariance_eye', kind='assign', target='b2', nth=0,
         count=2, params={'total': _A, 'matrix_shape_0': _A}, ret=_A,
         opaque={'np.sum(s2_sum / matrix.shape[0] - s * s)': 'total'}),
    dict(name='lwM', file='data/noise.py', func='_covariance_eye', kind='assign', target='m', nth=0,
         count=1, params={'trace': _A, 's_shape_0': _A}, ret=_A,
         opaque={'np.sum(np.diag(s))': 'trace'}),
    dict(name='lwB2min', file='data/noise.py', func='_covariance_eye', kind='assign', target='b2', nth=1,
         count=2, params={'d2': _A, 'b2': _A}, ret=_A),
    dict(name='lwCombine', file='data/noise.py', func='_covariance_eye', kind='assign',
         target='s_shrink', nth=0, count=3,
         params={'b2': _A, 'd2': _A, 'm': _A, 'eye': _A, 's': _A}, ret=_A, opaque={_EYE: 'eye'}),
    dict(name='lwRescale', file='data/noise.py', func='_covariance_eye', kind='assign',
         target='s_shrink', nth=2, count=3,
         params={'s_shrink': _A, 'matrix_shape_0': _A, 'dof': _A}, ret=_A),
    # Schaefer-Strimmer
    dict(name='ssS', file='data/noise.py', func='_covariance_diag', kind='assign', target='s', nth=0,
         count=1, params={'s_sum': _A, 'dof': _A}, ret=_A),
    dict(name='ssSMean', file='data/noise.py', func='_covariance_diag', kind='assign', target='s_mean',
         nth=0, count=1, params={'s_sum': _A, 'std_col': _A, 'std_row': _A, 'matrix_shape_0': _A}, ret=_A,
         opaque={'np.expand_dims(std, 0)': 'std_col', 'np.expand_dims(std, 1)': 'std_row'}),
    dict(name='ssS2Mean', file='data/noise.py', func='_covariance_diag', kind='assign', target='s2_mean',
         nth=0, count=1, params={'s2_sum': _A, 'var_col': _A, 'var_row': _A, 'matrix_shape_0': _A}, ret=_A,
         opaque={'np.expand_dims(var, 0)': 'var_col', 'np.expand_dims(var, 1)': 'var_row'}),
    dict(name='ssVarHat', file='data/noise.py', func='_covariance_diag', kind='assign', target='var_hat',
         nth=0, count=1, params={'matrix_shape_0': _A, 'dof': _A, 's2_mean': _A, 's_mean': _A}, ret=_A),
    dict(name='ssLambRaw', file='data/noise.py', func='_covariance_diag', kind='assign', target='lamb',
         nth=0, count=3, params={'num': _A, 'denom': _A}, ret=_A,
         opaque={'np.sum(var_hat[mask])': 'num'}),
    dict(name='ssClip', file='data/noise.py', func='_covariance_diag', kind='assign', target='lamb',
         nth=1, count=3, params={'lamb': _A}, ret=_A),
    dict(name='ssScaling', file='data/noise.py', func='_covariance_diag', kind='assign', target='scaling',
         nth=0, count=1, params={'eye': _A, 'lamb': _A, 'mask': _A}, ret=_A, opaque={_EYE: 'eye'}),
    dict(name='ssShrink', file='data/noise.py', func='_covariance_diag', kind='assign', target='s_shrink',
         nth=0, count=1, params={'s': _A, 'scaling': _A}, ret=_A),
]
