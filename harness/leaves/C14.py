"""C14 leaves: the three degrees-of-freedom expressions of data/noise.py, regenerated
from the current source text on every run (lean/Rsa/Gen/C14.lean).

  dofResiduals n      `_check_demean`, 1-D/2-D branch : dof = matrix.shape[0] - 1
  dofTensor C R       `_check_demean`, 3-D branch     : dof of a (C, P, R) tensor
                      (conditions x channels x repetitions, as get_measurements_tensor
                      builds it) -- the property demands C * (R - 1)
  dofUnbalanced n C   `cov_from_unbalanced`           : dof = matrix.shape[0] - len(values)
"""
LEAVES = [
    dict(name='dofResiduals', file='data/noise.py', func='_check_demean', kind='assign',
         target='dof', nth=0, count=2,
         params={'matrix_shape_0': 'Nat'}, ret='Nat'),
    dict(name='dofTensor', file='data/noise.py', func='_check_demean', kind='assign',
         target='dof', nth=1, count=2,
         params={'matrix_shape_0': 'Nat', 'matrix_shape_2': 'Nat'},
         ret='Nat'),
    dict(name='dofUnbalanced', file='data/noise.py', func='cov_from_unbalanced', kind='assign',
         target='dof', nth=0, count=1,
         params={'matrix_shape_0': 'Nat', 'len_values': 'Nat'}, ret='Nat'),
]

# ---- round 2: the scalar arithmetic of the two shrinkage estimators and of 'full', entry-wise.
# Array-valued names of the source (s_sum, s, eye, mask, ...) stand for one entry of the array;
# calls that build / reduce arrays are opaque parameters (their value is computed by the model).
_A = 'A'
_EYE = 'np.eye(s.shape[0])'
LEAVES += [
    dict(name='fullNorm', file='data/noise.py', func='_covariance_full', kind='func',
         params={'xtx': _A, 'dof': _A}, ret=_A,
         opaque={"np.einsum('ij, ik-> jk', matrix, matrix, optimize=True)": 'xtx'}),
    # Ledoit-Wolf
    dict(name='lwS', file='data/noise.py', func='_covariance_eye', kind='assign', target='s', nth=0,
         count=1, params={'s_sum': _A, 'matrix_shape_0': _A}, ret=_A),
    dict(name='lwB2', file='data/noise.py', func='_covariance_eye', kind='assign', target='b2', nth=0,
         count=2, params={'total': _A, 'matrix_shape_0': _A}, ret=_A,
         opaque={'np.sum(s2_sum / matrix.shape[0] - s * s)': 'total'}),
    dict(name='lwM', file='data/noise.py', func='_covariance_eye', kind='assign', target='m', nth=0,
         count=1, params={'trace': _A, 's_shape_0': _A}, ret=_A,
         opaque={'np.sum(np.diag(s))': 'trace'}),
    dict(name='lwB2min', file='data/noise.py', func='_covariance_eye', kind='assign', target='b2', nth=1,
         count=2, params={'d2': _A, 'b2': _A}, ret=_A),
    dict(name='lwCombine', file='data/noise.py', func='_covariance_eye', kind='assign',
         target='s_shrink', nth=0, count=3,
         params={'b2': _A, 'd2': _A, 'm': _A, 'eye': _A, 's': _A}, ret=_A, opaque={_EYE: 'eye'}),
    dict(name='lwRescale', file='data/noise.py', func='_covariance_eye', kind='assign',
         target='s_shrink', nth=2, count=3,
         params={'s_shrink': _A, 'matrix_shape_0': _A, 'dof': _A}, ret=_A),
    # Schaefer-Strimmer
    dict(name='ssS', file='data/noise.py', func='_covariance_diag', kind='assign', target='s', nth=0,
         count=1, params={'s_sum': _A, 'dof': _A}, ret=_A),
    dict(name='ssSMean', file='data/noise.py', func='_covariance_diag', kind='assign', target='s_mean',
         nth=0, count=1, params={'s_sum': _A, 'std_col': _A, 'std_row': _A, 'matrix_shape_0': _A}, ret=_A,
         opaque={'np.expand_dims(std, 0)': 'std_col', 'np.expand_dims(std, 1)': 'std_row'}),
    dict(name='ssS2Mean', file='data/noise.py', func='_covariance_diag', kind='assign', target='s2_mean',
         nth=0, count=1, params={'s2_sum': _A, 'var_col': _A, 'var_row': _A, 'matrix_shape_0': _A}, ret=_A,
         opaque={'np.expand_dims(var, 0)': 'var_col', 'np.expand_dims(var, 1)': 'var_row'}),
    dict(name='ssVarHat', file='data/noise.py', func='_covariance_diag', kind='assign', target='var_hat',
         nth=0, count=1, params={'matrix_shape_0': _A, 'dof': _A, 's2_mean': _A, 's_mean': _A}, ret=_A),
    dict(name='ssLambRaw', file='data/noise.py', func='_covariance_diag', kind='assign', target='lamb',
         nth=0, count=3, params={'num': _A, 'denom': _A}, ret=_A,
         opaque={'np.sum(var_hat[mask])': 'num'}),
    dict(name='ssClip', file='data/noise.py', func='_covariance_diag', kind='assign', target='lamb',
         nth=1, count=3, params={'lamb': _A}, ret=_A),
    dict(name='ssScaling', file='data/noise.py', func='_covariance_diag', kind='assign', target='scaling',
         nth=0, count=1, params={'eye': _A, 'lamb': _A, 'mask': _A}, ret=_A, opaque={_EYE: 'eye'}),
    dict(name='ssShrink', file='data/noise.py', func='_covariance_diag', kind='assign', target='s_shrink',
         nth=0, count=1, params={'s': _A, 'scaling': _A}, ret=_A),
]


# ---- round 3: statement-level skeletons derived by an own rewriter -------------------------------
# The leaves above are single right-hand sides.  What they cannot see: the *guards* (`if d2 > 0`,
# `if denom > 0`, `if dof is None`), the order of the statements around them (e.g. whether the
# `* n / dof` rescale sits after or inside the guard), the summands inside `np.sum(...)`, the
# method dispatch, the axes of the demeaning / tensor layout, and in-place writes to caller data.
# For those this module derives, from the current source text (Python `ast`), tiny scalar Python
# functions and writes them to harness/leaves/_C14_derived.py; py2lean translates those as usual.
# Every derivation fails closed: an unexpected shape of the anchor yields a body calling
# `__underivable__`, which py2lean reports as an untranslatable leaf (= broken obligation).
#
#   lw_tail        _covariance_eye from `b2 = min(d2, b2)` to `return` (guard + combine + rescale)
#   lw_b2_term     summand of `b2 = np.sum(<.>) / n`
#   lw_d2_term     summand of `d2 = np.sum(<.>)`
#   ss_lambda      _covariance_diag: the `if denom > 0: ... else: lamb = 0.` statement
#   ss_tail        _covariance_diag from that statement to `return`
#   ss_den_term    summand of `denom = np.sum(<.>)`   (`s_mean[mask]` -> one off-diagonal entry)
#   ss_mask        `mask = ~np.eye(., dtype=bool)` as a number: 1 - eye
#   var_norm       `_variance`: argument of `np.diag(<.>)`
#   dof_choice     _estimate_covariance: `if dof is None: dof = dof_nat` (two specialisations)
#   dof_choice_unb cov_from_unbalanced: `if dof is None: dof = matrix.shape[0] - len(values)`
#   dispatch       _estimate_covariance: method string -> estimator, as codes
#                  (methods full, diag, shrinkage_eye, shrinkage_diag = 0..3;
#                   estimators _covariance_full, _variance, _covariance_eye, _covariance_diag = 0..3)
#   demean_axis_2d / demean_axis_3d / transpose_k / stack_axis / swap_a / swap_b
#                  the axis constants of `_check_demean` and `Dataset.get_measurements_tensor`
#   input_writes   number of statements in the anchored functions that store into (a view of) a
#                  parameter: augmented assignment, subscript / attribute store, mutating method,
#                  `out=`; the analysis is per function, every non-scalar parameter counts as
#                  caller data (a Python-side static analysis; the Lean obligation is `= 0`).
import ast as _ast
import os as _os

_SRC = _os.environ.get('RSA_REPO_SRC', '/repo/src/rsatoolbox')
_HERE = _os.path.dirname(_os.path.abspath(__file__))
DERIVED = _os.path.join(_HERE, '_C14_derived.py')
METHOD_CODES = ['full', 'diag', 'shrinkage_eye', 'shrinkage_diag']
ESTIMATOR_CODES = ['_covariance_full', '_variance', '_covariance_eye', '_covariance_diag']


class Underivable(Exception):
    pass


def _tree(path):
    return _ast.parse(open(_os.path.join(_SRC, path)).read())


def _func(path, name, cls=None):
    for node in _ast.walk(_tree(path)):
        if cls is not None:
            if isinstance(node, _ast.ClassDef) and node.name == cls:
                for sub in node.body:
                    if isinstance(sub, _ast.FunctionDef) and sub.name == name:
                        return sub
        elif isinstance(node, _ast.FunctionDef) and node.name == name:
            return node
    raise Underivable(f'{path}: function {name} not found')


def _top_assign_index(fn, target, nth, count=None):
    idx = [i for i, s in enumerate(fn.body) if isinstance(s, _ast.Assign) and len(s.targets) == 1
           and isinstance(s.targets[0], _ast.Name) and s.targets[0].id == target]
    if count is not None and len(idx) != count:
        raise Underivable(f'expected {count} top-level assignments to {target}, found {len(idx)}')
    if len(idx) <= nth:
        raise Underivable(f'top-level assignment {nth} to {target} not found')
    return idx[nth]


class _Subst(_ast.NodeTransformer):
    def __init__(self, subs):
        self.subs = subs

    def visit(self, node):
        if isinstance(node, _ast.expr):
            t = _ast.unparse(node)
            if t in self.subs:
                v = self.subs[t]
                return _ast.Constant(value=v) if isinstance(v, int) else _ast.Name(id=v, ctx=_ast.Load())
        return self.generic_visit(node)


def _render(stmts, subs, extra_return=None):
    mod = _ast.parse('\n'.join(_ast.unparse(s) for s in stmts))
    mod = _ast.fix_missing_locations(_Subst(subs).visit(mod))
    lines = _ast.unparse(mod).split('\n')
    if extra_return:
        lines.append(f'return {extra_return}')
    return lines


def _sum_arg(fn, target, nth, count):
    """the argument X of the `np.sum(X)` on the right-hand side of an assignment"""
    hits = [n for n in _ast.walk(fn) if isinstance(n, _ast.Assign) and len(n.targets) == 1
            and isinstance(n.targets[0], _ast.Name) and n.targets[0].id == target]
    hits.sort(key=lambda n: n.lineno)
    if len(hits) != count:
        raise Underivable(f'expected {count} assignments to {target}, found {len(hits)}')
    sums = [c for c in _ast.walk(hits[nth].value) if isinstance(c, _ast.Call)
            and _ast.unparse(c.func) == 'np.sum' and len(c.args) == 1 and not c.keywords]
    if len(sums) != 1:
        raise Underivable(f'expected one np.sum(.) in `{_ast.unparse(hits[nth])}`')
    return sums[0].args[0]


_EYE_TXT = 'np.eye(s.shape[0])'


def _lw_tail():
    fn = _func('data/noise.py', '_covariance_eye')
    i = _top_assign_index(fn, 'b2', 1, 2)
    tail = fn.body[i:]
    if not isinstance(tail[-1], _ast.Return):
        raise Underivable('_covariance_eye does not end in a return')
    return _render(tail, {_EYE_TXT: 'eye', 'matrix.shape[0]': 'n'})


def _ss_if(fn):
    ifs = [i for i, s in enumerate(fn.body) if isinstance(s, _ast.If) and any(
        isinstance(n, _ast.Name) and n.id == 'lamb' and isinstance(n.ctx, _ast.Store) for n in _ast.walk(s))]
    if len(ifs) != 1:
        raise Underivable(f'expected one top-level `if` assigning lamb in _covariance_diag, found {len(ifs)}')
    return ifs[0]


_SS_SUBS = {'np.sum(var_hat[mask])': 'num', _EYE_TXT: 'eye'}


def _ss_lambda():
    fn = _func('data/noise.py', '_covariance_diag')
    i = _ss_if(fn)
    if any(isinstance(s, _ast.Assign) and 'lamb' in [getattr(t, 'id', None) for t in s.targets]
           for s in fn.body[:i] + fn.body[i + 1:]):
        raise Underivable('lamb is also assigned outside the guard statement')
    return _render([fn.body[i]], _SS_SUBS, extra_return='lamb')


def _ss_tail():
    fn = _func('data/noise.py', '_covariance_diag')
    i = _ss_if(fn)
    tail = fn.body[i:]
    if not isinstance(tail[-1], _ast.Return):
        raise Underivable('_covariance_diag does not end in a return')
    return _render(tail, _SS_SUBS)


def _expr_leaf(expr, subs):
    return _render([_ast.Expr(value=expr)], subs)[0]


def _ss_mask():
    fn = _func('data/noise.py', '_covariance_diag')
    hits = [s for s in fn.body if isinstance(s, _ast.Assign) and _ast.unparse(s.targets[0]) == 'mask']
    if len(hits) != 1:
        raise Underivable('expected one assignment to mask')
    v = hits[0].value
    if not (isinstance(v, _ast.UnaryOp) and isinstance(v.op, _ast.Invert)
            and _ast.unparse(v.operand) == 'np.eye(s.shape[0], dtype=bool)'):
        raise Underivable(f'mask is not ~np.eye(s.shape[0], dtype=bool): `{_ast.unparse(v)}`')
    return '1 - eye'          # logical not of a 0/1 entry


def _dof_choice(path, fname, subs):
    fn = _func(path, fname)
    ifs = [s for s in _ast.walk(fn) if isinstance(s, _ast.If) and _ast.unparse(s.test) == 'dof is None'
           and len(s.body) == 1 and isinstance(s.body[0], _ast.Assign)
           and _ast.unparse(s.body[0].targets[0]) == 'dof']
    if len(ifs) != 1:
        raise Underivable(f'expected one `if dof is None: dof = ...` in {fname}, found {len(ifs)}')
    if ifs[0].orelse:
        raise Underivable('the dof default has an else branch')
    return _render([ifs[0]], subs, extra_return='dof')


def _dispatch():
    fn = _func('data/noise.py', '_estimate_covariance')
    chains = [s for s in fn.body if isinstance(s, _ast.If) and _ast.unparse(s.test).startswith('method ==')]
    if len(chains) != 1:
        raise Underivable('method dispatch chain not found')
    table = {}
    node = chains[0]
    while True:
        t = node.test
        if not (isinstance(t, _ast.Compare) and _ast.unparse(t.left) == 'method' and len(t.ops) == 1
                and isinstance(t.ops[0], _ast.Eq) and isinstance(t.comparators[0], _ast.Constant)):
            raise Underivable(f'dispatch test `{_ast.unparse(t)}`')
        if len(node.body) != 1 or not isinstance(node.body[0], _ast.Assign) \
                or _ast.unparse(node.body[0].targets[0]) != 'cov_mat' \
                or not isinstance(node.body[0].value, _ast.Call):
            raise Underivable('dispatch branch is not `cov_mat = f(matrix, dof)`')
        call = node.body[0].value
        if [_ast.unparse(a) for a in call.args] != ['matrix', 'dof'] or call.keywords:
            raise Underivable(f'dispatch call arguments `{_ast.unparse(call)}`')
        key = t.comparators[0].value
        if key in table:
            raise Underivable(f'method {key!r} tested twice')
        table[key] = _ast.unparse(call.func)
        if len(node.orelse) == 1 and isinstance(node.orelse[0], _ast.If):
            node = node.orelse[0]
        elif not node.orelse:
            break
        else:
            raise Underivable('dispatch chain ends in an else branch')
    if sorted(table) != sorted(METHOD_CODES):
        raise Underivable(f'methods dispatched: {sorted(table)}')
    lines = []
    for i, mth in enumerate(METHOD_CODES):
        if table[mth] not in ESTIMATOR_CODES:
            raise Underivable(f'unknown estimator {table[mth]}')
        lines.append(f'{"if" if i == 0 else "elif"} method == {i}:')
        lines.append(f'    return {ESTIMATOR_CODES.index(table[mth])}')
    lines.append('return 4')
    return lines


def _kw_int(call, name):
    for k in call.keywords:
        if k.arg == name and isinstance(k.value, _ast.Constant) and isinstance(k.value.value, int):
            return k.value.value
    raise Underivable(f'`{_ast.unparse(call)}` has no integer keyword {name}')


def _demean_axis(ndim_branch):
    fn = _func('data/noise.py', '_check_demean')
    hits = [s for s in _ast.walk(fn) if isinstance(s, _ast.Assign) and _ast.unparse(s.targets[0]) == 'matrix'
            and isinstance(s.value, _ast.BinOp) and isinstance(s.value.op, _ast.Sub)
            and _ast.unparse(s.value.left) == 'matrix' and isinstance(s.value.right, _ast.Call)
            and _ast.unparse(s.value.right.func) == 'np.mean']
    hits.sort(key=lambda n: n.lineno)
    if len(hits) != 2:
        raise Underivable(f'expected two `matrix = matrix - np.mean(...)` in _check_demean, found {len(hits)}')
    call = hits[ndim_branch].value.right
    if _ast.unparse(call.args[0]) != 'matrix' or len(call.args) != 1:
        raise Underivable(f'mean is not taken of matrix: `{_ast.unparse(call)}`')
    return str(_kw_int(call, 'axis'))


def _transpose_k(k):
    fn = _func('data/noise.py', '_check_demean')
    calls = [c for c in _ast.walk(fn) if isinstance(c, _ast.Call) and isinstance(c.func, _ast.Attribute)
             and c.func.attr == 'transpose' and _ast.unparse(c.func.value) == 'matrix']
    if len(calls) != 1 or len(calls[0].args) != 3 or not all(
            isinstance(a, _ast.Constant) and isinstance(a.value, int) for a in calls[0].args):
        raise Underivable('matrix.transpose(a, b, c) not found in _check_demean')
    resh = [c for c in _ast.walk(fn) if isinstance(c, _ast.Call) and isinstance(c.func, _ast.Attribute)
            and c.func.attr == 'reshape' and c.func.value is calls[0]]
    want = ['matrix.shape[0] * matrix.shape[2]', 'matrix.shape[1]']
    if len(resh) != 1 or [_ast.unparse(a) for a in resh[0].args] != want:
        raise Underivable('the reshape after the transpose is not (shape[0] * shape[2], shape[1])')
    return str(calls[0].args[k].value)


def _tensor_const(which):
    fn = _func('data/dataset.py', 'get_measurements_tensor', cls='Dataset')
    if which == 'stack':
        calls = [c for c in _ast.walk(fn) if isinstance(c, _ast.Call) and _ast.unparse(c.func) == 'np.stack']
        if len(calls) != 1:
            raise Underivable('np.stack not found in get_measurements_tensor')
        return str(_kw_int(calls[0], 'axis'))
    calls = [c for c in _ast.walk(fn) if isinstance(c, _ast.Call) and _ast.unparse(c.func) == 'np.swapaxes']
    if len(calls) != 1 or len(calls[0].args) != 3 or not all(
            isinstance(a, _ast.Constant) and isinstance(a.value, int) for a in calls[0].args[1:]):
        raise Underivable('np.swapaxes(t, a, b) not found in get_measurements_tensor')
    return str(calls[0].args[1 if which == 'a' else 2].value)


# -- in-place writes to caller data ----------------------------------------------------------------
_SCALAR_PARAMS = {'dof', 'method', 'obs_desc', 'by'}
_VIEW_METHODS = {'transpose', 'reshape', 'swapaxes', 'view', 'ravel', 'squeeze', 'items', 'values', 'keys',
                 'get', 'flat'}
_VIEW_FUNCS = {'np.asarray', 'np.asanyarray', 'np.transpose', 'np.swapaxes', 'np.reshape', 'np.squeeze',
               'np.ravel', 'np.atleast_1d', 'np.atleast_2d', 'np.atleast_3d', 'np.expand_dims',
               'np.diagonal', 'np.broadcast_to', 'enumerate', 'zip', 'iter', 'reversed'}
_MUTATORS = {'sort', 'fill', 'resize', 'put', 'itemset', 'setfield', 'partition', 'append', 'extend',
             'insert', 'remove', 'pop', 'popitem', 'clear', 'update', 'setdefault', 'reverse'}
_MUT_FUNCS = {'np.copyto', 'np.put', 'np.put_along_axis', 'np.putmask', 'np.place', 'np.fill_diagonal'}
WRITE_SITES = []      # filled by the derivation, printed into the derived file for the reader


def _is_alias(e, alias):
    if isinstance(e, _ast.Name):
        return e.id in alias
    if isinstance(e, (_ast.Attribute, _ast.Subscript, _ast.Starred)):
        return _is_alias(e.value, alias)
    if isinstance(e, _ast.Call):
        if isinstance(e.func, _ast.Attribute) and e.func.attr in _VIEW_METHODS and _is_alias(e.func.value, alias):
            return True
        if _ast.unparse(e.func) in _VIEW_FUNCS and any(_is_alias(a, alias) for a in e.args):
            return True
    if isinstance(e, (_ast.Tuple, _ast.List)):
        return any(_is_alias(x, alias) for x in e.elts)
    if isinstance(e, _ast.IfExp):
        return _is_alias(e.body, alias) or _is_alias(e.orelse, alias)
    return False


def _names(t):
    if isinstance(t, _ast.Name):
        return [t.id]
    if isinstance(t, (_ast.Tuple, _ast.List)):
        return [n for e in t.elts for n in _names(e)]
    return []


def _writes_in(fn, where):
    alias = {a.arg for a in fn.args.args + fn.args.kwonlyargs} - _SCALAR_PARAMS
    for _ in range(6):           # flow-insensitive closure
        before = len(alias)
        for n in _ast.walk(fn):
            if isinstance(n, _ast.Assign) and _is_alias(n.value, alias):
                for t in n.targets:
                    alias.update(_names(t))
            if isinstance(n, (_ast.For, _ast.comprehension)) and _is_alias(n.iter, alias):
                alias.update(_names(n.target))
            if isinstance(n, _ast.NamedExpr) and _is_alias(n.value, alias):
                alias.update(_names(n.target))
        if len(alias) == before:
            break
    sites = []
    for n in _ast.walk(fn):
        if isinstance(n, _ast.AugAssign) and _is_alias(n.target, alias):
            sites.append((n.lineno, _ast.unparse(n)))
        if isinstance(n, _ast.Assign):
            for t in n.targets:
                for tt in ([t] if not isinstance(t, (_ast.Tuple, _ast.List)) else t.elts):
                    if isinstance(tt, (_ast.Subscript, _ast.Attribute)) and _is_alias(tt.value, alias):
                        sites.append((n.lineno, _ast.unparse(n)))
        if isinstance(n, _ast.Delete):
            for t in n.targets:
                if isinstance(t, (_ast.Subscript, _ast.Attribute)) and _is_alias(t.value, alias):
                    sites.append((n.lineno, _ast.unparse(n)))
        if isinstance(n, _ast.Call):
            if isinstance(n.func, _ast.Attribute) and n.func.attr in _MUTATORS and _is_alias(n.func.value, alias):
                sites.append((n.lineno, _ast.unparse(n)))
            if _ast.unparse(n.func) in _MUT_FUNCS and n.args and _is_alias(n.args[0], alias):
                sites.append((n.lineno, _ast.unparse(n)))
            for k in n.keywords:
                if k.arg == 'out' and _is_alias(k.value, alias):
                    sites.append((n.lineno, _ast.unparse(n)))
    return [f'{where}:{ln}: {txt}' for ln, txt in sorted(set(sites))]


_WRITE_SCOPE = [('data/noise.py', None, None),           # every function of the module
                ('data/computations.py', 'average_dataset_by', None),
                ('data/computations.py', 'average_dataset', None),
                ('data/dataset.py', 'get_measurements_tensor', 'Dataset'),
                ('util/data_utils.py', 'get_unique_inverse', None),
                ('util/data_utils.py', 'get_unique_unsorted', None)]


def _input_writes():
    del WRITE_SITES[:]
    n_fn = 0
    for path, name, cls in _WRITE_SCOPE:
        if name is None:
            fns = [n for n in _tree(path).body if isinstance(n, _ast.FunctionDef)]
        else:
            fns = [_func(path, name, cls)]
        for fn in fns:
            n_fn += 1
            WRITE_SITES.extend(_writes_in(fn, f'{path}:{fn.name}'))
    if n_fn < 12:
        raise Underivable(f'only {n_fn} functions found in the write scope')
    return str(len(WRITE_SITES))


def _derive():
    out = ['# DERIVED by harness/leaves/C14.py from the source tree under check - do not edit', '']

    def emit(name, params, body_fn):
        try:
            body = body_fn()
            if isinstance(body, str):
                body = [f'return {body}']
        except Exception as exc:  # noqa: BLE001  (fail closed: any surprise = underivable)
            body = ['return __underivable__(' + repr(str(exc)) + ')']
        out.append(f'def {name}({", ".join(params)}):')
        out.extend('    ' + l for l in body)
        out.append('')

    emit('lw_tail', ['s', 'd2', 'b2', 'm', 'eye', 'n', 'dof'], _lw_tail)
    emit('lw_b2_term', ['s2_sum', 'n', 's'], lambda: _expr_leaf(
        _sum_arg(_func('data/noise.py', '_covariance_eye'), 'b2', 0, 2), {'matrix.shape[0]': 'n'}))
    emit('lw_d2_term', ['s', 'm', 'eye'], lambda: _expr_leaf(
        _sum_arg(_func('data/noise.py', '_covariance_eye'), 'd2', 0, 1), {_EYE_TXT: 'eye'}))
    emit('ss_lambda', ['num', 'denom'], _ss_lambda)
    emit('ss_tail', ['num', 'denom', 's', 'eye', 'mask'], _ss_tail)
    emit('ss_den_term', ['s_mean'], lambda: _expr_leaf(
        _sum_arg(_func('data/noise.py', '_covariance_diag'), 'denom', 0, 1), {'s_mean[mask]': 's_mean'}))
    emit('ss_mask', ['eye'], _ss_mask)
    emit('var_norm', ['xtx', 'dof'], lambda: _expr_leaf(
        _variance_arg(), {"np.einsum('ij, ij-> j', matrix, matrix)": 'xtx'}))
    emit('dof_choice', ['dof', 'dof_nat'], lambda: _dof_choice('data/noise.py', '_estimate_covariance', {}))
    emit('dof_choice_unb', ['dof', 'n', 'len_values'], lambda: _dof_choice(
        'data/noise.py', 'cov_from_unbalanced', {'matrix.shape[0]': 'n', 'len(values)': 'len_values'}))
    emit('dispatch', ['method'], _dispatch)
    emit('demean_axis_2d', [], lambda: _demean_axis(0))
    emit('demean_axis_3d', [], lambda: _demean_axis(1))
    for k in range(3):
        emit(f'transpose_{k}', [], lambda k=k: _transpose_k(k))
    emit('stack_axis', [], lambda: _tensor_const('stack'))
    emit('swap_a', [], lambda: _tensor_const('a'))
    emit('swap_b', [], lambda: _tensor_const('b'))
    emit('input_writes', [], _input_writes)
    out.append('# stores into caller data found by the analysis (input_writes counts these):')
    out.extend('#   ' + s for s in WRITE_SITES)
    text = '\n'.join(out) + '\n'
    if not (_os.path.exists(DERIVED) and open(DERIVED).read() == text):
        with open(DERIVED + '.tmp', 'w') as f:
            f.write(text)
        _os.replace(DERIVED + '.tmp', DERIVED)


def _variance_arg():
    fn = _func('data/noise.py', '_variance')
    rets = [s for s in fn.body if isinstance(s, _ast.Return)]
    if len(rets) != 1 or not (isinstance(rets[0].value, _ast.Call)
                              and _ast.unparse(rets[0].value.func) == 'np.diag'
                              and len(rets[0].value.args) == 1 and not rets[0].value.keywords):
        raise Underivable('_variance does not return np.diag(<.>)')
    return rets[0].value.args[0]


_derive()

_N0 = {}
LEAVES += [
    dict(name='lwTail', file=DERIVED, func='lw_tail', kind='func',
         params={'s': _A, 'd2': _A, 'b2': _A, 'm': _A, 'eye': _A, 'n': _A, 'dof': _A}, ret=_A),
    dict(name='lwB2term', file=DERIVED, func='lw_b2_term', kind='func',
         params={'s2_sum': _A, 'n': _A, 's': _A}, ret=_A),
    dict(name='lwD2term', file=DERIVED, func='lw_d2_term', kind='func',
         params={'s': _A, 'm': _A, 'eye': _A}, ret=_A),
    dict(name='ssLambda', file=DERIVED, func='ss_lambda', kind='func',
         params={'num': _A, 'denom': _A}, ret=_A),
    dict(name='ssTail', file=DERIVED, func='ss_tail', kind='func',
         params={'num': _A, 'denom': _A, 's': _A, 'eye': _A, 'mask': _A}, ret=_A),
    dict(name='ssDenTerm', file=DERIVED, func='ss_den_term', kind='func', params={'s_mean': _A}, ret=_A),
    dict(name='ssMask', file=DERIVED, func='ss_mask', kind='func', params={'eye': _A}, ret=_A),
    dict(name='varNorm', file=DERIVED, func='var_norm', kind='func', params={'xtx': _A, 'dof': _A}, ret=_A),
    dict(name='dofChoiceNone', file=DERIVED, func='dof_choice', kind='func',
         params={'dof': _A, 'dof_nat': _A}, none=['dof'], ret=_A),
    dict(name='dofChoiceSome', file=DERIVED, func='dof_choice', kind='func',
         params={'dof': _A, 'dof_nat': _A}, ret=_A),
    dict(name='dofUnbChoiceNone', file=DERIVED, func='dof_choice_unb', kind='func',
         params={'dof': _A, 'n': 'Nat', 'len_values': 'Nat'}, none=['dof'], ret=_A),
    dict(name='dofUnbChoiceSome', file=DERIVED, func='dof_choice_unb', kind='func',
         params={'dof': _A, 'n': 'Nat', 'len_values': 'Nat'}, ret=_A),
    dict(name='dispatch', file=DERIVED, func='dispatch', kind='func', params={'method': 'Nat'}, ret='Nat'),
    dict(name='demeanAxis2d', file=DERIVED, func='demean_axis_2d', kind='func', params=_N0, ret='Nat'),
    dict(name='demeanAxis3d', file=DERIVED, func='demean_axis_3d', kind='func', params=_N0, ret='Nat'),
    dict(name='transpose0', file=DERIVED, func='transpose_0', kind='func', params=_N0, ret='Nat'),
    dict(name='transpose1', file=DERIVED, func='transpose_1', kind='func', params=_N0, ret='Nat'),
    dict(name='transpose2', file=DERIVED, func='transpose_2', kind='func', params=_N0, ret='Nat'),
    dict(name='stackAxis', file=DERIVED, func='stack_axis', kind='func', params=_N0, ret='Nat'),
    dict(name='swapA', file=DERIVED, func='swap_a', kind='func', params=_N0, ret='Nat'),
    dict(name='swapB', file=DERIVED, func='swap_b', kind='func', params=_N0, ret='Nat'),
    dict(name='inputWrites', file=DERIVED, func='input_writes', kind='func', params=_N0, ret='Nat'),
]
