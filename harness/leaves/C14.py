"""C14 leaves: the three degrees-of-freedom expressions of data/noise.py, regenerated
from the current source text on every run (lean/Rsa/Gen/C14.lean).

  dofResiduals n      `_check_demean`, 1-D/2-D branch : dof = matrix.shape[0] - 1
  dofTensor C R       `_check_demean`, 3-D branch     : dof of a (C, P, R) tensor
                      (conditions x channels x repetitions, as get_measurements_tensor
                      builds it) -- the property demands C * (R - 1)
  dofUnbalanced n C   `cov_from_unbalanced`           : dof = matrix.shape[0] - len(values)
"""
LEAVES = [
    dict(name='dofResiduals', file='data/noise.py', func='_check_demean', kind='assign',
         target='dof', nth=0, count=2,
         params={'matrix_shape_0': 'Nat'}, ret='Nat'),
    dict(name='dofTensor', file='data/noise.py', func='_check_demean', kind='assign',
         target='dof', nth=1, count=2,
         params={'matrix_shape_0': 'Nat', 'matrix_shape_2': 'Nat'},
         ret='Nat'),
    dict(name='dofUnbalanced', file='data/noise.py', func='cov_from_unbalanced', kind='assign',
         target='dof', nth=0, count=1,
         params={'matrix_shape_0': 'Nat', 'len_values': 'Nat'}, ret='Nat'),
]
