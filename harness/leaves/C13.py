"""leaf specs of property C13: the `- nanmin (+ 0.01)` shift that ends the correlation-type pooling
in both `pool_rdm` copies (the constant differs between the copies; the model's pooled RDM is
shifted by the generated definitions)."""
_P = {'rdm_vec': 'A', 'mn': 'A'}
_O = {'np.nanmin(rdm_vec)': 'mn'}
LEAVES = [
    dict(name='poolShiftCorr', file='util/pooling.py', func='pool_rdm', kind='assign',
         target='rdm_vec', nth=7, count=20, params=dict(_P), opaque=dict(_O), ret='A'),
    dict(name='poolShiftCorrCov', file='util/pooling.py', func='pool_rdm', kind='assign',
         target='rdm_vec', nth=13, count=20, params=dict(_P), opaque=dict(_O), ret='A'),
    dict(name='infShiftCorr', file='util/inference_util.py', func='pool_rdm', kind='assign',
         target='rdm_vec', nth=8, count=23, params=dict(_P), opaque=dict(_O), ret='A'),
    dict(name='infShiftCorrCov', file='util/inference_util.py', func='pool_rdm', kind='assign',
         target='rdm_vec', nth=14, count=23, params=dict(_P), opaque=dict(_O), ret='A'),
]
