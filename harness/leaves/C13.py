"""leaf specs of property C13.

Native py2lean leaves (translated straight from /repo's text)
  poolShiftCorr, poolShiftCorrCov, infShiftCorr, infShiftCorrCov
      the `- nanmin (+ 0.01)` shift that ends the correlation-type pooling in both `pool_rdm` copies (the
      constant differs between the copies; the model's pooled RDM is shifted by the generated definitions).

Derived leaves (round 3).  The decisions of the input parsers and the arithmetic of `_mean` / `_rescale` are
*array* statements outside py2lean's scalar subset.  This module re-reads the current source text (Python
`ast`) on every run, checks that the statements around the decision still have the shape the model
transcribes (fail closed), derives the scalar / Boolean-as-0/1 expression and writes it as a tiny Python
function into `harness/leaves/_C13_derived.py`; py2lean then translates those functions as usual.

  cmpShapeReject, utlShapeReject   `if not vector1.shape[1] == vector2.shape[1]: raise ValueError(… equal shape)`
                                   of `rdm/compare.py:_parse_input_rdms` and `util/rdm_utils.py:_parse_nan_vectors`
                                   -> 1 (raise) / 0 as a function of the two widths
  cmpNanReject, utlNanReject       `if not (np.all(m1 == m1[0]) and np.all(m2 == m1[0])): raise ValueError(… nan
                                   positions)` -> 1 / 0 as a function of the two facts "every row of stack 1
                                   (2) has the mask of the first RDM of stack 1" (1 = true).  The derivation
                                   requires *these* two `np.all(...)` texts, the mask definitions
                                   `~np.isnan(vector…)`, the boolean indexing `vector…[mask…].reshape(n, -1)`
                                   and the returned mask (`mask[0]` / `mask`) to be present unchanged.
  meanRatio                        `_mean`: `return weighted_sum / np.nansum(weights, axis=0)`; requires the
                                   statements `weights = np.array(weights, dtype=float)` (a fresh array: calls
                                   are independent), `weights[np.isnan(vectors)] = np.nan`,
                                   `weighted_sum = np.nansum(vectors * weights, axis=0)` unchanged.
  evidenceWeight                   `_rescale`: `weights = (dissim ** 2).clip(0.2 ** 2)` -> max(d ** 2, 0.2 ** 2)
  setsizeWeight                    `_rescale`: `np.tile(1 / setsize, [n_conds, 1]).T` -> 1 / setsize, with
                                   `setsize = np.isfinite(dissim).sum(axis=1)` required unchanged.
An unexpected shape of an anchor gives a function calling `__underivable__`, which py2lean reports as an
untranslatable leaf = broken obligation (then the failing-input search runs).
"""
import ast
import os

SRC = os.environ.get('RSA_REPO_SRC', '/repo/src/rsatoolbox')
HERE = os.path.dirname(os.path.abspath(__file__))
DERIVED = os.path.join(HERE, '_C13_derived.py')


class Underivable(Exception):
    pass


def _func(path, name):
    tree = ast.parse(open(os.path.join(SRC, path)).read())
    for node in ast.walk(tree):
        if isinstance(node, ast.FunctionDef) and node.name == name:
            return node
    raise Underivable(f'{path}: function {name} not found')


def _stmts(fn):
    """source text of every statement of the function (nested ones too), docstrings dropped"""
    out = []
    for node in ast.walk(fn):
        if isinstance(node, ast.stmt) and not isinstance(node, (ast.FunctionDef, ast.If, ast.While, ast.For)):
            if isinstance(node, ast.Expr) and isinstance(node.value, ast.Constant):
                continue
            out.append(ast.unparse(node))
    return out


def _require(fn, texts):
    have = _stmts(fn)
    for t in texts:
        want = ast.unparse(ast.parse(t).body[0])
        if have.count(want) != 1:
            raise Underivable(f'statement `{want}` occurs {have.count(want)} times in {fn.name} (expected once)')


def _raising_if(fn, needle):
    """the `if` statement whose body is a single `raise ValueError(<message containing needle>)`"""
    hits = []
    for node in ast.walk(fn):
        if isinstance(node, ast.If) and len(node.body) == 1 and isinstance(node.body[0], ast.Raise) \
                and not node.orelse and needle in ast.unparse(node.body[0]) \
                and ast.unparse(node.body[0]).startswith('raise ValueError('):
            hits.append(node)
    if len(hits) != 1:
        raise Underivable(f'{fn.name}: {len(hits)} `if …: raise ValueError(…{needle}…)` statements (expected one)')
    return hits[0]


class _Subst(ast.NodeTransformer):
    """replace whole sub-expressions (matched by their unparsed text) by other expressions"""

    def __init__(self, subs):
        self.subs = subs
        self.used = set()

    def visit(self, node):
        if isinstance(node, ast.expr):
            t = ast.unparse(node)
            if t in self.subs:
                self.used.add(t)
                return ast.parse(self.subs[t], mode='eval').body
        return self.generic_visit(node)


def _substituted(expr, subs):
    tr = _Subst(subs)
    new = tr.visit(ast.parse(ast.unparse(expr), mode='eval').body)
    missing = [k for k in subs if k not in tr.used]
    if missing:
        raise Underivable(f'sub-expression(s) {missing} not found in `{ast.unparse(expr)}`')
    text = ast.unparse(ast.fix_missing_locations(new))
    # nothing of the original arrays may be left
    names = {n.id for n in ast.walk(ast.parse(text, mode='eval')) if isinstance(n, ast.Name)}
    return text, names


def _decision(path, fname, needle, subs, params, required):
    fn = _func(path, fname)
    _require(fn, required)
    node = _raising_if(fn, needle)
    text, names = _substituted(node.test, subs)
    extra = names - set(params)
    if extra:
        raise Underivable(f'test `{ast.unparse(node.test)}` mentions {sorted(extra)} besides the expected operands')
    return text


def _derive():
    out = ['# DERIVED by harness/leaves/C13.py from the source tree under check - do not edit', '']

    def emit(name, params, body_fn, decision=False):
        try:
            body = body_fn()
        except Exception as exc:  # noqa: BLE001  (fail closed: any surprise = underivable)
            body = None
            why = str(exc)
        out.append(f'def {name}({", ".join(params)}):')
        if body is None:
            out.append(f'    return __underivable__({why!r})')
        elif decision:
            out.append(f'    if {body}:')
            out.append('        return 1')
            out.append('    return 0')
        else:
            out.append(f'    return {body}')
        out.append('')

    # ---- rdm/compare.py:_parse_input_rdms
    cmp_req = ['nan_idx = ~np.isnan(vector1)', 'nan_idx2 = ~np.isnan(vector2)',
               'vector1_no_nan = vector1[nan_idx].reshape(vector1.shape[0], -1)',
               'vector2_no_nan = vector2[nan_idx2].reshape(vector2.shape[0], -1)',
               'return (vector1_no_nan, vector2_no_nan, nan_idx[0])']
    emit('cmp_shape_reject', ['w1', 'w2'],
         lambda: _decision('rdm/compare.py', '_parse_input_rdms', 'equal shape',
                           {'vector1.shape[1]': 'w1', 'vector2.shape[1]': 'w2'}, ['w1', 'w2'], []), True)
    emit('cmp_nan_reject', ['all1', 'all2'],
         lambda: _decision('rdm/compare.py', '_parse_input_rdms', 'nan positions',
                           {'np.all(nan_idx == nan_idx[0])': 'all1 == 1',
                            'np.all(nan_idx2 == nan_idx[0])': 'all2 == 1'}, ['all1', 'all2'], cmp_req), True)
    # ---- util/rdm_utils.py:_parse_nan_vectors
    utl_req = ['not_nan_mask = ~np.isnan(vector1)', 'not_nan_mask2 = ~np.isnan(vector2)',
               'vector1_no_nan = vector1[not_nan_mask].reshape(vector1.shape[0], -1)',
               'vector2_no_nan = vector2[not_nan_mask2].reshape(vector2.shape[0], -1)',
               'return (vector1_no_nan, vector2_no_nan, not_nan_mask)']
    emit('utl_shape_reject', ['w1', 'w2'],
         lambda: _decision('util/rdm_utils.py', '_parse_nan_vectors', 'equal shape',
                           {'vector1.shape[1]': 'w1', 'vector2.shape[1]': 'w2'}, ['w1', 'w2'], []), True)
    emit('utl_nan_reject', ['all1', 'all2'],
         lambda: _decision('util/rdm_utils.py', '_parse_nan_vectors', 'nan positions',
                           {'np.all(not_nan_mask == not_nan_mask[0])': 'all1 == 1',
                            'np.all(not_nan_mask2 == not_nan_mask[0])': 'all2 == 1'}, ['all1', 'all2'], utl_req),
         True)

    # ---- rdm/combine.py:_mean
    def mean_ratio():
        fn = _func('rdm/combine.py', '_mean')
        _require(fn, ['weights = np.ones(vectors.shape)', 'weights = np.array(weights, dtype=float)',
                      'weights[np.isnan(vectors)] = np.nan',
                      'weighted_sum = np.nansum(vectors * weights, axis=0)'])
        rets = [n for n in ast.walk(fn) if isinstance(n, ast.Return)]
        if len(rets) != 1:
            raise Underivable(f'_mean has {len(rets)} return statements')
        text, names = _substituted(rets[0].value, {'np.nansum(weights, axis=0)': 'wsum'})
        if names != {'weighted_sum', 'wsum'}:
            raise Underivable(f'return expression `{text}` is not a function of the two sums')
        return text
    emit('mean_ratio', ['weighted_sum', 'wsum'], mean_ratio)

    # ---- rdm/combine.py:_rescale
    def weights_assign(k):
        fn = _func('rdm/combine.py', '_rescale')
        hits = [n for n in ast.walk(fn) if isinstance(n, ast.Assign) and len(n.targets) == 1
                and ast.unparse(n.targets[0]) == 'weights']
        hits.sort(key=lambda n: n.lineno)
        if len(hits) != 3:
            raise Underivable(f'_rescale assigns `weights` {len(hits)} times (expected 3)')
        _require(fn, ['weights[np.isnan(dissim)] = np.nan'])
        return fn, hits[k].value

    def evidence():
        _, v = weights_assign(0)
        if not (isinstance(v, ast.Call) and isinstance(v.func, ast.Attribute) and v.func.attr == 'clip'
                and len(v.args) == 1 and not v.keywords):
            raise Underivable(f'evidence weights `{ast.unparse(v)}` are not `<expr>.clip(<lower>)`')
        text, names = _substituted(v.func.value, {'dissim': 'd'})
        lo = ast.unparse(v.args[0])
        if names != {'d'} or any(isinstance(n, ast.Name) for n in ast.walk(v.args[0])):
            raise Underivable(f'evidence weights `{ast.unparse(v)}`: unexpected operands')
        return f'max({text}, {lo})'
    emit('evidence_weight', ['d'], evidence)

    def setsize():
        fn, v = weights_assign(1)
        _require(fn, ['setsize = np.isfinite(dissim).sum(axis=1)'])
        t = ast.unparse(v)
        pre, post = 'np.tile(', ', [n_conds, 1]).T'
        if not (t.startswith(pre) and t.endswith(post)):
            raise Underivable(f'setsize weights `{t}` are not `np.tile(<expr>, [n_conds, 1]).T`')
        inner = ast.parse(t[len(pre):-len(post)], mode='eval').body
        names = {n.id for n in ast.walk(inner) if isinstance(n, ast.Name)}
        if names != {'setsize'}:
            raise Underivable(f'setsize weights `{t}`: unexpected operands')
        return ast.unparse(inner)
    emit('setsize_weight', ['setsize'], setsize)

    text = '\n'.join(out)
    if not (os.path.exists(DERIVED) and open(DERIVED).read() == text):
        with open(DERIVED + '.tmp', 'w') as f:
            f.write(text)
        os.replace(DERIVED + '.tmp', DERIVED)


_derive()

_P = {'rdm_vec': 'A', 'mn': 'A'}
_O = {'np.nanmin(rdm_vec)': 'mn'}
_N2 = {'w1': 'Nat', 'w2': 'Nat'}
_B2 = {'all1': 'Nat', 'all2': 'Nat'}
LEAVES = [
    dict(name='poolShiftCorr', file='util/pooling.py', func='pool_rdm', kind='assign',
         target='rdm_vec', nth=7, count=20, params=dict(_P), opaque=dict(_O), ret='A'),
    dict(name='poolShiftCorrCov', file='util/pooling.py', func='pool_rdm', kind='assign',
         target='rdm_vec', nth=13, count=20, params=dict(_P), opaque=dict(_O), ret='A'),
    dict(name='infShiftCorr', file='util/inference_util.py', func='pool_rdm', kind='assign',
         target='rdm_vec', nth=8, count=23, params=dict(_P), opaque=dict(_O), ret='A'),
    dict(name='infShiftCorrCov', file='util/inference_util.py', func='pool_rdm', kind='assign',
         target='rdm_vec', nth=14, count=23, params=dict(_P), opaque=dict(_O), ret='A'),
    dict(name='cmpShapeReject', file=DERIVED, func='cmp_shape_reject', kind='func', params=dict(_N2), ret='Nat'),
    dict(name='cmpNanReject', file=DERIVED, func='cmp_nan_reject', kind='func', params=dict(_B2), ret='Nat'),
    dict(name='utlShapeReject', file=DERIVED, func='utl_shape_reject', kind='func', params=dict(_N2), ret='Nat'),
    dict(name='utlNanReject', file=DERIVED, func='utl_nan_reject', kind='func', params=dict(_B2), ret='Nat'),
    dict(name='meanRatio', file=DERIVED, func='mean_ratio', kind='func',
         params={'weighted_sum': 'A', 'wsum': 'A'}, ret='A'),
    dict(name='evidenceWeight', file=DERIVED, func='evidence_weight', kind='func', params={'d': 'A'}, ret='A'),
    dict(name='setsizeWeight', file=DERIVED, func='setsize_weight', kind='func', params={'setsize': 'A'}, ret='A'),
]
