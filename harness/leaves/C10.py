LEAVES = [
    dict(name='nFromReduced', file='util/rdm_utils.py', func='_get_n_from_reduced_vectors',
         kind='func', params={'x_shape_1': 'Nat'}, ret='Nat'),
    dict(name='nFromLength', file='util/rdm_utils.py', func='_get_n_from_length',
         kind='func', params={'n': 'Nat'}, ret='Nat'),
]

# round 2: the condensed-vector length `from_partials` allocates for `n_patterns` conditions
LEAVES.append(dict(name='fpVectorLen', file='rdm/combine.py', func='from_partials', kind='assign',
                   target='vector_len', count=1, params={'n_patterns': 'Nat'}, ret='Nat'))
