LEAVES = [
    dict(name='nFromReduced', file='util/rdm_utils.py', func='_get_n_from_reduced_vectors',
         kind='func', params={'x_shape_1': 'Nat'}, ret='Nat'),
    dict(name='nFromLength', file='util/rdm_utils.py', func='_get_n_from_length',
         kind='func', params={'n': 'Nat'}, ret='Nat'),
]
