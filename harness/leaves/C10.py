LEAVES = [
    dict(name='nFromReduced', file='util/rdm_utils.py', func='_get_n_from_reduced_vectors',
         kind='func', params={'x_shape_1': 'Nat'}, ret='Nat'),
    dict(name='nFromLength', file='util/rdm_utils.py', func='_get_n_from_length',
         kind='func', params={'n': 'Nat'}, ret='Nat'),
]

# round 2: the condensed-vector length `from_partials` allocates for `n_patterns` conditions
LEAVES.append(dict(name='fpVectorLen', file='rdm/combine.py', func='from_partials', kind='assign',
                   target='vector_len', count=1, params={'n_patterns': 'Nat'}, ret='Nat'))


# ---------------------------------------------------------------------------------------------
# round 3: leaves derived from *array* expressions of the anchored files.  As `leaves/C18.py`
# does, this module first derives (Python `ast`, from the source tree under check) the scalar
# entry-wise expression and writes it as a tiny Python function into
# `harness/leaves/_C10_derived.py`; py2lean then translates those functions as usual.  Nothing is
# cached; each derivation fails closed (`__underivable__` → untranslatable leaf = broken obligation).
#
#   b2v_len        batch_to_vectors, 3-D branch: `v = np.ndarray((n_rdm, <E>))`            -> <E>
#   pair_selected  RDMs.subset_pattern: `selection_xy = pattern_in_value[ix] <op> pattern_in_value[iy]`
#                  (`&` -> and, `|` -> or) on 0/1 mask values
#   triu_offset    the diagonal offset k of `np.triu_indices(self.n_cond, k)` in subset_pattern and of
#                  `numpy.triu_indices(len(dvals), k)` in rdms_to_df (both must be the same literal)
#   append_by_name (round 6) 1 iff `append_descriptor` reads the appended dict as `desc_new[k]` for the
#                  receiver's key k (by name, never by position) -- see `_append_by_name`
#   sel_cmp        the comparison that selects positions in subsample / subsample_pattern / bool_index
#                  (`d == i`, `desc == i`, `descriptor == v`: all must be the same operator),
#                  as a function of two integer codes
import ast as _ast
import os as _os

_SRC = _os.environ.get('RSA_REPO_SRC', '/repo/src/rsatoolbox')
_HERE = _os.path.dirname(_os.path.abspath(__file__))
DERIVED = _os.path.join(_HERE, '_C10_derived.py')


class _Underivable(Exception):
    pass


def _func(path, name):
    tree = _ast.parse(open(_os.path.join(_SRC, path)).read())
    for node in _ast.walk(tree):
        if isinstance(node, _ast.FunctionDef) and node.name == name:
            return node
    raise _Underivable(f'{path}: function {name} not found')


def _assigns(fn, target):
    hits = [n for n in _ast.walk(fn) if isinstance(n, _ast.Assign) and len(n.targets) == 1
            and _ast.unparse(n.targets[0]).strip('()') == target]
    hits.sort(key=lambda n: n.lineno)
    return hits


def _b2v_len():
    fn = _func('util/rdm_utils.py', 'batch_to_vectors')
    hits = [n for n in _assigns(fn, 'v') if isinstance(n.value, _ast.Call)
            and _ast.unparse(n.value.func) == 'np.ndarray']
    if len(hits) != 1:
        raise _Underivable(f'expected one `v = np.ndarray(...)`, found {len(hits)}')
    args = hits[0].value.args
    if len(args) != 1 or not isinstance(args[0], _ast.Tuple) or len(args[0].elts) != 2 \
            or _ast.unparse(args[0].elts[0]) != 'n_rdm':
        raise _Underivable(f'shape of v is not (n_rdm, E): `{_ast.unparse(hits[0].value)}`')
    return _ast.unparse(args[0].elts[1])


def _pair_selected():
    fn = _func('rdm/rdms.py', 'subset_pattern')
    hits = _assigns(fn, 'selection_xy')
    if len(hits) != 1:
        raise _Underivable(f'expected one assignment to selection_xy, found {len(hits)}')
    e = hits[0].value
    if not (isinstance(e, _ast.BinOp) and _ast.unparse(e.left) == 'pattern_in_value[ix]'
            and _ast.unparse(e.right) == 'pattern_in_value[iy]'):
        raise _Underivable(f'selection_xy is not `pattern_in_value[ix] <op> pattern_in_value[iy]`: '
                           f'`{_ast.unparse(e)}`')
    op = {_ast.BitAnd: 'and', _ast.BitOr: 'or'}.get(type(e.op))
    if op is None:
        raise _Underivable(f'operator {type(e.op).__name__} in selection_xy')
    ixiy = _assigns(fn, 'ix, iy')
    if len(ixiy) != 1 or not _ast.unparse(ixiy[0].value).startswith('np.triu_indices(self.n_cond'):
        raise _Underivable('`ix, iy = np.triu_indices(self.n_cond, k)` not found')
    return f'(1 if (a == 1 {op} b == 1) else 0)'


def _triu_offset():
    ks = []
    for path, name in (('rdm/rdms.py', 'subset_pattern'), ('io/pandas.py', 'rdms_to_df')):
        fn = _func(path, name)
        calls = [n for n in _ast.walk(fn) if isinstance(n, _ast.Call)
                 and _ast.unparse(n.func).endswith('triu_indices')]
        if len(calls) != 1:
            raise _Underivable(f'{name}: expected one triu_indices call, found {len(calls)}')
        c = calls[0]
        if c.keywords:
            kw = {k.arg: k.value for k in c.keywords}
            k = kw.get('k')
        else:
            k = c.args[1] if len(c.args) > 1 else _ast.Constant(value=0)
        if not (isinstance(k, _ast.Constant) and isinstance(k.value, int) and k.value >= 0):
            raise _Underivable(f'{name}: offset of triu_indices is not a literal: `{_ast.unparse(c)}`')
        ks.append(k.value)
    if len(set(ks)) != 1:
        raise _Underivable(f'triu_indices offsets differ: {ks}')
    return str(ks[0])


def _sel_cmp():
    ops = []

    def cmp_of(path, name, left_names):
        fn = _func(path, name)
        found = [n for n in _ast.walk(fn) if isinstance(n, _ast.Compare) and len(n.ops) == 1
                 and isinstance(n.left, _ast.Name) and n.left.id in left_names
                 and isinstance(n.comparators[0], _ast.Name)]
        if not found:
            raise _Underivable(f'{name}: no selecting comparison found')
        for n in found:
            ops.append(type(n.ops[0]))
    cmp_of('rdm/rdms.py', 'subsample', ('d',))
    cmp_of('rdm/rdms.py', 'subsample_pattern', ('desc',))
    cmp_of('util/descriptor_utils.py', 'bool_index', ('descriptor',))
    if len(set(ops)) != 1:
        raise _Underivable(f'selecting comparisons differ: {[o.__name__ for o in ops]}')
    sym = {_ast.Eq: '==', _ast.NotEq: '!=', _ast.Lt: '<', _ast.LtE: '<=', _ast.Gt: '>',
           _ast.GtE: '>='}.get(ops[0])
    if sym is None:
        raise _Underivable(f'comparison {ops[0].__name__}')
    return f'(1 if d {sym} v else 0)'


def _append_by_name():
    """round 6: `append_descriptor(descriptor, desc_new)` must read the appended dictionary BY NAME:
    the one loop over `descriptor.items()` assigns `descriptor[k] = list(v) + list(desc_new[k])`, the
    appended dictionary is otherwise only asked for its keys, and the receiver is otherwise only
    written at the literal key 'index'.  Anything else (zip of the two dictionaries, positional
    pairing, .update of a rebuilt dict ...) is underivable = a broken obligation (fail closed)."""
    fn = _func('util/descriptor_utils.py', 'append_descriptor')
    args = [a.arg for a in fn.args.args]
    if len(args) != 2:
        raise _Underivable(f'append_descriptor takes {args}')
    recv, new = args
    parent = {}
    for node in _ast.walk(fn):
        for ch in _ast.iter_child_nodes(node):
            parent[ch] = node
    loops = [n for n in _ast.walk(fn) if isinstance(n, _ast.For) and _ast.unparse(n.iter) == f'{recv}.items()']
    if len(loops) != 1:
        raise _Underivable(f'expected one loop over {recv}.items(), found {len(loops)}')
    lp = loops[0]
    if not (isinstance(lp.target, _ast.Tuple) and len(lp.target.elts) == 2
            and all(isinstance(e, _ast.Name) for e in lp.target.elts)):
        raise _Underivable(f'loop target `{_ast.unparse(lp.target)}`')
    k, v = (e.id for e in lp.target.elts)
    if len(lp.body) != 1 or not isinstance(lp.body[0], _ast.Assign) or lp.orelse:
        raise _Underivable('the loop body is not one assignment')
    st = lp.body[0]
    if len(st.targets) != 1 or _ast.unparse(st.targets[0]) != f'{recv}[{k}]' \
            or _ast.unparse(st.value) != f'list({v}) + list({new}[{k}])':
        raise _Underivable(f'the loop assigns `{_ast.unparse(st)}`, not '
                           f'`{recv}[{k}] = list({v}) + list({new}[{k}])`')
    for node in _ast.walk(fn):
        if isinstance(node, _ast.Name) and node.id == new:
            par = parent.get(node)
            by_name = isinstance(par, _ast.Subscript) and par.value is node and parent.get(par) is not None \
                and any(par is x for x in _ast.walk(st))
            keys_only = isinstance(par, _ast.Attribute) and par.attr == 'keys'
            if not (by_name or keys_only):
                raise _Underivable(f'{new} is also used as `{_ast.unparse(par)}` (line {node.lineno})')
        if isinstance(node, _ast.Name) and node.id == recv and isinstance(node.ctx, _ast.Load):
            par = parent.get(node)
            if isinstance(par, _ast.Attribute) and par.attr not in ('keys', 'items'):
                raise _Underivable(f'{recv}.{par.attr} is used (line {node.lineno})')
            if isinstance(par, _ast.Subscript) and par.value is node and isinstance(par.ctx, (_ast.Store, _ast.Del)) \
                    and par is not st.targets[0] and _ast.unparse(par.slice) != "'index'":
                raise _Underivable(f'`{_ast.unparse(par)}` is written outside the loop (line {node.lineno})')
    return '1'


def _derive():
    out = ['# DERIVED by harness/leaves/C10.py from the source tree under check - do not edit', '']

    def emit(name, params, body_fn):
        try:
            body = body_fn()
        except Exception as exc:  # noqa: BLE001  (fail closed)
            body = '__underivable__(' + repr(str(exc)) + ')'
        out.append(f'def {name}({", ".join(params)}):')
        out.append(f'    return {body}')
        out.append('')
    emit('b2v_len', ['n_cond'], _b2v_len)
    emit('pair_selected', ['a', 'b'], _pair_selected)
    emit('triu_offset', [], _triu_offset)
    emit('sel_cmp', ['d', 'v'], _sel_cmp)
    emit('append_by_name', [], _append_by_name)
    text = '\n'.join(out)
    if not (_os.path.exists(DERIVED) and open(DERIVED).read() == text):
        with open(DERIVED + '.tmp', 'w') as f:
            f.write(text)
        _os.replace(DERIVED + '.tmp', DERIVED)


_derive()

LEAVES += [
    dict(name='b2vLen', file=DERIVED, func='b2v_len', kind='func', params={'n_cond': 'Nat'}, ret='Nat'),
    dict(name='pairSelected', file=DERIVED, func='pair_selected', kind='func',
         params={'a': 'Nat', 'b': 'Nat'}, ret='Nat'),
    dict(name='triuOffset', file=DERIVED, func='triu_offset', kind='func', params={}, ret='Nat'),
    dict(name='selCmp', file=DERIVED, func='sel_cmp', kind='func', params={'d': 'Int', 'v': 'Int'}, ret='Nat'),
    # round 6: 1 = `append_descriptor` looks the appended dictionary up by the receiver's key NAME
    dict(name='appendByName', file=DERIVED, func='append_by_name', kind='func', params={}, ret='Nat'),
]
