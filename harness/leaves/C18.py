"""Leaf specs for C18 (simulation).

Native py2lean leaves (translated straight from /repo's text):
  noiseScale   make_dataset: `epsilon = ss.norm.ppf(epsilon) * np.sqrt(noise)`   (opaque calls)
  exactScale   make_signal:  `true_U = Q.transpose() * np.sqrt(n_channel)`       (opaque calls)
The Gram form and the normalisation of `calc_rdm_euclidean` are C01's leaves
(`Rsa.Gen.C01.euclidEntry`, `euclidNorm`), used by `Rsa.Core.Sim` directly.

The remaining leaves are *array* expressions (np.kron, np.identity, `@`, a masked assignment)
outside the scalar subset of py2lean.  For those this module first *derives*, from the current
source text (Python `ast`), the scalar entry-wise expression and writes it as a tiny Python
function into `harness/leaves/_C18_derived.py`; py2lean then translates those functions as
usual (spec['file'] is that absolute path; decimal literals such as -0.5 and 1e-15 are handled
by py2lean natively).  Nothing is cached: the derived file is rewritten on every run.

Derivations (each fails closed: an unexpected shape of the anchor gives a function calling
`__underivable__`, which py2lean reports as an untranslatable leaf = broken obligation):

  make_design   cond_vec = np.kron(A, B), part_vec = np.kron(A, B)
                entry k of kron(a, b) is a[k // len(b)] * b[k % len(b)];
                a, b are np.ones((n,)) (entry 1) or np.array(range(0, n)) (entry = index)
  centering     np.identity(size) - np.ones(size) / size        -> delta - 1 / size
  make_dataset  G = -0.5 * (H @ D @ H)                          -> -0.5 * hdh
                data = Zcond @ true_U * np.sqrt(signal) + epsilon -> zu * sqrt_signal + eps
  make_signal   eigval[eigval < 1e-15] = 0                      -> 0 if eigval < 1e-15 else eigval
                n_channel raised to n_cond if smaller             -> n_cond if n_cond > n_channel else n_channel

Round 4 (state that survives a call), both fail closed:
  input_writes  number of statements in every function of simulation/sim.py, in `indicator` / `centering`
                of util/matrix.py and in the `predict` methods of the four model classes that store into
                (a view of) an argument or into `self`: subscript / attribute stores, augmented assignments,
                `del`, mutating method calls, `out=`; `model.predict(theta)` counts as a view of the model
                (ModelFixed.predict hands out `self.rdm`).  0 on a tree whose simulation leaves its
                arguments alone.
  module_state  number of places where those functions could keep something between calls: module-level
                statements of sim.py other than imports / function definitions / the docstring, `global` /
                `nonlocal`, decorators (lru_cache ...), mutable default arguments, stores through a name that
                is not local to the function (module dictionaries, function attributes).  0 on a tree
                without hidden state.

Round 7 (a fresh signal on the exact branch), both fail closed:
  exact_draws / random_draws
                number of np.random.uniform blocks on the path of make_signal's exact / random branch whose
                result reaches the returned signal (liveness over the assignments; exact branch: through
                `np.linalg.qr(true_U.transpose())`).  1 / 1 today; 0 for a branch starting from a constant
                frame; underivable when sim.py reseeds / uses its own generator.
"""
import ast
import os
from fractions import Fraction

SRC = os.environ.get('RSA_REPO_SRC', '/repo/src/rsatoolbox')
HERE = os.path.dirname(os.path.abspath(__file__))
DERIVED = os.path.join(HERE, '_C18_derived.py')


class Underivable(Exception):
    pass


def _func(path, name):
    tree = ast.parse(open(os.path.join(SRC, path)).read())
    for node in ast.walk(tree):
        if isinstance(node, ast.FunctionDef) and node.name == name:
            return node
    raise Underivable(f'{path}: function {name} not found')


def _assigns(fn, target):
    hits = [n for n in ast.walk(fn) if isinstance(n, ast.Assign) and len(n.targets) == 1
            and isinstance(n.targets[0], ast.Name) and n.targets[0].id == target]
    hits.sort(key=lambda n: n.lineno)
    return hits


class _Subst(ast.NodeTransformer):
    """replace whole sub-expressions (matched by their unparsed text) by names / literals"""

    def __init__(self, subs):
        self.subs = subs
        self.used = set()

    def visit(self, node):
        if isinstance(node, ast.expr):
            t = ast.unparse(node)
            if t in self.subs:
                self.used.add(t)
                v = self.subs[t]
                if isinstance(v, int):
                    return ast.Constant(value=v)
                return ast.Name(id=v, ctx=ast.Load())
        return self.generic_visit(node)


def _substituted(expr, subs):
    tr = _Subst(subs)
    new = tr.visit(ast.parse(ast.unparse(expr), mode='eval').body)
    missing = [k for k in subs if k not in tr.used]
    if missing:
        raise Underivable(f'sub-expression(s) {missing} not found in `{ast.unparse(expr)}`')
    return ast.unparse(ast.fix_missing_locations(new))


def _kron_entry(fn, target):
    """scalar entry k of `target = np.kron(A, B)` inside make_design"""
    env = {}
    for node in fn.body:
        if isinstance(node, ast.Assign) and len(node.targets) == 1 \
                and isinstance(node.targets[0], ast.Name):
            env[node.targets[0].id] = node.value

    def kind(e):
        # ('ones', n) | ('range', start, n)
        if isinstance(e, ast.Name) and e.id in env:
            return kind(env[e.id])
        t = ast.unparse(e)
        if isinstance(e, ast.Call):
            f = ast.unparse(e.func)
            if f == 'np.ones' and len(e.args) == 1:
                a = e.args[0]
                if isinstance(a, ast.Tuple) and len(a.elts) == 1:
                    a = a.elts[0]
                if isinstance(a, ast.Name):
                    return ('ones', a.id)
            if f == 'np.array' and len(e.args) == 1 and isinstance(e.args[0], ast.Call) \
                    and ast.unparse(e.args[0].func) == 'range':
                r = e.args[0].args
                if len(r) == 1 and isinstance(r[0], ast.Name):
                    return ('range', 0, r[0].id)
                if len(r) == 2 and isinstance(r[0], ast.Constant) and isinstance(r[1], ast.Name) \
                        and isinstance(r[0].value, int) and r[0].value >= 0:
                    return ('range', r[0].value, r[1].id)
            if f == 'np.arange' and len(e.args) == 1 and isinstance(e.args[0], ast.Name):
                return ('range', 0, e.args[0].id)
        raise Underivable(f'kron operand `{t}` is neither np.ones((n,)) nor np.array(range(0, n))')

    hits = _assigns(fn, target)
    if len(hits) != 1:
        raise Underivable(f'expected one assignment to {target}, found {len(hits)}')
    call = hits[0].value
    if not (isinstance(call, ast.Call) and ast.unparse(call.func) == 'np.kron' and len(call.args) == 2):
        raise Underivable(f'{target} is not np.kron(A, B): `{ast.unparse(call)}`')
    a, b = kind(call.args[0]), kind(call.args[1])
    len_b = b[-1] if b[0] == 'ones' else (b[2] if b[1] == 0 else None)
    if len_b is None:
        raise Underivable('range with non-zero start as second kron operand')

    def entry(k, idx):
        if k[0] == 'ones':
            return None
        return idx if k[1] == 0 else f'({k[1]} + {idx})'
    fa = entry(a, f'(k // {len_b})')
    fb = entry(b, f'(k % {len_b})')
    fs = [f for f in (fa, fb) if f is not None]
    return ' * '.join(fs) if fs else '1'


# ---- round 4: writes into arguments and module-level state -------------------------------------------
_VIEW_METHODS = {'transpose', 'reshape', 'swapaxes', 'view', 'ravel', 'squeeze', 'items', 'values', 'keys',
                 'get', 'flat', 'predict', 'get_vectors', 'astype_view', 'T'}
_VIEW_FUNCS = {'np.asarray', 'np.asanyarray', 'np.transpose', 'np.swapaxes', 'np.reshape', 'np.squeeze',
               'np.ravel', 'np.atleast_1d', 'np.atleast_2d', 'np.atleast_3d', 'np.expand_dims',
               'np.diagonal', 'np.broadcast_to', 'np.ascontiguousarray', 'np.asfortranarray', 'np.triu',
               'enumerate', 'zip', 'iter', 'reversed'}
_MUTATORS = {'sort', 'fill', 'resize', 'put', 'itemset', 'setfield', 'partition', 'append', 'extend',
             'insert', 'remove', 'pop', 'popitem', 'clear', 'update', 'setdefault', 'reverse', 'setflags',
             '__setitem__', '__setattr__', '__delitem__'}
_MUT_FUNCS = {'np.copyto', 'np.put', 'np.put_along_axis', 'np.putmask', 'np.place', 'np.fill_diagonal',
              'setattr', 'delattr', 'np.divide.at', 'np.add.at'}
_SCALAR_PARAMS = {'n_cond', 'n_part', 'n_channel', 'n_sim', 'signal', 'noise', 'use_exact_signal',
                  'use_same_signal', 'make_exact', 'size', 'positive'}
WRITE_SITES = []
STATE_SITES = []


def _is_alias(e, alias):
    if isinstance(e, ast.Name):
        return e.id in alias
    if isinstance(e, (ast.Attribute, ast.Subscript, ast.Starred)):
        return _is_alias(e.value, alias)
    if isinstance(e, ast.Call):
        if isinstance(e.func, ast.Attribute) and e.func.attr in _VIEW_METHODS and _is_alias(e.func.value, alias):
            return True
        if ast.unparse(e.func) in _VIEW_FUNCS and any(_is_alias(a, alias) for a in e.args):
            return True
    if isinstance(e, (ast.Tuple, ast.List)):
        return any(_is_alias(x, alias) for x in e.elts)
    if isinstance(e, ast.IfExp):
        return _is_alias(e.body, alias) or _is_alias(e.orelse, alias)
    if isinstance(e, ast.Dict):
        return any(_is_alias(x, alias) for x in e.values if x is not None)
    return False


def _tnames(t):
    if isinstance(t, ast.Name):
        return [t.id]
    if isinstance(t, (ast.Tuple, ast.List)):
        return [n for e in t.elts for n in _tnames(e)]
    if isinstance(t, ast.Starred):
        return _tnames(t.value)
    return []


def _root(e):
    while isinstance(e, (ast.Attribute, ast.Subscript, ast.Starred)):
        e = e.value
    if isinstance(e, ast.Call) and isinstance(e.func, ast.Attribute):
        return _root(e.func.value)
    return e.id if isinstance(e, ast.Name) else None


def _store_sites(fn, pred):
    """statements of fn that store through an expression e with pred(e)"""
    sites = []
    for n in ast.walk(fn):
        if isinstance(n, ast.AugAssign) and pred(n.target, True):
            sites.append((n.lineno, ast.unparse(n)))
        if isinstance(n, (ast.Assign, ast.AnnAssign)):
            for t in (n.targets if isinstance(n, ast.Assign) else [n.target]):
                for tt in ([t] if not isinstance(t, (ast.Tuple, ast.List)) else t.elts):
                    if isinstance(tt, (ast.Subscript, ast.Attribute)) and pred(tt.value, False):
                        sites.append((n.lineno, ast.unparse(n)))
        if isinstance(n, ast.Delete):
            for t in n.targets:
                if isinstance(t, (ast.Subscript, ast.Attribute)) and pred(t.value, False):
                    sites.append((n.lineno, ast.unparse(n)))
        if isinstance(n, ast.Call):
            if isinstance(n.func, ast.Attribute) and n.func.attr in _MUTATORS and pred(n.func.value, False):
                sites.append((n.lineno, ast.unparse(n)))
            if ast.unparse(n.func) in _MUT_FUNCS and n.args and pred(n.args[0], False):
                sites.append((n.lineno, ast.unparse(n)))
            for k in n.keywords:
                if k.arg == 'out' and pred(k.value, False):
                    sites.append((n.lineno, ast.unparse(n)))
    return sorted(set(sites))


def _writes_in(fn, where, only_self=False):
    params = [a.arg for a in fn.args.posonlyargs + fn.args.args + fn.args.kwonlyargs]
    if fn.args.vararg:
        params.append(fn.args.vararg.arg)
    if fn.args.kwarg:
        params.append(fn.args.kwarg.arg)
    alias = ({'self'} & set(params)) if only_self else (set(params) - _SCALAR_PARAMS)
    for _ in range(8):           # flow-insensitive closure
        before = len(alias)
        for n in ast.walk(fn):
            if isinstance(n, ast.Assign) and _is_alias(n.value, alias):
                for t in n.targets:
                    alias.update(_tnames(t))
            if isinstance(n, (ast.For, ast.comprehension)) and _is_alias(n.iter, alias):
                alias.update(_tnames(n.target))
            if isinstance(n, ast.NamedExpr) and _is_alias(n.value, alias):
                alias.update(_tnames(n.target))
        if len(alias) == before:
            break

    def pred(e, aug):
        if aug and isinstance(e, ast.Name):
            return e.id in alias          # `x /= s` on an array argument writes into it
        return _is_alias(e, alias)
    return [f'{where}:{ln}: {txt}' for ln, txt in _store_sites(fn, pred)]


def _locals_of(fn):
    loc = {a.arg for a in fn.args.posonlyargs + fn.args.args + fn.args.kwonlyargs}
    if fn.args.vararg:
        loc.add(fn.args.vararg.arg)
    if fn.args.kwarg:
        loc.add(fn.args.kwarg.arg)
    for n in ast.walk(fn):
        if isinstance(n, ast.Name) and isinstance(n.ctx, ast.Store):
            loc.add(n.id)
    return loc


def _state_in(fn, where):
    sites = []
    for d in fn.decorator_list:
        sites.append(f'{where}:{d.lineno}: decorator @{ast.unparse(d)}')
    for d in fn.args.defaults + [k for k in fn.args.kw_defaults if k is not None]:
        if not isinstance(d, (ast.Constant, ast.UnaryOp, ast.Name, ast.Attribute)):
            sites.append(f'{where}:{d.lineno}: mutable default `{ast.unparse(d)}`')
    glob = set()
    for n in ast.walk(fn):
        if isinstance(n, (ast.Global, ast.Nonlocal)):
            sites.append(f'{where}:{n.lineno}: {ast.unparse(n)}')
            glob.update(n.names)
        if isinstance(n, (ast.FunctionDef, ast.Lambda, ast.ClassDef)) and n is not fn \
                and isinstance(n, (ast.FunctionDef, ast.ClassDef)):
            sites.append(f'{where}:{n.lineno}: nested definition {n.name}')
    loc = _locals_of(fn) - glob

    def pred(e, aug):
        r = _root(e)
        return r is not None and r not in loc
    sites += [f'{where}:{ln}: store through a non-local name: {txt}' for ln, txt in _store_sites(fn, pred)]
    return sites


def _scope():
    """(function node, label, only_self) for every function the simulation runs through"""
    out = []
    tree = ast.parse(open(os.path.join(SRC, 'simulation/sim.py')).read())
    for n in tree.body:
        if isinstance(n, ast.FunctionDef):
            out.append((n, f'simulation/sim.py:{n.name}', False))
    for name in ('indicator', 'centering'):
        out.append((_func('util/matrix.py', name), f'util/matrix.py:{name}', False))
    mtree = ast.parse(open(os.path.join(SRC, 'model/model.py')).read())
    for cls in ('ModelFixed', 'ModelSelect', 'ModelWeighted', 'ModelInterpolate'):
        cn = [n for n in mtree.body if isinstance(n, ast.ClassDef) and n.name == cls]
        if len(cn) != 1:
            raise Underivable(f'class {cls} not found in model/model.py')
        pn = [n for n in cn[0].body if isinstance(n, ast.FunctionDef) and n.name == 'predict']
        if len(pn) != 1:
            raise Underivable(f'{cls}.predict not found')
        out.append((pn[0], f'model/model.py:{cls}.predict', True))
    names = {lab.split(':')[1] for _, lab, _ in out}
    if not {'make_design', 'make_dataset', 'make_signal'} <= names:
        raise Underivable('make_design / make_dataset / make_signal not all found in simulation/sim.py')
    return out, tree


def _input_writes():
    del WRITE_SITES[:]
    fns, _ = _scope()
    for fn, lab, only_self in fns:
        WRITE_SITES.extend(_writes_in(fn, lab, only_self))
    return str(len(WRITE_SITES))


def _module_state():
    del STATE_SITES[:]
    fns, tree = _scope()
    for k, n in enumerate(tree.body):
        if isinstance(n, (ast.Import, ast.ImportFrom, ast.FunctionDef)):
            continue
        if k == 0 and isinstance(n, ast.Expr) and isinstance(n.value, ast.Constant) and isinstance(n.value.value, str):
            continue
        STATE_SITES.append(f'simulation/sim.py:{n.lineno}: module-level statement `{ast.unparse(n)[:70]}`')
    for fn, lab, _ in fns:
        STATE_SITES.extend(_state_in(fn, lab))
    return str(len(STATE_SITES))


def _derive():
    out = ['# DERIVED by harness/leaves/C18.py from the source tree under check - do not edit', '']

    def emit(name, params, body_fn):
        try:
            body = body_fn()
        except Exception as exc:  # noqa: BLE001  (fail closed: any surprise = underivable)
            body = '__underivable__(' + repr(str(exc)) + ')'
        out.append(f'def {name}({", ".join(params)}):')
        out.append(f'    return {body}')
        out.append('')

    emit('cond_index', ['k', 'n_cond', 'n_part'],
         lambda: _kron_entry(_func('simulation/sim.py', 'make_design'), 'cond_vec'))
    emit('part_index', ['k', 'n_cond', 'n_part'],
         lambda: _kron_entry(_func('simulation/sim.py', 'make_design'), 'part_vec'))

    def centering():
        hits = _assigns(_func('util/matrix.py', 'centering'), 'centering_matrix')
        if len(hits) != 1:
            raise Underivable('expected one assignment to centering_matrix')
        return _substituted(hits[0].value, {'np.identity(size)': 'delta', 'np.ones(size)': 1})
    emit('centering_entry', ['delta', 'size'], centering)

    def gscale():
        hits = _assigns(_func('simulation/sim.py', 'make_dataset'), 'G')
        if len(hits) != 1:
            raise Underivable('expected one assignment to G')
        return _substituted(hits[0].value, {'H @ D @ H': 'hdh'})
    emit('g_scale', ['hdh'], gscale)

    def data_entry():
        hits = _assigns(_func('simulation/sim.py', 'make_dataset'), 'data')
        if len(hits) != 1:
            raise Underivable('expected one assignment to data')
        return _substituted(hits[0].value, {'Zcond @ true_U': 'zu', 'np.sqrt(signal)': 'sqrt_signal',
                                            'epsilon': 'eps'})
    emit('data_entry', ['zu', 'sqrt_signal', 'eps'], data_entry)

    def eig_clamp():
        fn = _func('simulation/sim.py', 'make_signal')
        hits = [n for n in ast.walk(fn) if isinstance(n, ast.Assign) and len(n.targets) == 1
                and isinstance(n.targets[0], ast.Subscript)
                and ast.unparse(n.targets[0].value) == 'eigval']
        if len(hits) != 1:
            raise Underivable(f'expected one masked assignment to eigval, found {len(hits)}')
        mask = hits[0].targets[0].slice
        if not (isinstance(mask, ast.Compare) and ast.unparse(mask.left) == 'eigval'):
            raise Underivable(f'mask `{ast.unparse(mask)}` is not a comparison on eigval')
        return f'({ast.unparse(hits[0].value)} if {ast.unparse(mask)} else eigval)'
    emit('eig_clamp', ['eigval'], eig_clamp)

    def gen_width():
        fn = _func('simulation/sim.py', 'make_signal')
        ifs = [n for n in fn.body if isinstance(n, ast.If) and 'n_channel_final' in ast.unparse(n)
               and any(isinstance(b, ast.Assign) and ast.unparse(b.targets[0]) == 'n_channel' for b in n.body)]
        if len(ifs) != 1:
            raise Underivable('the `if n_cond > n_channel:` block of make_signal was not found')
        node = ifs[0]
        raised = [b for b in node.body if isinstance(b, ast.Assign) and ast.unparse(b.targets[0]) == 'n_channel']
        if any(isinstance(b, ast.Assign) and ast.unparse(b.targets[0]) == 'n_channel' for b in node.orelse):
            raise Underivable('n_channel is also reassigned in the else branch')
        return f'({ast.unparse(raised[0].value)} if {ast.unparse(node.test)} else n_channel)'
    emit('gen_width', ['n_cond', 'n_channel'], gen_width)

    # ---- round 3: more entry formulas -------------------------------------------------------
    def matmul_term(func, target, nth, left, right, lname, rname):
        """the summand of `target = left @ right` (the nth assignment to target whose value is a
        matrix product): `left[i, l] * right[l, j]`.  Operand order and bare names are part of the
        anchor: a transposed or swapped operand is underivable (-> broken obligation)."""
        def run():
            fn = _func('simulation/sim.py', func)
            hits = [h for h in _assigns(fn, target) if isinstance(h.value, ast.BinOp)
                    and isinstance(h.value.op, ast.MatMult)]
            if len(hits) <= nth:
                raise Underivable(f'matrix product #{nth} assigned to {target} not found')
            v = hits[nth].value
            if not (isinstance(v.left, ast.Name) and isinstance(v.right, ast.Name)):
                raise Underivable(f'operands of `{ast.unparse(v)}` are not bare names')
            if (v.left.id, v.right.id) != (left, right):
                raise Underivable(f'`{ast.unparse(v)}` is not `{left} @ {right}`')
            return f'{lname} * {rname}'
        return run
    # make_signal: true_U = true_U @ chol_channel ; true_U = (chol_G @ true_U)
    emit('signal_chan_term', ['u_il', 'chol_lj'],
         matmul_term('make_signal', 'true_U', 0, 'true_U', 'chol_channel', 'u_il', 'chol_lj'))
    emit('signal_mix_term', ['cholg_il', 'u_lj'],
         matmul_term('make_signal', 'true_U', 1, 'chol_G', 'true_U', 'cholg_il', 'u_lj'))
    # make_dataset: epsilon = epsilon @ noise_chol_channel ; epsilon = noise_chol_trial @ epsilon
    emit('noise_chan_term', ['eps_ol', 'chol_lc'],
         matmul_term('make_dataset', 'epsilon', 0, 'epsilon', 'noise_chol_channel', 'eps_ol', 'chol_lc'))
    emit('noise_trial_term', ['chol_ol', 'eps_lc'],
         matmul_term('make_dataset', 'epsilon', 1, 'noise_chol_trial', 'epsilon', 'chol_ol', 'eps_lc'))

    def zu_term():
        # the signal part of `data = Zcond @ true_U * ... + ...`
        hits = _assigns(_func('simulation/sim.py', 'make_dataset'), 'data')
        if len(hits) != 1:
            raise Underivable('expected one assignment to data')
        prods = [n for n in ast.walk(hits[0].value) if isinstance(n, ast.BinOp) and isinstance(n.op, ast.MatMult)]
        if len(prods) != 1 or ast.unparse(prods[0]) != 'Zcond @ true_U':
            raise Underivable(f'signal part of data is not `Zcond @ true_U`: `{ast.unparse(hits[0].value)}`')
        # Zcond itself: the indicator matrix of a 1-D cond_vec, a 2-D cond_vec unchanged
        fn = _func('simulation/sim.py', 'make_dataset')
        zs = [ast.unparse(h.value) for h in _assigns(fn, 'Zcond')]
        if zs != ['rsatoolbox.util.matrix.indicator(cond_vec)', 'cond_vec']:
            raise Underivable(f'Zcond is assigned {zs}')
        tests = [ast.unparse(n.test) for n in ast.walk(fn) if isinstance(n, ast.If)
                 and any(isinstance(b, ast.Assign) and ast.unparse(b.targets[0]) == 'Zcond' for b in n.body)]
        if tests != ['cond_vec.ndim == 1', 'cond_vec.ndim == 2']:
            raise Underivable(f'Zcond dispatch tests {tests}')
        return 'z_oa * u_ac'
    emit('design_term', ['z_oa', 'u_ac'], zu_term)

    def row_center():
        fn = _func('simulation/sim.py', 'make_signal')
        hits = [h for h in _assigns(fn, 'true_U') if 'np.mean' in ast.unparse(h.value)]
        if len(hits) != 1:
            raise Underivable('the row-centring assignment of make_signal was not found')
        return _substituted(hits[0].value, {'np.mean(true_U, axis=1, keepdims=True)': 'row_mean', 'true_U': 'u'})
    emit('row_center_entry', ['u', 'row_mean'], row_center)

    def desc(key):
        def run():
            fn = _func('simulation/sim.py', 'make_dataset')
            hits = _assigns(fn, 'des')
            if len(hits) != 1 or not isinstance(hits[0].value, ast.Dict):
                raise Underivable('expected one dict assignment to des')
            d = hits[0].value
            keys = [k.value if isinstance(k, ast.Constant) else None for k in d.keys]
            if sorted(map(str, keys)) != ['model', 'noise', 'signal', 'theta']:
                raise Underivable(f'descriptor keys {keys}')
            other = {'model': 'model.name', 'theta': 'theta'}
            for k, v in zip(keys, d.values):
                if k in other and ast.unparse(v) != other[k]:
                    raise Underivable(f'descriptor {k} is `{ast.unparse(v)}`, not `{other[k]}`')
            # the datasets must be built with these dicts
            calls = [n for n in ast.walk(fn) if isinstance(n, ast.Call) and ast.unparse(n.func).endswith('Dataset')]
            if len(calls) != 1:
                raise Underivable('expected one Dataset(...) call')
            kws = {k.arg: ast.unparse(k.value) for k in calls[0].keywords}
            if kws != {'obs_descriptors': 'obs_des', 'descriptors': 'des'} or len(calls[0].args) != 1 \
                    or ast.unparse(calls[0].args[0]) != 'data':
                raise Underivable(f'Dataset call `{ast.unparse(calls[0])}`')
            od = _assigns(fn, 'obs_des')
            if len(od) != 1 or ast.unparse(od[0].value) != "{'cond_vec': cond_vec}":
                raise Underivable('obs_des is not {"cond_vec": cond_vec}')
            return ast.unparse(d.values[keys.index(key)])
        return run
    emit('desc_signal', ['signal', 'noise'], desc('signal'))
    emit('desc_noise', ['signal', 'noise'], desc('noise'))

    def indicator_entry():
        fn = _func('util/matrix.py', 'indicator')
        loops = [n for n in fn.body if isinstance(n, ast.For)]
        if len(loops) != 1 or len(loops[0].body) != 1 or ast.unparse(loops[0].target) != 'i' \
                or ast.unparse(loops[0].iter) != 'np.arange(n_unique)':
            raise Underivable('the column loop of indicator was not found')
        st = loops[0].body[0]
        if not (isinstance(st, ast.Assign) and isinstance(st.targets[0], ast.Subscript)
                and ast.unparse(st.targets[0].value) == 'indicator_matrix'):
            raise Underivable(f'loop body `{ast.unparse(st)}`')
        idx = st.targets[0].slice
        if not (isinstance(idx, ast.Tuple) and len(idx.elts) == 2 and ast.unparse(idx.elts[1]) == 'i'
                and isinstance(idx.elts[0], ast.Compare)):
            raise Underivable(f'index `{ast.unparse(idx)}`')
        init = _assigns(fn, 'indicator_matrix')
        if len(init) != 1 or ast.unparse(init[0].value) != 'np.zeros((rows, n_unique))':
            raise Underivable('indicator_matrix is not initialised with zeros((rows, n_unique))')
        mask = _substituted(idx.elts[0], {'index_vector': 'label', 'c_unique[i]': 'uniq_i'})
        return f'({ast.unparse(st.value)} if {mask} else 0)'
    emit('indicator_entry', ['label', 'uniq_i'], indicator_entry)

    def draw_shape(func, which):
        def run():
            fn = _func('simulation/sim.py', func)
            calls = [n for n in ast.walk(fn) if isinstance(n, ast.Call)
                     and ast.unparse(n.func) == 'np.random.uniform']
            if len(calls) != 1:
                raise Underivable(f'expected one np.random.uniform call in {func}')
            c = calls[0]
            if [ast.unparse(a) for a in c.args] != ['0', '1'] or len(c.keywords) != 1 or c.keywords[0].arg != 'size':
                raise Underivable(f'draw `{ast.unparse(c)}` is not uniform(0, 1, size=...)')
            sz = c.keywords[0].value
            if not (isinstance(sz, ast.Tuple) and len(sz.elts) == 2):
                raise Underivable('size is not a pair')
            return ast.unparse(sz.elts[which])
        return run
    emit('noise_draw_rows', ['n_obs', 'n_channel'], draw_shape('make_dataset', 0))
    emit('noise_draw_cols', ['n_obs', 'n_channel'], draw_shape('make_dataset', 1))
    emit('signal_draw_rows', ['n_cond', 'n_channel'], draw_shape('make_signal', 0))
    emit('signal_draw_cols', ['n_cond', 'n_channel'], draw_shape('make_signal', 1))

    # ---- round 7: the exact branch consumes a draw ---------------------------------------------
    def signal_draws(branch):
        """number of `np.random.uniform` draw blocks on the path of make_signal's exact / random branch
        whose result reaches the returned signal (exact: through the argument of `np.linalg.qr`).  1 on a
        tree that draws a fresh signal on that branch, 0 if the branch starts from something else (a fixed
        frame, a constant); anything unexpected (reseeding, own generators, several draws) is underivable."""
        def run():
            tree = ast.parse(open(os.path.join(SRC, 'simulation/sim.py')).read())
            for n in ast.walk(tree):
                if isinstance(n, ast.Call):
                    f = ast.unparse(n.func)
                    if any(w in f for w in ('seed', 'default_rng', 'RandomState', 'set_state', 'Generator',
                                            'getstate', 'get_state', 'setstate')):
                        raise Underivable(f'sim.py touches the random generator state: `{ast.unparse(n)[:60]}`')
            fn = _func('simulation/sim.py', 'make_signal')
            ifs = [k for k, n in enumerate(fn.body) if isinstance(n, ast.If) and ast.unparse(n.test) == 'make_exact']
            if len(ifs) != 1:
                raise Underivable('expected one top-level `if make_exact:` in make_signal')
            node = fn.body[ifs[0]]
            is_draw = lambda n: (isinstance(n, ast.Assign) and isinstance(n.value, ast.Call)
                                 and ast.unparse(n.value.func) == 'np.random.uniform')
            all_draws = [n for n in ast.walk(fn) if isinstance(n, ast.Call)
                         and ast.unparse(n.func).startswith('np.random.')]
            if len(all_draws) != 1:
                raise Underivable(f'expected one np.random.* call in make_signal, found {len(all_draws)}')
            path = list(fn.body[:ifs[0]]) + list(node.body if branch == 'exact' else node.orelse) \
                + list(fn.body[ifs[0] + 1:])
            for st in path:
                if isinstance(st, (ast.For, ast.While, ast.Try, ast.With)) or \
                        (isinstance(st, ast.If) and any(isinstance(x, ast.Call) and
                                                        ast.unparse(x.func).startswith('np.random.')
                                                        for x in ast.walk(st))):
                    raise Underivable(f'unexpected compound statement on the {branch} path')
            live = set()          # names that carry the draw
            count = 0
            for st in path:
                if isinstance(st, ast.If):
                    # conditional post-processing (chol_channel, n_channel_final): must keep the signal live
                    for b in ast.walk(st):
                        if 'true_U' in live and isinstance(b, ast.Assign) and 'true_U' in _tnames(b.targets[0]) and \
                                not ({x.id for x in ast.walk(b.value) if isinstance(x, ast.Name)} & live):
                            raise Underivable(f'`{ast.unparse(b)[:60]}` drops the signal')
                    continue
                if not isinstance(st, ast.Assign) or len(st.targets) != 1:
                    continue
                names = {x.id for x in ast.walk(st.value) if isinstance(x, ast.Name)}
                tn = set(_tnames(st.targets[0]))
                if is_draw(st):
                    if tn != {'true_U'}:
                        raise Underivable(f'the draw is assigned to {sorted(tn)}')
                    count += 1
                    live |= tn
                elif names & live:
                    if branch == 'exact' and 'Q' in tn:
                        if ast.unparse(st.value) != 'np.linalg.qr(true_U.transpose())':
                            raise Underivable(f'Q comes from `{ast.unparse(st.value)}`')
                    live |= tn
                else:
                    live -= tn    # overwritten by something that does not depend on the draw
            if 'true_U' not in live:
                return '0'
            if branch == 'exact' and 'Q' not in live:
                raise Underivable('the exact branch does not orthonormalise through Q')
            return str(count)
        return run
    emit('exact_draws', [], signal_draws('exact'))
    emit('random_draws', [], signal_draws('random'))

    # ---- round 4: state that survives a call ------------------------------------------------
    emit('input_writes', [], _input_writes)
    emit('module_state', [], _module_state)
    out.append('# stores into arguments / self found by the analysis (input_writes counts these):')
    out.extend('#   ' + x for x in WRITE_SITES)
    out.append('# places that can keep something between calls (module_state counts these):')
    out.extend('#   ' + x for x in STATE_SITES)
    out.append('')

    text = '\n'.join(out)
    if not (os.path.exists(DERIVED) and open(DERIVED).read() == text):
        with open(DERIVED + '.tmp', 'w') as f:
            f.write(text)
        os.replace(DERIVED + '.tmp', DERIVED)


_derive()

_N3 = {'k': 'Nat', 'n_cond': 'Nat', 'n_part': 'Nat'}
LEAVES = [
    dict(name='condIndex', file=DERIVED, func='cond_index', kind='func', params=_N3, ret='Nat'),
    dict(name='partIndex', file=DERIVED, func='part_index', kind='func', params=_N3, ret='Nat'),
    dict(name='centeringEntry', file=DERIVED, func='centering_entry', kind='func',
         params={'delta': 'A', 'size': 'A'}, ret='A'),
    dict(name='gScale', file=DERIVED, func='g_scale', kind='func', params={'hdh': 'A'}, ret='A'),
    dict(name='dataEntry', file=DERIVED, func='data_entry', kind='func',
         params={'zu': 'A', 'sqrt_signal': 'A', 'eps': 'A'}, ret='A'),
    dict(name='eigClamp', file=DERIVED, func='eig_clamp', kind='func', params={'eigval': 'A'}, ret='A'),
    dict(name='genWidth', file=DERIVED, func='gen_width', kind='func',
         params={'n_cond': 'Nat', 'n_channel': 'Nat'}, ret='Nat'),
    dict(name='signalChanTerm', file=DERIVED, func='signal_chan_term', kind='func',
         params={'u_il': 'A', 'chol_lj': 'A'}, ret='A'),
    dict(name='signalMixTerm', file=DERIVED, func='signal_mix_term', kind='func',
         params={'cholg_il': 'A', 'u_lj': 'A'}, ret='A'),
    dict(name='noiseChanTerm', file=DERIVED, func='noise_chan_term', kind='func',
         params={'eps_ol': 'A', 'chol_lc': 'A'}, ret='A'),
    dict(name='noiseTrialTerm', file=DERIVED, func='noise_trial_term', kind='func',
         params={'chol_ol': 'A', 'eps_lc': 'A'}, ret='A'),
    dict(name='designTerm', file=DERIVED, func='design_term', kind='func',
         params={'z_oa': 'A', 'u_ac': 'A'}, ret='A'),
    dict(name='rowCenterEntry', file=DERIVED, func='row_center_entry', kind='func',
         params={'u': 'A', 'row_mean': 'A'}, ret='A'),
    dict(name='descSignal', file=DERIVED, func='desc_signal', kind='func',
         params={'signal': 'A', 'noise': 'A'}, ret='A'),
    dict(name='descNoise', file=DERIVED, func='desc_noise', kind='func',
         params={'signal': 'A', 'noise': 'A'}, ret='A'),
    dict(name='indicatorEntry', file=DERIVED, func='indicator_entry', kind='func',
         params={'label': 'Nat', 'uniq_i': 'Nat'}, ret='A'),
    dict(name='noiseDrawRows', file=DERIVED, func='noise_draw_rows', kind='func',
         params={'n_obs': 'Nat', 'n_channel': 'Nat'}, ret='Nat'),
    dict(name='noiseDrawCols', file=DERIVED, func='noise_draw_cols', kind='func',
         params={'n_obs': 'Nat', 'n_channel': 'Nat'}, ret='Nat'),
    dict(name='signalDrawRows', file=DERIVED, func='signal_draw_rows', kind='func',
         params={'n_cond': 'Nat', 'n_channel': 'Nat'}, ret='Nat'),
    dict(name='signalDrawCols', file=DERIVED, func='signal_draw_cols', kind='func',
         params={'n_cond': 'Nat', 'n_channel': 'Nat'}, ret='Nat'),
    dict(name='exactDraws', file=DERIVED, func='exact_draws', kind='func', params={}, ret='Nat'),
    dict(name='randomDraws', file=DERIVED, func='random_draws', kind='func', params={}, ret='Nat'),
    dict(name='inputWrites', file=DERIVED, func='input_writes', kind='func', params={}, ret='Nat'),
    dict(name='moduleState', file=DERIVED, func='module_state', kind='func', params={}, ret='Nat'),
    # native: chol_G = eigvec * np.sqrt(eigval)
    dict(name='cholEntry', file='simulation/sim.py', func='make_signal', kind='assign',
         target='chol_G', nth=0, count=1, params={'eigvec': 'A', 'sqrt_w': 'A'}, ret='A',
         opaque={'np.sqrt(eigval)': 'sqrt_w'}),
    # native: epsilon = ss.norm.ppf(epsilon) * np.sqrt(noise)   (2nd of the 4 assignments to epsilon)
    dict(name='noiseScale', file='simulation/sim.py', func='make_dataset', kind='assign',
         target='epsilon', nth=1, count=4, params={'z': 'A', 'sqrt_noise': 'A'}, ret='A',
         opaque={'ss.norm.ppf(epsilon)': 'z', 'np.sqrt(noise)': 'sqrt_noise'}),
    # native: true_U = Q.transpose() * np.sqrt(n_channel)       (4th of the 7 assignments to true_U)
    dict(name='exactScale', file='simulation/sim.py', func='make_signal', kind='assign',
         target='true_U', nth=3, count=7, params={'qt': 'A', 'sqrt_n': 'A'}, ret='A',
         opaque={'Q.transpose()': 'qt', 'np.sqrt(n_channel)': 'sqrt_n'}),
]
