"""Leaf specs for C18 (simulation).

The leaves of `simulation/sim.py`, `util/matrix.py` and `rdm/calc.py` that C18 depends on are
*array* expressions (np.kron, np.identity, `@`), outside the scalar subset of py2lean.  This
module therefore first *derives*, from the current source text (Python `ast`), the scalar
entry-wise expression of each anchor and writes it as a tiny Python function into
`harness/leaves/_C18_derived.py`; py2lean then translates those functions as usual
(spec['file'] is that absolute path).  Nothing is cached: the derived file is rewritten from
/repo's text every time the leaf list is loaded (i.e. on every run).

Derivations (each fails closed: an unexpected shape of the anchor gives a function calling
`__underivable__`, which py2lean reports as an untranslatable leaf = broken obligation):

  make_design   cond_vec = np.kron(A, B), part_vec = np.kron(A, B)
                entry k of kron(a, b) is a[k // len(b)] * b[k % len(b)];
                a, b are np.ones((n,)) (entry 1) or np.array(range(0, n)) (entry = index)
  centering     np.identity(size) - np.ones(size) / size      -> delta - 1 / size
  make_dataset  G = c * (H @ D @ H)                           -> (p * hdh) / q,  c = p/q
                epsilon = ss.norm.ppf(epsilon) * np.sqrt(noise) -> z * sqrt_noise
                data = Zcond @ true_U * np.sqrt(signal) + epsilon -> zu * sqrt_signal + eps
  calc_rdm_euclidean
                rdm = ss + ss.T - 2 * np.dot(m, m.T)          -> ssa + ssb - 2 * dotab
                rdm = _extract_triu_(rdm) / measurements.shape[1] -> x / n_channel
"""
import ast
import os
from fractions import Fraction

SRC = os.environ.get('RSA_REPO_SRC', '/repo/src/rsatoolbox')
HERE = os.path.dirname(os.path.abspath(__file__))
DERIVED = os.path.join(HERE, '_C18_derived.py')


class Underivable(Exception):
    pass


def _func(path, name):
    tree = ast.parse(open(os.path.join(SRC, path)).read())
    for node in ast.walk(tree):
        if isinstance(node, ast.FunctionDef) and node.name == name:
            return node
    raise Underivable(f'{path}: function {name} not found')


def _assigns(fn, target):
    hits = [n for n in ast.walk(fn) if isinstance(n, ast.Assign) and len(n.targets) == 1
            and isinstance(n.targets[0], ast.Name) and n.targets[0].id == target]
    hits.sort(key=lambda n: n.lineno)
    return hits


class _Subst(ast.NodeTransformer):
    """replace whole sub-expressions (matched by their unparsed text) by names / literals"""

    def __init__(self, subs):
        self.subs = subs
        self.used = set()

    def visit(self, node):
        if isinstance(node, ast.expr):
            t = ast.unparse(node)
            if t in self.subs:
                self.used.add(t)
                v = self.subs[t]
                if isinstance(v, int):
                    return ast.Constant(value=v)
                return ast.Name(id=v, ctx=ast.Load())
        return self.generic_visit(node)


def _substituted(expr, subs):
    tr = _Subst(subs)
    new = tr.visit(ast.parse(ast.unparse(expr), mode='eval').body)
    missing = [k for k in subs if k not in tr.used]
    if missing:
        raise Underivable(f'sub-expression(s) {missing} not found in `{ast.unparse(expr)}`')
    return ast.unparse(ast.fix_missing_locations(new))


def _kron_entry(fn, target):
    """scalar entry k of `target = np.kron(A, B)` inside make_design"""
    env = {}
    for node in fn.body:
        if isinstance(node, ast.Assign) and len(node.targets) == 1 \
                and isinstance(node.targets[0], ast.Name):
            env[node.targets[0].id] = node.value

    def kind(e):
        # ('ones', n) | ('range', start, n)
        if isinstance(e, ast.Name) and e.id in env:
            return kind(env[e.id])
        t = ast.unparse(e)
        if isinstance(e, ast.Call):
            f = ast.unparse(e.func)
            if f == 'np.ones' and len(e.args) == 1:
                a = e.args[0]
                if isinstance(a, ast.Tuple) and len(a.elts) == 1:
                    a = a.elts[0]
                if isinstance(a, ast.Name):
                    return ('ones', a.id)
            if f == 'np.array' and len(e.args) == 1 and isinstance(e.args[0], ast.Call) \
                    and ast.unparse(e.args[0].func) == 'range':
                r = e.args[0].args
                if len(r) == 1 and isinstance(r[0], ast.Name):
                    return ('range', 0, r[0].id)
                if len(r) == 2 and isinstance(r[0], ast.Constant) and isinstance(r[1], ast.Name) \
                        and isinstance(r[0].value, int) and r[0].value >= 0:
                    return ('range', r[0].value, r[1].id)
            if f == 'np.arange' and len(e.args) == 1 and isinstance(e.args[0], ast.Name):
                return ('range', 0, e.args[0].id)
        raise Underivable(f'kron operand `{t}` is neither np.ones((n,)) nor np.array(range(0, n))')

    hits = _assigns(fn, target)
    if len(hits) != 1:
        raise Underivable(f'expected one assignment to {target}, found {len(hits)}')
    call = hits[0].value
    if not (isinstance(call, ast.Call) and ast.unparse(call.func) == 'np.kron' and len(call.args) == 2):
        raise Underivable(f'{target} is not np.kron(A, B): `{ast.unparse(call)}`')
    a, b = kind(call.args[0]), kind(call.args[1])
    len_b = b[-1] if b[0] == 'ones' else (b[2] if b[1] == 0 else None)
    if len_b is None:
        raise Underivable('range with non-zero start as second kron operand')

    def entry(k, idx):
        if k[0] == 'ones':
            return None
        return idx if k[1] == 0 else f'({k[1]} + {idx})'
    fa = entry(a, f'(k // {len_b})')
    fb = entry(b, f'(k % {len_b})')
    fs = [f for f in (fa, fb) if f is not None]
    return ' * '.join(fs) if fs else '1'


def _scaled(expr, inner_text, inner_name):
    """`c * (inner)` or `-c * (inner)` with a float/int constant c = p/q  ->  (p * name) / q"""
    if not (isinstance(expr, ast.BinOp) and isinstance(expr.op, ast.Mult)):
        raise Underivable(f'`{ast.unparse(expr)}` is not const * ({inner_text})')
    c, x = expr.left, expr.right
    if ast.unparse(x) != inner_text:
        c, x = x, c
    if ast.unparse(x) != inner_text:
        raise Underivable(f'`{inner_text}` not a factor of `{ast.unparse(expr)}`')
    sign = 1
    if isinstance(c, ast.UnaryOp) and isinstance(c.op, ast.USub):
        sign, c = -1, c.operand
    if not (isinstance(c, ast.Constant) and isinstance(c.value, (int, float))
            and not isinstance(c.value, bool)):
        raise Underivable(f'factor `{ast.unparse(c)}` is not a numeric literal')
    fr = Fraction(c.value) * sign
    if fr.denominator > 4096:
        raise Underivable(f'constant {c.value!r} is not a small dyadic rational')
    p, q = fr.numerator, fr.denominator
    if p < 0:
        return f'(0 - {-p} * {inner_name}) / {q}'
    return f'({p} * {inner_name}) / {q}'


def _derive():
    out = ['# DERIVED by harness/leaves/C18.py from the source tree under check - do not edit', '']

    def emit(name, params, body_fn):
        try:
            body = body_fn()
        except Exception as exc:  # noqa: BLE001  (fail closed: any surprise = underivable)
            body = '__underivable__(' + repr(str(exc)) + ')'
        out.append(f'def {name}({", ".join(params)}):')
        out.append(f'    return {body}')
        out.append('')

    emit('cond_index', ['k', 'n_cond', 'n_part'],
         lambda: _kron_entry(_func('simulation/sim.py', 'make_design'), 'cond_vec'))
    emit('part_index', ['k', 'n_cond', 'n_part'],
         lambda: _kron_entry(_func('simulation/sim.py', 'make_design'), 'part_vec'))

    def centering():
        hits = _assigns(_func('util/matrix.py', 'centering'), 'centering_matrix')
        if len(hits) != 1:
            raise Underivable('expected one assignment to centering_matrix')
        return _substituted(hits[0].value, {'np.identity(size)': 'delta', 'np.ones(size)': 1})
    emit('centering_entry', ['delta', 'size'], centering)

    def gscale():
        hits = _assigns(_func('simulation/sim.py', 'make_dataset'), 'G')
        if len(hits) != 1:
            raise Underivable('expected one assignment to G')
        return _scaled(hits[0].value, 'H @ D @ H', 'hdh')
    emit('g_scale', ['hdh'], gscale)

    def noise_scale():
        hits = _assigns(_func('simulation/sim.py', 'make_dataset'), 'epsilon')
        cands = [h for h in hits if 'ppf' in ast.unparse(h.value)]
        if len(cands) != 1:
            raise Underivable('expected one assignment epsilon = ss.norm.ppf(epsilon) * ...')
        return _substituted(cands[0].value, {'ss.norm.ppf(epsilon)': 'z', 'np.sqrt(noise)': 'sqrt_noise'})
    emit('noise_scale', ['z', 'sqrt_noise'], noise_scale)

    def data_entry():
        hits = _assigns(_func('simulation/sim.py', 'make_dataset'), 'data')
        if len(hits) != 1:
            raise Underivable('expected one assignment to data')
        return _substituted(hits[0].value, {'Zcond @ true_U': 'zu', 'np.sqrt(signal)': 'sqrt_signal',
                                            'epsilon': 'eps'})
    emit('data_entry', ['zu', 'sqrt_signal', 'eps'], data_entry)

    def euclid_gram():
        hits = _assigns(_func('rdm/calc.py', 'calc_rdm_euclidean'), 'rdm')
        if len(hits) != 2:
            raise Underivable(f'expected two assignments to rdm, found {len(hits)}')
        return _substituted(hits[0].value, {'sum_sq_measurements': 'ssa', 'sum_sq_measurements.T': 'ssb',
                                            'np.dot(measurements, measurements.T)': 'dotab'})
    emit('euclid_gram', ['ssa', 'ssb', 'dotab'], euclid_gram)

    def euclid_norm():
        hits = _assigns(_func('rdm/calc.py', 'calc_rdm_euclidean'), 'rdm')
        if len(hits) != 2:
            raise Underivable(f'expected two assignments to rdm, found {len(hits)}')
        return _substituted(hits[1].value, {'_extract_triu_(rdm)': 'x',
                                            'measurements.shape[1]': 'n_channel'})
    emit('euclid_norm', ['x', 'n_channel'], euclid_norm)

    text = '\n'.join(out)
    if not (os.path.exists(DERIVED) and open(DERIVED).read() == text):
        with open(DERIVED + '.tmp', 'w') as f:
            f.write(text)
        os.replace(DERIVED + '.tmp', DERIVED)


_derive()

_N3 = {'k': 'Nat', 'n_cond': 'Nat', 'n_part': 'Nat'}
LEAVES = [
    dict(name='condIndex', file=DERIVED, func='cond_index', kind='func', params=_N3, ret='Nat'),
    dict(name='partIndex', file=DERIVED, func='part_index', kind='func', params=_N3, ret='Nat'),
    dict(name='centeringEntry', file=DERIVED, func='centering_entry', kind='func',
         params={'delta': 'A', 'size': 'A'}, ret='A'),
    dict(name='gScale', file=DERIVED, func='g_scale', kind='func', params={'hdh': 'A'}, ret='A'),
    dict(name='noiseScale', file=DERIVED, func='noise_scale', kind='func',
         params={'z': 'A', 'sqrt_noise': 'A'}, ret='A'),
    dict(name='dataEntry', file=DERIVED, func='data_entry', kind='func',
         params={'zu': 'A', 'sqrt_signal': 'A', 'eps': 'A'}, ret='A'),
    dict(name='euclidGram', file=DERIVED, func='euclid_gram', kind='func',
         params={'ssa': 'A', 'ssb': 'A', 'dotab': 'A'}, ret='A'),
    dict(name='euclidNorm', file=DERIVED, func='euclid_norm', kind='func',
         params={'x': 'A', 'n_channel': 'A'}, ret='A'),
]
